"""C03 - each module is executed once per compilation (marker counts, shared module variables, module events)."""
import itertools, re
from .lib import loadgraph as lg

PROP = 'C03'
LEVEL = 'exploration'
BUDGET = {'quick': 20, 'thorough': 400}
FLOOR = {'quick': 5000, 'thorough': 100000}
EXHAUSTIVE = {'quick': True, 'thorough': True}
RULE = ('acyclic @use/@forward graphs: main.scss (entry) plus modules a.scss and d/b.scss (quick: ALL graphs in which main has <= 2 '
        'module loads and a has <= 2, targets later in the order, 3 URL spellings each, and the same space over main.scss, k/s/y.scss and the directory index k/_index.scss spelled `k`/`..`, `k/.`/`../.`, `k/_index`; thorough adds ALL such graphs over 4 files with '
        '<= 2 loads per file) plus random acyclic graphs over 3..6 files, more placements (partials, d/e/) and 6 spellings.  Every '
        'module emits a unique marker rule and owns a counter variable; every user increments the counter of each module it can see '
        '(directly, or through one @forward) via the namespace and prints what it reads back.  Distinct by graph; non-trivial = at '
        'least one module is loaded twice (two edges reach it) or through a non-plain spelling.  Oracle: each reachable module marker '
        'occurs exactly once in the output; every printed counter equals the value predicted by "first load executes, later loads '
        'alias the same module"; event side: at most one module-initialisation event per canonical file.')
LEVEL_TEXT = ('Reference-model monitor, bounded-exhaustive over small module graphs: the model is "one instance per canonical file"; '
              'markers and read-back counters make a second execution or a private copy of the variables observable in the output.')
LEVEL_NOTE = ('Trusted: the in-memory loader (resolves . and ..), the execution-order model (module loads in source order, depth first).  '
              'Marker order in the output is not asserted, only multiplicity.')
TECHNIQUE = 'runtime monitoring: bounded-exhaustive module graphs with unique markers and shared-counter read-back against a once-per-file model'

MARK = re.compile(r'\.m(\d+)\s*\{')
READ = re.compile(r'\.r(\d+)-(\d+)-(\d+)\s*\{\s*v:\s*([^;}\s]+)')


def visible(graph, i):
    """Modules whose counter file i can reach: [(namespace, module index)] - direct uses, and one level of forward."""
    out = []
    n = 0
    for k, t, v in graph['edges'][i]:
        if k == 'use':
            ns = 'n%d' % n
            n += 1
            out.append((ns, t))
            for k2, t2, _ in graph['edges'][t]:
                if k2 == 'forward':
                    out.append((ns, t2))
    return out


def render(graph):
    def extra(i, uses):
        lines = []
        for j, (ns, t) in enumerate(visible(graph, i)):
            lines.append('%s.$c%d: %s.$c%d + 1;' % (ns, t, ns, t))
            lines.append('.r%d-%d-%d { v: %s.$c%d }' % (i, j, t, ns, t))
        return ('$c%d: 0;' % i, '\n'.join(lines))
    files = lg.render(graph, marker=lambda i: '.m%d{x:y}' % i, extra=extra)
    # a second (or first) load that carries a configuration must not execute the module again either: flagged @forward edges
    # get `with ($cfgT: 1)`; every module declares `$cfgI: 0 !default`
    cfg = graph.get('cfg')
    if cfg:
        for i, path in enumerate(graph['files']):
            text = files[path]
            for (k, t, v), flag in zip(graph['edges'][i], cfg[i]):
                if flag and k == 'forward':
                    line = '@forward "%s";' % lg.spell(path, graph['files'][t], v)
                    text = text.replace(line, line[:-1] + ' with ($cfg%d: 1);' % t, 1)
            files[path] = text.replace('$c%d: 0;' % i, '$cfg%d: 0 !default; $c%d: 0;' % (i, i), 1)
    return files


def model(graph):
    """-> (set of executed modules, {(user, j, target): expected counter value})"""
    counters = {}
    done = set()
    expect = {}
    # a variable forwarded twice under the same name into one namespace would be a (legitimate) conflict: the caller avoids it

    def load(i):
        if i in done:
            return
        done.add(i)
        counters[i] = 0
        for k, t, v in graph['edges'][i]:
            load(t)
        for j, (ns, t) in enumerate(visible(graph, i)):
            counters[t] += 1
            expect[(i, j, t)] = counters[t]
    load(0)
    return done, expect


def forward_closure(graph, t):
    """t and every module it forwards, transitively."""
    seen, todo = [t], [t]
    while todo:
        u = todo.pop()
        for k, v, _ in graph['edges'][u]:
            if k == 'forward' and v not in seen:
                seen.append(v)
                todo.append(v)
    return seen


def model_snapshot_deviation(graph):
    """The listed deviation (known finding): @forward copies the forwarded module's variables (a snapshot taken when the
    @forward statement runs) into the forwarding module, and a module that contains an @forward is handed to each @use as
    a fresh copy of its own variables plus those snapshots, taken when the @use statement runs; writes through such a
    namespace stay in the copy.  Modules without @forward are shared as they should be."""
    counters = {}
    fwd = {}
    done = set()
    expect = {}

    def load(i):
        if i in done:
            return
        done.add(i)
        counters[i] = 0
        fwd[i] = {}
        snaps = []
        for k, t, v in graph['edges'][i]:
            load(t)
            if k == 'forward':
                fwd[i].update(fwd[t])
                fwd[i][t] = counters[t]
            else:
                if fwd[t]:
                    snap = dict(fwd[t])
                    snap[t] = counters[t]
                    snaps.append(snap)
                else:
                    snaps.append(None)
        u = -1
        j = 0
        for k, t, v in graph['edges'][i]:
            if k != 'use':
                continue
            u += 1
            targets = [t] + [t2 for k2, t2, _ in graph['edges'][t] if k2 == 'forward']
            for tt in targets:
                store = snaps[u] if snaps[u] is not None else counters
                store[tt] += 1
                expect[(i, j, tt)] = store[tt]
                j += 1
    load(0)
    return done, expect


def ambiguous(graph):
    """True when one namespace would see the same counter twice (a module forwards the same module twice)."""
    for i, es in enumerate(graph['edges']):
        for k, t, v in es:
            if k == 'use':
                fw = [t2 for k2, t2, _ in graph['edges'][t] if k2 == 'forward']
                if len(fw) != len(set(fw)):
                    return True
    return False


def judge(ctx, graph, r):
    ctx.ran()
    indeg = {}
    respelled = False
    for es in graph['edges']:
        for k, t, v in es:
            indeg[t] = indeg.get(t, 0) + 1
            respelled |= v != 'plain'
    shared = any(c > 1 for c in indeg.values())
    if shared or respelled:
        ctx.nontrivial(graph)
    st = r.get('status')
    if st in ('timeout', 'crash', 'harness-error'):
        ctx.undecided(st)
        return
    ctx.stat('status:' + str(st))
    if st != 'ok':
        if graph.get('cfg'):
            ctx.stat('configured-load-refused')       # refusing to configure a loaded module is legitimate
            return
        ctx.undecided('graph-does-not-compile', (r.get('err') or '')[:200].replace('\n', ' | '))
        return
    done, expect = model(graph)
    out = r.get('out', '')
    counts = {}
    for m in MARK.finditer(out):
        counts[int(m.group(1))] = counts.get(int(m.group(1)), 0) + 1
    shape = 'shared' if shared else 'single-user'
    spell = 'respelled' if respelled else 'plain'
    kinds = '+'.join(sorted(set(k for es in graph['edges'] for k, _, _ in es)))
    ctx.seen('shapes', '%s %s %s' % (kinds, shape, spell))
    detail = lambda extra: dict(extra, out=out[:600], files=render(graph))
    for i in sorted(done):
        c = counts.get(i, 0)
        if c != 1:
            ctx.violation('marker-count|%s|%s|%s|observed=%s' % (kinds, shape, spell, 'zero' if c == 0 else 'more-than-once'), graph,
                          detail({'module': graph['files'][i], 'count': c}))
            return
    for i in counts:
        if i not in done:
            ctx.violation('marker-of-unreachable-module', graph, detail({'module': graph['files'][i]}))
            return
    got = {}
    for m in READ.finditer(out):
        got[(int(m.group(1)), int(m.group(2)), int(m.group(3)))] = m.group(4)
    wrong = [(key, want, got.get(key)) for key, want in expect.items() if got.get(key) != str(want)]
    if wrong:
        key, want, g = wrong[0]
        if g is None:
            ctx.violation('reader-missing|%s|%s|%s' % (kinds, shape, spell), graph, detail({'reader': key}))
            return
        _, dev = model_snapshot_deviation(graph)
        if all(got.get(k) == str(w) for k, w in dev.items()):
            ctx.violation('module-variable|module-containing-@forward-is-copied-per-@use', graph,
                          detail({'reader': key, 'expected': want, 'observed': g}))
            return
        direct = any(k == 'use' and t == key[2] for k, t, _ in graph['edges'][key[0]])
        ctx.violation('module-variable|%s|users-see-different-values' % ('read-directly' if direct else 'read-through-forward'), graph,
                      detail({'reader': key, 'expected': want, 'observed': g}))
        return
    inits = {}
    for _seq, kind, a, b in r.get('events', []):
        if kind == 'module' and b == 'init':
            c = lg.canon(a)
            inits[c] = inits.get(c, 0) + 1
            ctx.seen('module_keys', a if len(a) < 40 else a[:40])
    for c, nn in inits.items():
        if nn > 1:
            ctx.violation('events|module-initialised-more-than-once|%s' % spell, graph, detail({'file': c, 'inits': nn}))
            return
    ctx.seen('max_users_of_one_module', max(indeg.values()) if indeg else 0)


def run_graphs(ctx, graphs):
    graphs = [g for g in graphs if not ambiguous(g)]
    res = ctx.batch([{'files': render(g), 'entry': g['files'][0]} for g in graphs])
    for g, r in zip(graphs, res):
        judge(ctx, g, r)


def check_case(ctx, graph):
    run_graphs(ctx, [graph])


def acyclic_graphs(files, max_out, variants=('plain', 'dot', 'updown')):
    n = len(files)
    per_file = []
    for i in range(n):
        opts = [(k, t, v) for k in lg.MODULE_KINDS for t in range(i + 1, n) for v in variants]
        sel = [()]
        for d in range(1, max_out + 1):
            sel += list(itertools.product(opts, repeat=d))
        per_file.append(sel)
    for combo in itertools.product(*per_file):
        yield {'files': list(files), 'edges': [list(map(list, c)) for c in combo]}


def _exhaust(ctx, files, max_out, variants=('plain', 'dot', 'updown')):
    chunk = []
    for idx, g in enumerate(acyclic_graphs(files, max_out, variants)):
        if idx % ctx.nshards != ctx.shard:
            continue
        if not lg.valid(g):
            continue
        chunk.append(g)
        if not ctx.samples:
            ctx.sample({'graph': g, 'files': render(g)})
        if len(chunk) >= 300:
            run_graphs(ctx, chunk)
            chunk = []
            if ctx.expired():
                return False
    run_graphs(ctx, chunk)
    return True


def worker(ctx):
    ok = _exhaust(ctx, ['main.scss', 'a.scss', 'd/b.scss'], 2)
    if ok:
        ctx.stat('exhaustive_3_files_completed')
        # a directory-index module used from above (`k`, `k/.`, `k/_index`) and from below (`..`, `../.`, `../_index`)
        ok = _exhaust(ctx, ['main.scss', 'k/s/y.scss', 'k/_index.scss'], 2, ('plain', 'enddot', 'underscore'))
        if ok:
            ctx.stat('exhaustive_3_files_index_completed')
    if ok and not ctx.quick:
        ctx.deadline -= BUDGET['thorough'] * 0.25
        ok = _exhaust(ctx, ['main.scss', 'a.scss', 'd/b.scss', 'd/_q.scss'], 2)
        ctx.deadline += BUDGET['thorough'] * 0.25
        if ok:
            ctx.stat('exhaustive_4_files_completed')
    if ok:
        ctx.stat('space_completed')
    first = True
    while not ctx.expired():
        gs = [lg.random_graph(ctx.rng, ctx.rng.choice([3, 4, 4, 5, 6]), max_out=3, kinds=lg.MODULE_KINDS, acyclic=True, p_edge=0.9)
              for _ in range(200)]
        for g in gs:
            if ctx.rng.random() < 0.4:
                g['cfg'] = [[e[0] == 'forward' and ctx.rng.random() < 0.5 for e in es] for es in g['edges']]
        if first:
            ctx.sample({'graph': gs[0], 'files': render(gs[0])})
            first = False
        run_graphs(ctx, gs)
        ctx.stat('random_graphs', len(gs))
