"""C29 - sass:math functions compute the specified values (reference-model monitor: boundary table + random cases)."""
import math, re
from fractions import Fraction as F
from .lib import ev
from . import c11

PROP = 'C29'
LEVEL = 'exploration'
BUDGET = {'quick': 25, 'thorough': 300}
FLOOR = {'quick': 4000, 'thorough': 30000}
RULE = ('calls of math.abs ceil floor round percentage div min max clamp pow sqrt log (1 and 2 arguments) exp sin cos tan '
        'asin acos atan atan2 hypot on number literals: a fixed boundary table (0, -0, +-0.5 and other ties incl. '
        '0.49999999999999994 and 2^51+0.5, huge 1e15..1e300, tiny 1e-5..1e-300, +-infinity and NaN made with math.div(x,0), '
        'every unit class) enumerated on every run, then random cases until the time budget ends.  Units: unitless, px in cm '
        'mm Q pt pc, deg grad rad turn, s ms, Hz kHz, dpi dpcm dppx (fixed ratios), em rem vw vh %, unknown units; pairs are '
        'same / fixed-ratio / different dimension / no fixed ratio / unknown.  Every case is non-trivial; distinct by '
        '(function, literal operands).  Oracle: Python math/fractions (round = exact half away from zero on the rational '
        'value, IEEE results for pow/log/sqrt/exp at the domain edges), unit bookkeeping with the C11 ratio table; the value '
        'is compiled at precision 13 and compared numerically at relative 1e-10 (+2e-13 absolute for the printed rounding); '
        'results below 1e-6 are rescaled with * 1eK before printing; forbidden and incompatible units must be an error.')
LEVEL_TEXT = ('Reference-model monitor: every observed call result is compared with an independent computation '
              '(value, unit, error/no error); boundary classes are enumerated completely, magnitudes are sampled.')
LEVEL_NOTE = ('Trusted: Python libm/fractions, the C11 unit-ratio table, the number printer at precision 13 (C10) as the observation '
              'channel, and unitless multiplication by a power of ten for rescaling tiny results.')
TECHNIQUE = 'runtime monitoring: boundary table plus random operands against a math/fractions reference model'
ASSUMPTIONS = [
    'the sign of a zero result is not asserted; -0 is never used where it would decide the result (divisors, atan2, pow base)',
    'min/max/clamp: any argument that equals the extreme after conversion is admitted, in the unit of any argument of that value; '
    'operands are either exactly equal after conversion or differ by more than 1e-6 relative (dart-sass compares with a 1e-11 fuzz)',
    'ceil/floor/round of infinity or NaN: the same non-finite value or an error are both admitted (statement silent)',
    'a unitless operand mixed with operands that have units in min/max/hypot/atan2/clamp: the value dart-sass gives or an error are both '
    'admitted (dart-sass accepts it in min/max and rejects it in clamp/hypot/atan2; the statement is silent)',
    'trigonometric arguments stay below 1e4 rad and away from the poles of tan, where the result would hang on the last bit of the angle conversion',
    'math.exp is asserted only if the module defines it (the statement names it, dart-sass only has the global exp())',
]

INF = float('inf')
NAN = float('nan')
PREC = 13
PRELUDE = '@use "sass:math";'

KEEP = ('abs', 'ceil', 'floor', 'round')
UNITLESS_ONLY = ('pow', 'sqrt', 'log', 'exp', 'percentage', 'asin', 'acos', 'atan')
TRIG = ('sin', 'cos', 'tan')
MULTI = ('min', 'max', 'clamp', 'hypot', 'atan2')
ALL_FNS = KEEP + ('percentage', 'div', 'min', 'max', 'clamp', 'pow', 'sqrt', 'log', 'exp') + TRIG + ('asin', 'acos', 'atan', 'atan2', 'hypot')

NO_RATIO_PAIRS = [('px', 'em'), ('em', 'px'), ('px', '%'), ('%', 'px'), ('em', 'rem'), ('vw', 'vh'), ('px', 'vw'), ('%', 'em')]
UNKNOWN_PAIRS = [('foo', 'bar'), ('px', 'foo'), ('foo', 'px'), ('foo', 'deg')]


# ---------------------------------------------------------------- operands
def val(t):
    """numeric value (float, may be inf/nan) of an operand text"""
    if t == 'inf':
        return INF
    if t == '-inf':
        return -INF
    if t == 'nan':
        return NAN
    return float(F(t))


def spell(u):
    return c11.SPELL.get(u, u)


def render_arg(a):
    t, u = a['t'], a['u']
    U = spell(u)
    if t == 'inf':
        return 'math.div(1%s, 0)' % U
    if t == '-inf':
        return 'math.div(-1%s, 0)' % U
    if t == 'nan':
        return 'math.div(0%s, 0)' % U
    return t + U


def render(case):
    e = 'math.%s(%s)' % (case['fn'], ', '.join(render_arg(a) for a in case['args']))
    if case.get('scale'):
        e = '%s * 1e%d' % (e, case['scale'])
    return e


def finite(x):
    return not (math.isinf(x) or math.isnan(x))


# ---------------------------------------------------------------- reference functions on doubles
def r_round(x):
    if not finite(x):
        return x
    q = F(x)
    n = (abs(q) + F(1, 2)).__floor__()
    return float(n if q >= 0 else -n)


def r_ceil(x):
    return float(math.ceil(x)) if finite(x) else x


def r_floor(x):
    return float(math.floor(x)) if finite(x) else x


def r_div(a, b):
    if math.isnan(a) or math.isnan(b):
        return NAN
    if b == 0:
        if a == 0:
            return NAN
        return INF if a > 0 else -INF
    if math.isinf(a) and math.isinf(b):
        return NAN
    try:
        return a / b
    except OverflowError:
        return INF if (a > 0) == (b > 0) else -INF


def r_pow(x, y):
    try:
        return math.pow(x, y)
    except OverflowError:
        odd = finite(y) and y == math.floor(y) and abs(y) < 2 ** 53 and int(y) % 2 == 1
        return -INF if (x < 0 and odd) else INF
    except ValueError:
        if x == 0 and y < 0:
            return INF
        return NAN


def r_sqrt(x):
    if math.isnan(x) or x < 0:
        return NAN
    return math.sqrt(x) if finite(x) else INF


def r_ln(x):
    if math.isnan(x) or x < 0:
        return NAN
    if x == 0:
        return -INF
    return math.log(x) if finite(x) else INF


def r_exp(x):
    if math.isnan(x):
        return NAN
    try:
        return math.exp(x)
    except OverflowError:
        return INF


def r_trig(f, x):
    if not finite(x):
        return NAN
    return {'sin': math.sin, 'cos': math.cos, 'tan': math.tan}[f](x)


def r_inv(f, x):
    if math.isnan(x):
        return NAN
    if f == 'atan':
        return math.degrees(math.atan(x))
    if abs(x) > 1:
        return NAN
    return math.degrees(math.asin(x) if f == 'asin' else math.acos(x))


# ---------------------------------------------------------------- unit bookkeeping
def pair_class(u1, u2):
    if u1 == u2:
        return 'same'
    if u1 == '' or u2 == '':
        return 'unitless-mixed'
    if c11.ratio(u1, u2) is not None:
        return 'fixed-ratio'
    k1, k2 = c11.kind(u1), c11.kind(u2)
    if 'unknown' in (k1, k2):
        return 'unknown-unit'
    if k1 in c11.GROUPS and k2 in c11.GROUPS:
        return 'different-dimension'
    return 'no-fixed-ratio'


def units_class(units):
    """worst pair class of a list of units against the first one / each other"""
    order = ['same', 'fixed-ratio', 'unitless-mixed', 'no-fixed-ratio', 'different-dimension', 'unknown-unit']
    worst = 'same'
    for i in range(len(units)):
        for j in range(i + 1, len(units)):
            c = pair_class(units[i], units[j])
            if order.index(c) > order.index(worst):
                worst = c
    return worst


def conv(v, u_from, u_to):
    """value of (v u_from) expressed in u_to (unitless adopts)"""
    if u_from == u_to or u_from == '' or u_to == '':
        return v
    return v * float(c11.ratio(u_to, u_from))


def magnitude_class(args):
    cs = set()
    for a in args:
        t = a['t']
        if t in ('inf', '-inf'):
            cs.add('inf')
        elif t == 'nan':
            cs.add('nan')
        else:
            q = abs(F(t))
            if q == 0:
                cs.add('zero')
            elif q >= 10 ** 15:
                cs.add('huge')
            elif q < F(1, 10 ** 5):
                cs.add('tiny')
            elif (q * 2).denominator == 1 and q.denominator == 2:
                cs.add('tie')
            else:
                cs.add('ordinary')
    for c in ('nan', 'inf', 'huge', 'tiny', 'tie', 'zero'):
        if c in cs:
            return c
    return 'ordinary'


# ---------------------------------------------------------------- the oracle
def expect(case):
    """-> ('num', [(value, unit), ...] admissible results, also_error_ok)  |  ('error',)  |  ('skip', reason)"""
    fn, args = case['fn'], case['args']
    vs = [val(a['t']) for a in args]
    us = [a['u'] for a in args]
    if fn in KEEP:
        x, u = vs[0], us[0]
        y = {'abs': math.fabs, 'ceil': r_ceil, 'floor': r_floor, 'round': r_round}[fn](x)
        return ('num', [(y, u)], fn != 'abs' and not finite(x))
    if fn in UNITLESS_ONLY:
        if any(us):
            return ('error',)
        x = vs[0]
        if fn == 'percentage':
            return ('num', [(x * 100, '%')], False)
        if fn == 'pow':
            return ('num', [(r_pow(vs[0], vs[1]), '')], False)
        if fn == 'sqrt':
            return ('num', [(r_sqrt(x), '')], False)
        if fn == 'exp':
            return ('num', [(r_exp(x), '')], False)
        if fn == 'log':
            if len(vs) == 1:
                return ('num', [(r_ln(x), '')], False)
            return ('num', [(r_div(r_ln(x), r_ln(vs[1])), '')], False)
        return ('num', [(r_inv(fn, x), 'deg')], False)
    if fn in TRIG:
        u = us[0]
        if u and c11.kind(u) != 'angle':
            return ('error',)
        x = vs[0] if u in ('', 'rad') else conv(vs[0], u, 'rad')
        return ('num', [(r_trig(fn, x), '')], False)
    if fn == 'div':
        a, b = vs
        ua, ub = us
        if ub == '':
            return ('num', [(r_div(a, b), ua)], False)
        if ua == ub:
            return ('num', [(r_div(a, b), '')], False)
        if ua and c11.ratio(ua, ub) is not None:
            return ('num', [(r_div(a, conv(b, ub, ua)), '')], False)
        return ('skip', 'compound unit')
    # several operands whose units must agree
    cls = units_class(us)
    if cls in ('no-fixed-ratio', 'different-dimension', 'unknown-unit'):
        return ('error',)
    err_ok = cls == 'unitless-mixed' or (fn == 'hypot' and '%' in us)
    ref = next((u for u in us if u), '')
    cv = [conv(v, u, ref) for v, u in zip(vs, us)]
    distinct_units = sorted(set(us))
    if fn in ('min', 'max', 'clamp'):
        if fn == 'clamp':
            lo, x, hi = cv
            target = lo if lo >= hi or lo >= x else (hi if x >= hi else x)
        else:
            target = min(cv) if fn == 'min' else max(cv)
        # the result is an argument of that quantity; admitted in the unit of any argument
        return ('num', [(conv(target, ref, u), u) for u in distinct_units], err_ok)
    if fn == 'hypot':
        if any(math.isinf(v) for v in cv):
            h = INF
        elif any(math.isnan(v) for v in cv):
            h = NAN
        else:
            try:
                h = math.sqrt(math.fsum(v * v for v in cv))
            except OverflowError:
                h = INF
        if finite(h) and h > 1e150:
            return ('skip', 'overflow of the intermediate squares is not specified')
        return ('num', [(conv(h, ref, u), u) for u in distinct_units], err_ok)
    if fn == 'atan2':
        y, x = cv
        if math.isnan(x) or math.isnan(y):
            return ('num', [(NAN, 'deg')], err_ok)
        return ('num', [(math.degrees(math.atan2(y, x)), 'deg')], err_ok)
    raise ValueError(fn)


# ---------------------------------------------------------------- observation
_NUM = re.compile(r'^([+-]?(?:\d+\.?\d*|\.\d+)(?:[eE][+-]?\d+)?)([a-zA-Z%]*)$')
_SPECIAL = re.compile(r'^calc\((-?)(infinity|NaN)(?: \* 1([a-zA-Z%]+))?\)$')


def observe(st, text):
    if st == 'err':
        return ('error', text)
    if st != 'ok':
        return ('other', st)
    text = text.strip()
    m = _NUM.match(text)
    if m:
        try:
            return ('num', float(m.group(1)), m.group(2).lower())
        except (ValueError, OverflowError):
            return ('text', text)
    m = _SPECIAL.match(text)
    if m:
        v = NAN if m.group(2) == 'NaN' else (-INF if m.group(1) else INF)
        return ('num', v, (m.group(3) or '').lower())
    return ('text', text)


def close(o, e, slack=0.0):
    if math.isnan(e):
        return math.isnan(o)
    if math.isinf(e):
        return o == e
    if not finite(o):
        # within a unit-conversion factor of the largest double an intermediate product may overflow although the exact
        # result is still representable (math.div(-5e11Hz, -7e-300kHz) = 7e307): infinity of the right sign is admitted there
        return math.isinf(o) and abs(e) > 1e300 and (o > 0) == (e > 0)
    if abs(e) < 1e-300 and o == 0:
        return True           # the mirror image: underflow next to the smallest doubles
    return abs(o - e) <= 1e-10 * abs(e) + 2e-13 + slack


def slack_of(case, exp):
    """trigonometric functions: the angle in radians carries a relative error of a few ulp from the unit conversion,
    which the function amplifies by |x| (sin, cos) or |x|(1+tan^2) (tan)"""
    if case['fn'] not in TRIG or exp[0] != 'num':
        return 0.0
    a = case['args'][0]
    x = val(a['t'])
    if not finite(x):
        return 0.0
    x = abs(x if a['u'] in ('', 'rad') else conv(x, a['u'], 'rad'))
    v = exp[1][0][0]
    return 1e-15 * x * ((1 + v * v) if case['fn'] == 'tan' and finite(v) else 1.0)


def vclass(x):
    if math.isnan(x):
        return 'nan'
    if math.isinf(x):
        return 'inf'
    return 'finite'


def obs_class(obs, exp, case):
    if obs[0] == 'error':
        return 'error'
    if obs[0] == 'text':
        m = re.match(r'^([a-z-]+)\(', obs[1])
        return 'unevaluated-' + (m.group(1) if m else 'text')
    if exp[0] != 'num':
        return 'number'
    if case['fn'] in ('min', 'max', 'clamp') and any(
            obs[2] == a['u'] and close(obs[1], val(a['t']) * 10.0 ** case.get('scale', 0)) for a in case['args']):
        return 'another-argument'
    units = set(u for _, u in exp[1])
    if obs[2] not in units:
        return 'wrong-unit'
    ev_ = [v for v, u in exp[1] if u == obs[2]][0]
    if vclass(obs[1]) != vclass(ev_):
        return vclass(obs[1]) + '-for-' + vclass(ev_)
    return 'wrong-value'


def judge(ctx, case, st, text):
    """compares one observed result with the oracle; returns True when the case was decided"""
    exp = expect(case)
    fn = case['fn']
    if exp[0] == 'skip':
        ctx.stat('not_asserted:' + exp[1])
        return False
    obs = observe(st, text)
    if obs[0] == 'other':
        ctx.undecided('status-' + str(obs[1]))
        return False
    ucls = units_class([a['u'] for a in case['args']]) if len(case['args']) > 1 else \
        ('unitless' if not case['args'][0]['u'] else c11.kind(case['args'][0]['u']))
    mcls = magnitude_class(case['args'])
    ctx.seen('functions', fn)
    ctx.seen('function_x_units', '%s:%s' % (fn, ucls))
    ctx.seen('function_x_magnitude', '%s:%s' % (fn, mcls))
    if fn == 'exp' and obs[0] == 'error' and re.search(r'[Uu]ndefined function|no function', obs[1]):
        ctx.stat('math.exp_not_defined')
        return False
    ok = False
    if exp[0] == 'error':
        ok = obs[0] == 'error'
        ctx.seen('outcomes', 'expected-error')
    else:
        ctx.seen('outcomes', 'expected-' + '/'.join(sorted(set(vclass(v) for v, _ in exp[1]))))
        scale = 10.0 ** case.get('scale', 0)
        if obs[0] == 'error':
            ok = exp[2]
            if ok:
                ctx.stat('admitted_error_where_statement_is_silent')
        elif obs[0] == 'num':
            ok = any(obs[2] == u and close(obs[1], v * scale, slack_of(case, exp) * scale) for v, u in exp[1])
    if not ok:
        # the signature names oracle-side classes only; where an error is expected the magnitudes do not matter, and
        # where a number is expected from several operands the three compatible unit classes are one class
        sig = 'fn=%s|units=%s|operands=%s|expected=%s|observed=%s' % (
            fn + ('2' if fn == 'log' and len(case['args']) == 2 else ''),
            'compatible' if (exp[0] == 'num' and fn in MULTI) else ucls,
            'any' if exp[0] == 'error' else mcls,
            'error' if exp[0] == 'error' else 'number', obs_class(obs, exp, case))
        ctx.violation(sig, case, {'expr': render(case), 'expected': [exp[0]] + [str(x) for x in exp[1:]],
                                  'observed': [str(x)[:300] for x in obs]})
    return True


def with_scale(case):
    """tiny finite results would print as 0: multiply by a power of ten first"""
    case.pop('scale', None)
    exp = expect(case)
    if exp[0] == 'num':
        vals = [abs(v) for v, _ in exp[1] if finite(v) and v != 0]
        if vals and max(vals) < 1e-6 and min(vals) > 1e-290:
            case['scale'] = min(300, -int(math.floor(math.log10(max(vals)))))
    return case


def check_cases(ctx, cases):
    good, bad = [], []
    for c in cases:
        (bad if expect(c)[0] == 'error' else good).append(c)
    for group, chunk in ((good, 20), (bad, 1)):
        if not group:
            continue
        res = ev.evaluate_many(ctx, [render(c) for c in group], inspect=False, precision=PREC, prelude=PRELUDE, chunk=chunk)
        for c, (st, text) in zip(group, res):
            ctx.ran()
            if judge(ctx, c, st, text):
                ctx.nontrivial((c['fn'], [(a['t'], a['u']) for a in c['args']]))


def check_case(ctx, case):
    check_cases(ctx, [case])


# ---------------------------------------------------------------- generation
def A(t, u=''):
    return {'t': t, 'u': u}


BOUNDARY_T = ['0', '-0', '0.5', '-0.5', '1.5', '-1.5', '2.5', '-2.5', '3.5', '-3.5', '0.49999999999999994', '-0.49999999999999994',
              '2251799813685248.5', '-2251799813685248.5', '4503599627370495.5', '1', '-1', '2', '0.25', '-0.75', '7.000001', '-7.000001',
              '6.999999', '100', '1e15', '-1e15', '9007199254740993', '1e18', '-1e21', '1e100', '1.5e300', '-1.5e300', '1e-5', '-1e-7',
              '2.5e-12', '1e-20', '-3e-100', '1e-300', 'inf', '-inf', 'nan']
KEEP_UNITS = ['', 'px', 'in', 'q', 'em', 'rem', '%', 'deg', 'turn', 's', 'hz', 'dppx', 'fr', 'vw', 'foo']
FORBIDDEN_UNITS = ['px', '%', 'deg', 'em', 's', 'foo']
NON_ANGLE_UNITS = ['px', '%', 's', 'em', 'hz', 'foo', 'dpi']
ANGLES = ['', 'rad', 'deg', 'grad', 'turn']
FIXED = [(g, list(d)) for g, d in c11.GROUPS.items()]


def boundary_cases():
    out = []
    for f in KEEP:
        for t in BOUNDARY_T:
            for u in ('', 'px', '%', 'foo'):
                out.append({'fn': f, 'args': [A(t, u)]})
        for u in KEEP_UNITS:
            for t in ('-2.5', '2.5', '-0.3'):
                out.append({'fn': f, 'args': [A(t, u)]})
    for t in BOUNDARY_T:
        out.append({'fn': 'percentage', 'args': [A(t)]})
        out.append({'fn': 'sqrt', 'args': [A(t)]})
        out.append({'fn': 'exp', 'args': [A(t)]})
        out.append({'fn': 'log', 'args': [A(t)]})
        out.append({'fn': 'atan', 'args': [A(t)]})
        for b in ('2', '10', '0.5', '2.718281828459045'):
            out.append({'fn': 'log', 'args': [A(t), A(b)]})
        if t != 'nan':
            for e in ('0', '1', '2', '-1', '0.5', '-0.5', '3', '1024', '-1074', 'inf', '-inf'):
                if t in ('-0',) or (t in ('1', '-1') and e in ('inf', '-inf')):
                    continue
                out.append({'fn': 'pow', 'args': [A(t), A(e)]})
            for e in ('0', '-0', '2', '-3', '0.5', '1e300', 'inf'):
                if e in ('0', '-0') or (t in ('inf', '-inf') and e == 'inf'):
                    continue
                out.append({'fn': 'div', 'args': [A(t), A(e)]})
                out.append({'fn': 'div', 'args': [A(t, 'px'), A(e)]})
                out.append({'fn': 'div', 'args': [A(t, 'px'), A(e, 'px')]})
                out.append({'fn': 'div', 'args': [A(t, 'in'), A(e, 'px')]})
            out.append({'fn': 'div', 'args': [A(t), A('0')]})
            out.append({'fn': 'div', 'args': [A(t, 'px'), A('0')]})
            out.append({'fn': 'div', 'args': [A(t, 's'), A('0', 'ms')]})
    out.append({'fn': 'div', 'args': [A('nan'), A('2')]})
    out.append({'fn': 'div', 'args': [A('2'), A('nan')]})
    for t in ('0', '-0', '0.5', '-0.5', '1', '-1', '1.000001', '-1.000001', '2', '0.7071067811865476', '1e-20', '-1e-9', 'inf', '-inf', 'nan'):
        out.append({'fn': 'asin', 'args': [A(t)]})
        out.append({'fn': 'acos', 'args': [A(t)]})
    for f in TRIG:
        for u, ts in (('', ['0', '-0', '0.5', '-0.5', '1', '3.141592653589793', '-1.5', '100', '1e-20', '-2.5e-9', '1234.5', 'inf', '-inf', 'nan']),
                      ('rad', ['0', '0.5', '-2', '6.283185307179586', 'inf']),
                      ('deg', ['0', '30', '45', '-45', '60', '180', '360', '-720', '0.5', '1e-9', '12345.5', 'nan']),
                      ('grad', ['0', '50', '-100' if f != 'tan' else '-50', '200', '400', '33.3']),
                      ('turn', ['0', '0.125', '0.5', '-0.5', '1', '2.5' if f != 'tan' else '2.125', '0.1'])):
            for t in ts:
                if f == 'tan' and (u, t) in (('deg', '90'), ('grad', '100'), ('turn', '0.25')):
                    continue
                out.append({'fn': f, 'args': [A(t, u)]})
        for u in NON_ANGLE_UNITS:
            out.append({'fn': f, 'args': [A('1', u)]})
            out.append({'fn': f, 'args': [A('0', u)]})
    for f in UNITLESS_ONLY:
        for u in FORBIDDEN_UNITS:
            for t in ('0.5', '0', '1'):
                if f == 'pow':
                    out.append({'fn': f, 'args': [A(t, u), A('2')]})
                    out.append({'fn': f, 'args': [A('2'), A(t, u)]})
                    out.append({'fn': f, 'args': [A(t, u), A('2', u)]})
                else:
                    out.append({'fn': f, 'args': [A(t, u)]})
            if f == 'log':
                out.append({'fn': f, 'args': [A('8'), A('2', u)]})
                out.append({'fn': f, 'args': [A('8', u), A('2')]})
                out.append({'fn': f, 'args': [A('8', u), A('2', u)]})
    # several operands
    for f in ('min', 'max', 'hypot'):
        for n in (1, 2, 3):
            for u in ('', 'px', '%', 'foo'):
                for ts in (['1', '2', '3'], ['3', '-2', '1'], ['-0.5', '0.5', '0'], ['1e300', '1', '-1e300'], ['1e-20', '2e-20', '-1e-20'],
                           ['inf', '1', '-1'], ['-inf', '1', '2'], ['2', '2', '2'], ['1e18', '1e15', '1e-9']):
                    if f == 'hypot' and ts[0] == '1e300':
                        continue
                    out.append({'fn': f, 'args': [A(t, u) for t in ts[:n]]})
    for ts in (['1', '2', '3'], ['1', '0', '3'], ['1', '5', '3'], ['1', '1', '3'], ['1', '3', '3'], ['3', '2', '1'], ['3', '0', '1'], ['3', '5', '1'],
               ['2', '2', '2'], ['-0.5', '0', '0.5'], ['-1e300', '1', '1e300'], ['-inf', '1', 'inf'], ['0', 'inf', '10'], ['0', '-inf', '10'],
               ['1e-20', '5e-20', '3e-20'], ['-1', '-1e-15', '1']):
        for u in ('', 'px', '%', 'foo'):
            out.append({'fn': 'clamp', 'args': [A(t, u) for t in ts]})
    for y in ('0', '1', '-1', '0.5', '1e300', '1e-20', 'inf', '-inf', 'nan'):
        for x in ('0', '1', '-1', '2', '1e300', '-1e-20', 'inf', '-inf'):
            if y == '0' and x not in ('1', '2', '1e300', 'inf', '0'):
                continue        # atan2(+-0, negative) hangs on the sign of zero
            for u in ('', 'px'):
                out.append({'fn': 'atan2', 'args': [A(y, u), A(x, u)]})
    # unit pairs for the functions whose operands must agree
    for g, us in FIXED:
        for u1 in us:
            for u2 in us:
                if u1 == u2:
                    continue
                f12 = float(c11.ratio(u1, u2))      # 1 u2 = f12 u1
                eq = '%.10g' % (3 * f12)
                out.append({'fn': 'min', 'args': [A('1', u1), A('1', u2)]})
                out.append({'fn': 'max', 'args': [A('1', u1), A('1', u2)]})
                if F(eq) == F(3) * c11.ratio(u1, u2):
                    out.append({'fn': 'max', 'args': [A(eq, u1), A('3', u2)]})       # equal after conversion
                    out.append({'fn': 'min', 'args': [A('3', u2), A(eq, u1), A('100', u1)]})
                out.append({'fn': 'clamp', 'args': [A('0', u1), A('1', u2), A('1000', u1)]})
                out.append({'fn': 'clamp', 'args': [A('0', u1), A('1', u2), A('1e-3', u1)]})
                out.append({'fn': 'clamp', 'args': [A('500', u2), A('1', u2), A('1e6', u1)]})
                out.append({'fn': 'hypot', 'args': [A('3', u1), A('4', u2)]})
                out.append({'fn': 'atan2', 'args': [A('1', u1), A('1', u2)]})
                out.append({'fn': 'atan2', 'args': [A('-2', u1), A('-3', u2)]})
                out.append({'fn': 'div', 'args': [A('3', u1), A('4', u2)]})
    known = [u for _, us in FIXED for u in us]
    for i, u1 in enumerate(known):
        for u2 in known:
            if c11.ratio(u1, u2) is None and (known.index(u2) + i) % 3 == 0:
                for f in ('min', 'max', 'hypot', 'atan2'):
                    out.append({'fn': f, 'args': [A('1', u1), A('2', u2)]})
                out.append({'fn': 'clamp', 'args': [A('1', u1), A('2', u2), A('3', u1)]})
                out.append({'fn': 'clamp', 'args': [A('1', u1), A('2', u1), A('3', u2)]})
    for u1, u2 in NO_RATIO_PAIRS + UNKNOWN_PAIRS:
        for f in ('min', 'max', 'hypot', 'atan2'):
            out.append({'fn': f, 'args': [A('1', u1), A('2', u2)]})
            if f != 'atan2':
                out.append({'fn': f, 'args': [A('1', u1), A('3', u1), A('2', u2)]})
        out.append({'fn': 'clamp', 'args': [A('1', u1), A('2', u2), A('3', u1)]})
        out.append({'fn': 'clamp', 'args': [A('1', u1), A('2', u1), A('3', u2)]})
        out.append({'fn': 'clamp', 'args': [A('1', u2), A('2', u1), A('3', u1)]})
    for u in ('px', 'em', 'deg', 'foo'):     # not % or fr: rsass folds them into the unitless dimension, which C11 lists
        for f in ('min', 'max', 'hypot', 'atan2'):
            out.append({'fn': f, 'args': [A('1'), A('2', u)]})
            out.append({'fn': f, 'args': [A('2', u), A('1')]})
        out.append({'fn': 'clamp', 'args': [A('1'), A('2', u), A('3', u)]})
        out.append({'fn': 'clamp', 'args': [A('1', u), A('2'), A('3', u)]})
        out.append({'fn': 'clamp', 'args': [A('1', u), A('2', u), A('3')]})
    return out


def rnd_text(rng, kinds=None):
    k = rng.choice(kinds or ['dec', 'dec', 'dec', 'int', 'tie', 'zero', 'huge', 'tiny', 'unit-interval'])
    s = rng.choice(['', '-'])
    if k == 'dec':
        return s + ('%d.%06d' % (rng.randint(0, rng.choice([1, 10, 1000])), rng.randint(0, 999999))).rstrip('0').rstrip('.')
    if k == 'int':
        return s + str(rng.randint(0, rng.choice([5, 20, 100000])))
    if k == 'tie':
        return s + '%d.5' % rng.randint(0, rng.choice([3, 50, 10 ** 6, 10 ** 12]))
    if k == 'zero':
        return s + '0'
    if k == 'huge':
        return s + '%d.%03de%d' % (rng.randint(1, 9), rng.randint(0, 999), rng.choice([15, 16, 18, 21, 30, 100, 200, 300]))
    if k == 'tiny':
        return s + '%d.%03de-%d' % (rng.randint(1, 9), rng.randint(0, 999), rng.choice([5, 7, 9, 12, 20, 50, 150, 300]))
    if k == 'unit-interval':
        return s + ('0.%06d' % rng.randint(0, 999999)).rstrip('0').rstrip('.')
    if k == 'special':
        return rng.choice(['inf', '-inf', 'nan'])
    raise ValueError(k)


def apart(vals):
    """operands of a comparison are exactly equal or clearly apart"""
    for i in range(len(vals)):
        for j in range(i + 1, len(vals)):
            a, b = vals[i], vals[j]
            if not (finite(a) and finite(b)) or a == b:
                continue
            if abs(a - b) <= 1e-6 * max(abs(a), abs(b)):
                return False
    return True


def random_case(rng):
    f = rng.choice(ALL_FNS)
    if f in KEEP:
        return {'fn': f, 'args': [A(rnd_text(rng), rng.choice(KEEP_UNITS))]}
    if f in UNITLESS_ONLY and rng.random() < 0.08:
        u = rng.choice(FORBIDDEN_UNITS)
        args = [A(rnd_text(rng, ['dec', 'int']), u)]
        if f == 'pow' or (f == 'log' and rng.random() < 0.5):
            args = rng.choice([[A('2'), args[0]], [args[0], A('2')]])
        return {'fn': f, 'args': args}
    if f == 'percentage':
        return {'fn': f, 'args': [A(rnd_text(rng))]}
    if f == 'sqrt':
        return {'fn': f, 'args': [A(rnd_text(rng))]}
    if f == 'exp':
        return {'fn': f, 'args': [A(rnd_text(rng, ['dec', 'int', 'tie', 'zero', 'tiny', 'unit-interval']))]}
    if f == 'log':
        args = [A(rnd_text(rng))]
        if rng.random() < 0.5:
            b = rnd_text(rng, ['dec', 'int', 'unit-interval']).lstrip('-')
            if abs(float(b) - 1) < 1e-3 or float(b) < 1e-3:
                b = '2'
            args.append(A(b))
        return {'fn': f, 'args': args}
    if f == 'pow':
        b = rnd_text(rng, ['dec', 'int', 'unit-interval', 'tie', 'huge', 'tiny'])
        e = rnd_text(rng, ['dec', 'int', 'int', 'unit-interval', 'tie'])
        if float(F(b)) == 0:
            b = '0'
        return {'fn': f, 'args': [A(b), A(e)]}
    if f in ('asin', 'acos'):
        return {'fn': f, 'args': [A(rnd_text(rng, ['unit-interval', 'unit-interval', 'unit-interval', 'dec', 'tiny', 'zero']))]}
    if f == 'atan':
        return {'fn': f, 'args': [A(rnd_text(rng))]}
    if f in TRIG:
        if rng.random() < 0.08:
            return {'fn': f, 'args': [A(rnd_text(rng, ['dec', 'int']), rng.choice(NON_ANGLE_UNITS))]}
        u = rng.choice(ANGLES)
        t = rnd_text(rng, ['dec', 'dec', 'int', 'tie', 'zero', 'tiny', 'unit-interval'])
        x = conv(float(F(t)), u, 'rad') if u not in ('', 'rad') else float(F(t))
        if abs(x) > 1e4:
            t = '0.75'
            x = conv(0.75, u, 'rad') if u not in ('', 'rad') else 0.75
        if f == 'tan' and abs(math.cos(x)) < 1e-3:
            t = '0.3'
        return {'fn': f, 'args': [A(t, u)]}
    if f == 'div':
        a = rnd_text(rng)
        b = rnd_text(rng, ['dec', 'int', 'tie', 'huge', 'tiny', 'unit-interval', 'zero'])
        if F(b) == 0:
            b = '0'
        r = rng.random()
        if r < 0.3:
            us = ('', '')
        elif r < 0.5:
            us = (rng.choice(KEEP_UNITS), '')
        elif r < 0.7:
            u = rng.choice(KEEP_UNITS[1:])
            us = (u, u)
        else:
            g = rng.choice(FIXED)[1]
            us = (rng.choice(g), rng.choice(g))
        return {'fn': f, 'args': [A(a, us[0]), A(b, us[1])]}
    # min max clamp hypot atan2
    n = 3 if f == 'clamp' else 2 if f == 'atan2' else rng.randint(1, 5)
    r = rng.random()
    if r < 0.25:
        u = rng.choice(KEEP_UNITS)
        us = [u] * n
    elif r < 0.8:
        g = rng.choice(FIXED)[1]
        us = [rng.choice(g) for _ in range(n)]
    elif r < 0.9 and n > 1:
        g = rng.choice(FIXED)[1]
        us = [rng.choice(g) for _ in range(n)]
        bad = rng.choice([u for _, h in FIXED for u in h if u not in g] + ['em', '%', 'vw', 'foo'])
        us[rng.randrange(1, n)] = bad
    else:
        u = rng.choice([k for k in KEEP_UNITS[1:] if k not in ('%', 'fr')])
        us = [rng.choice([u, '']) for _ in range(n)]
    for _ in range(20):
        kinds = ['dec', 'dec', 'int', 'tie', 'zero', 'unit-interval'] + ([] if f == 'hypot' else ['huge', 'tiny']) + \
                ([] if f in ('atan2',) else ['special'] * (1 if rng.random() < 0.3 else 0))
        ts = [rnd_text(rng, kinds) for _ in range(n)]
        if rng.random() < 0.15 and n > 1:
            ts[1] = ts[0]                                    # a tie
        if 'nan' in ts and f in ('min', 'max', 'clamp'):
            continue                                          # ordering with NaN is not specified
        if f == 'hypot' and 'nan' in ts and any(t in ('inf', '-inf') for t in ts):
            continue
        if f == 'atan2':
            ts = [t if F(t) != 0 else '0' for t in ts]
            if F(ts[0]) == 0 and F(ts[1]) < 0:
                continue
        ref = next((u for u in us if u), '')
        if units_class(us) in ('same', 'fixed-ratio', 'unitless-mixed'):
            if not apart([conv(val(t), u, ref) for t, u in zip(ts, us)]):
                continue
        return {'fn': f, 'args': [A(t, u) for t, u in zip(ts, us)]}
    return {'fn': f, 'args': [A(str(i + 1), 'px') for i in range(n)]}


def worker(ctx):
    table = [c for i, c in enumerate(boundary_cases()) if i % ctx.nshards == ctx.shard]
    sampled = False
    for i in range(0, len(table), 100):
        check_cases(ctx, [with_scale(c) for c in table[i:i + 100]])
    ctx.stat('boundary_table_completed')
    while not ctx.expired():
        batch = [with_scale(random_case(ctx.rng)) for _ in range(100)]
        if not sampled:
            for c in batch[:2]:
                ctx.sample({'expr': render(c), 'expected': [str(x) for x in expect(c)]})
            sampled = True
        check_cases(ctx, batch)
