"""C22 - placeholder selectors never reach the output (visibility model over generated nests)."""
import random
import re

from .lib import css, selgen as sg, nestgen as ng

PROP = 'C22'
LEVEL = 'exploration'
BUDGET = {'quick': 30, 'thorough': 400}
FLOOR = {'quick': 1500, 'thorough': 20000}
RULE = ('generated nests of style rules, 1..3 levels, selector lists of 1..3 complex selectors over type / class / id / attribute / '
        'pseudo-class selectors, all combinators, placeholders `%p` `%q` (in about every fourth compound, also inside the arguments '
        'of :not/:is/:where/:matches/:has/:any, nested two deep, and compounds that are nothing but such a pseudo-class), nested '
        'rules in all the forms of C19 (`&` also inside pseudo-class arguments under a placeholder parent, so that `%p, .a { :not(&) '
        '{} }` occurs); no @extend.  Every rule carries numbered declarations.  Oracle: the selector list Sass resolves for the rule '
        '(model of C19) with every complex selector that contains a placeholder removed; inside :is-like arguments a member with a '
        'placeholder is removed and an empty argument makes the complex selector unmatchable (removed); inside :not a member with '
        'a placeholder is removed and a :not without members disappears (a compound left empty is `*`).  A rule with nothing left '
        'must not appear (none of its declarations may be emitted), otherwise the emitted selector must equal the model\'s '
        '(canonical comparison, order strict).  Safety check on every output: no `%name` in any selector.  Distinct non-trivial = '
        'distinct nest (by text) in which some rule\'s resolved selector contains a placeholder.')
LEVEL_TEXT = ('Reference-model monitor: visibility of every generated rule and of every member of its selector list is predicted by '
              'a model of the Sass rules for placeholders and compared with the emitted CSS; plus a model-free safety check.')
LEVEL_NOTE = ('Trusted: the nesting model shared with C19, the canonical-form parser, the CSS scanner.  Not covered: @extend (which '
              'is what makes placeholders useful) - the statement is about removal only.')
TECHNIQUE = 'runtime monitoring: generated placeholder-bearing nests judged by a visibility model, plus a safety scan of the output'
ASSUMPTIONS = ['C19 (the resolved selector of a nested rule) - the generator stays away from the two listed C19 defects']

EMPTY = 'compound-of-only-not(placeholder)-not-emitted-as-universal'


def gen_case(rng):
    g = ng.NG(rng, p_ph=rng.choice([0.15, 0.25, 0.4]), p_ps=0.3, p_dup=0.0, ph_inside=True, max_ps_depth=2,
              p_sfx_reordered=0.0, ps_amp_with_ph=True, p_lone_ps=0.04)
    trees, serial = [], 1
    for _ in range(rng.choice([4, 5, 6])):
        t, serial = ng.gen_tree(g, serial, depth=rng.choice([1, 2, 2, 3, 3]), cap=30)
        trees.append(t)
    return {'trees': trees, 'fmt': rng.randrange(1 << 30)}


def source(case):
    frng = random.Random(case['fmt'])
    return '\n'.join(ng.render_rule(t, frng) for t in case['trees']) + '\n'


# ------------------------------------------------------------------ oracle-side description of where the placeholders are

def ph_positions(lst, inside=()):
    """set of strings: for every placeholder of the list the pseudo-classes around it (`top`, `in-not`, `in-is-like`, nested `a>b`)"""
    out = set()
    for cx in lst:
        for comp in ng.compounds(cx):
            for s in comp:
                if s[0] == 'ph':
                    out.add('>'.join(inside) if inside else 'top')
                elif s[0] == 'ps':
                    out |= ph_positions(s[2], inside + ('in-not' if s[1] == 'not' else 'in-is-like',))
    return out


def diff_class(exp, obs):
    if obs is None:
        return 'not-a-selector'
    if len(exp) != len(obs):
        return 'more-selectors' if len(obs) > len(exp) else 'fewer-selectors'
    if sorted(map(repr, exp)) == sorted(map(repr, obs)):
        return 'order'
    return 'text'


def judge_tree(tree, decls):
    problems = []
    bad = []
    for path, rule, resolved in ng.walk(tree):
        if any(path[:len(b)] == b for b in bad):
            continue
        pos = ph_positions(resolved)
        where = '+'.join(sorted(pos)) or 'no-placeholder'
        vis = ng.visible_list(resolved)
        text = ng.r_list(vis) if vis else None
        canon = sg.canon(text) if text else None
        serials = [it[1] for it in rule['items'] if it[0] == 'd']
        info = {'rule': ng.r_list(rule['sel']), 'resolved': ng.r_list(resolved), 'expected': text}
        for s in serials:
            got = decls.get(s, [])
            sig = None
            if canon is None:
                if got:
                    sig = 'rule-without-visible-selector-emitted:' + where
                    info = dict(info, observed=got[0][2], decl=s)
            elif not got:
                if ng.has_empty_star(vis):
                    sig = EMPTY + ':rule-missing'
                else:
                    sig = 'visible-rule-missing:' + where
                info = dict(info, decl=s)
            elif len(got) > 1:
                sig = 'declaration-emitted-twice:' + where
                info = dict(info, decl=s, observed=[g[2] for g in got])
            else:
                oc, raw = got[0][1], got[0][2]
                if oc != canon:
                    info = dict(info, observed=raw, decl=s)
                    full = sg.canon_or_none(ng.r_list(resolved))
                    if ng.has_empty_star(vis):
                        sig = EMPTY + ':' + ('not-a-selector' if oc is None else 'other-selector')
                    elif oc is not None and oc == full:
                        sig = 'placeholder-selector-not-removed:' + where
                    else:
                        sig = 'visible-selectors-mismatch:%s|%s' % (where, diff_class(canon, oc))
            if sig:
                problems.append((sig, info))
                bad.append(path)
                break
    return problems


def judge(ctx, case, r, record=True):
    st = r.get('status')
    trees = case['trees']
    if st not in ('ok', 'err', 'panic'):
        ctx.undecided('driver-' + str(st))
        return 0
    found = []
    if st != 'ok':
        msg = (r.get('err') or r.get('panic') or '').split('\n')[0][:80]
        if len(trees) > 1:
            found.append(('whole', {'message': msg}, None))
        else:
            # which rule?  the shallowest, first chain of rules that fails alone
            tree = trees[0]
            paths = [(p, rl, res) for p, rl, res in ng.walk(tree)]
            res = ctx.batch([{'src': ng.render_rule(ng.chain_to(tree, p)) + '\n'} for p, _, _ in paths])
            ctx.ran(len(paths))
            badp = [(len(p[0]), i) for i, (p, rr) in enumerate(zip(paths, res)) if rr.get('status') in ('err', 'panic')]
            if badp:
                _, i = min(badp)
                p, rl, resolved = paths[i]
                where = '+'.join(sorted(ph_positions(resolved))) or 'no-placeholder'
                found.append(('unexpected-%s:%s' % ('error' if st == 'err' else 'panic', where),
                              {'message': msg, 'chain': ng.render_rule(ng.chain_to(tree, p))}, 0))
            else:
                found.append(('unexpected-%s:unlocalized' % ('error' if st == 'err' else 'panic'), {'message': msg}, 0))
    else:
        decls, problems = ng.read_output(r.get('out', ''))
        for sig, d in problems:
            found.append((sig, {'output': d}, None))
        for raw in set(g[2] for gs in decls.values() for g in gs):
            if ng.unhidden_placeholder(raw):
                found.append(('placeholder-in-output', {'selector': raw}, None))
        for k, t in enumerate(trees):
            for sig, d in judge_tree(t, decls):
                found.append((sig, d, k))
    if not found or not record:
        return len(found)
    if len(trees) == 1:
        for sig, d, _ in found:
            ctx.violation(sig, case, d)
        return len(found)
    ks = sorted(set(k for _, _, k in found if k is not None))
    if not ks or any(k is None for _, _, k in found):
        ks = list(range(len(trees)))
    reproduced = 0
    for k in ks:
        reproduced += check_case(ctx, {'trees': [trees[k]], 'fmt': case['fmt']})
    if not reproduced:
        for sig, d, _ in found:
            ctx.violation(('unexpected-error' if sig == 'whole' else sig) + '|only-in-context', case, d)
    return len(found)


def check_case(ctx, case):
    if 'other' in case:
        return check_other(ctx, case)
    r = ctx.compile(src=source(case))
    ctx.ran(1)
    return judge(ctx, case, r, True)


def note(ctx, case):
    for t in case['trees']:
        nontrivial = False
        for path, rule, resolved in ng.walk(t):
            pos = ph_positions(resolved)
            for p in pos:
                ctx.seen('placeholder-position', p)
            vis = ng.visible_list(resolved)
            if pos:
                nontrivial = True
                ctx.seen('level-with-placeholder', len(path) + 1)
                ctx.seen('outcome', 'rule-invisible' if not vis else ('all-kept' if len(vis) == len(resolved) else 'some-removed'))
                if vis and ng.r_list(vis) != ng.r_list([c for c in resolved if ng.visible_complex(c) is not None]):
                    ctx.seen('outcome', 'argument-member-removed')
                if vis and ng.has_empty_star(vis):
                    ctx.seen('outcome', 'compound-left-empty')
            for f in rule.get('forms', []):
                ctx.seen('form', f)
            for cx in resolved:
                for comp in ng.compounds(cx):
                    for s in comp:
                        if s[0] == 'ps' and ng.simple_has_kind(s, 'ph'):
                            ctx.seen('placeholder-inside', ':' + s[1])
        if nontrivial:
            ctx.nontrivial(ng.render_rule(t))



# ---- placeholders in the argument of every selector-taking pseudo (not only :is/:where/:matches/:any/:not)
OTHER_PSEUDOS = ['::slotted(%s)', '::cue(%s)', ':current(%s)', ':host(%s)', ':host-context(%s)', ':-webkit-any(%s)', ':-moz-any(%s)', ':has(%s)',
                 ':nth-child(2n+1 of %s)', ':nth-last-child(odd of %s)', ':is(%s)', ':where(%s)']
PH_TOKEN = re.compile(r'%[A-Za-z_][\w-]*')


def gen_other(rng):
    rules = []
    for i in range(rng.randint(2, 6)):
        members = []
        n = rng.randint(1, 3)
        allph = rng.random() < 0.35
        for _ in range(n):
            members.append('%%ph%d' % rng.randint(0, 5) if allph or rng.random() < 0.5 else rng.choice(['.k%d' % rng.randint(0, 5), 'q', '.a .b', '#i']))
        ps = rng.choice(OTHER_PSEUDOS) % ', '.join(members)
        alt = False
        if rng.random() < 0.25 and not ps.startswith('::'):
            w = rng.choice([':is(%s, .w)', ':is(x%s)'])
            alt = '.w' in w                 # another member of the outer :is() keeps the rule alive
            ps = w % ps
        head = rng.choice(['a', '.c', 'a.c', '']) + ps
        if head.startswith('::'):
            head = 'e' + head
        if rng.random() < 0.3:
            head = '.o > ' + head
        has_ph = any(m.startswith('%') for m in members)
        rules.append({'sel': head, 'n': i, 'all_ph': all(m.startswith('%') for m in members) and not alt, 'has_ph': has_ph})
    return {'other': rules}


def check_other(ctx, case):
    rules = case['other']
    src = '\n'.join('%s { o%d: %d; }' % (r['sel'], r['n'], r['n']) for r in rules)
    res = ctx.compile(src=src)
    ctx.ran(1)
    if res.get('status') != 'ok':
        ctx.undecided('other-pseudo-stylesheet-' + str(res.get('status')), (res.get('err') or '')[:100].replace('\n', ' | '))
        return
    if any(r['has_ph'] for r in rules):
        ctx.nontrivial(src)
    out = res.get('out', '')
    try:
        tree = css.parse(out)
    except Exception:
        ctx.undecided('output-not-parsed')
        return
    for path, node in css.walk(tree):
        sel = node.get('prelude') if node.get('t') == 'rule' else ''
        if isinstance(sel, str) and PH_TOKEN.search(re.sub(r'"[^"]*"|\'[^\']*\'', '', sel)):
            ctx.violation('placeholder-printed|inside-a-selector-pseudo-argument', case, {'selector': sel[:200], 'src': src, 'out': out[:600]})
            return
    for r in rules:
        ctx.seen('other_pseudos', re.sub(r'\(.*', '', r['sel'].split('>')[-1].strip().lstrip('aec.'))[:20])
        present = ('o%d:' % r['n']) in out
        if r['all_ph'] and present:
            ctx.violation('rule-kept-although-every-argument-member-is-a-placeholder', case, {'rule': r['sel'], 'out': out[:600]})
            return
        if not r['has_ph'] and not present:
            ctx.violation('rule-without-placeholder-not-emitted', case, {'rule': r['sel'], 'out': out[:600]})
            return


def worker(ctx):
    n = 0
    while not ctx.expired():
        for _ in range(6):
            check_other(ctx, gen_other(ctx.rng))
        cases = [gen_case(ctx.rng) for _ in range(12)]
        res = ctx.batch([{'src': source(c)} for c in cases])
        ctx.ran(len(cases))
        for c, r in zip(cases, res):
            note(ctx, c)
            judge(ctx, c, r, True)
            ctx.stat('stylesheets-' + str(r.get('status')))
            if r.get('status') == 'ok' and n < 2 and ctx.shard == 0:
                ctx.sample({'src': source(c), 'out': r.get('out', '')[:1500]})
                n += 1
