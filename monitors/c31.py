"""C31 - colour channels stay in range and conversions round-trip (reference-model + relational monitor)."""
from .lib import ev, colors, colors2 as c2

PROP = 'C31'
LEVEL = 'exploration'
BUDGET = {'quick': 30, 'thorough': 400}
FLOOR = {'quick': 3000, 'thorough': 40000}
RULE = ('constructor calls: hex literals of 3/4/6/8 digits (random, boundary and mixed case), all 148 CSS colour names '
        '(independent CSS Color 4 table; every name is checked in every run, in three spellings), rgb()/rgba() in '
        'comma, space and slash syntax with integer, fractional, percentage and out-of-range channels and alpha, '
        'rgba($color, $alpha), hsl()/hsla() with hue in deg/turn/grad/unitless far outside [0,360) and s/l inside and '
        'outside 0..100%, hwb()/color.hwb() incl. w+b >= 100% and negative w/b.  For every colour the nine channel '
        'functions are read back (precision 12) and judged: ranges; values against exact rational reference conversions '
        '(tolerance 1e-6; red/green/blue may be the exact or the rounded channel); the colour rebuilt from its own '
        'rgb, hsl and hwb channels must be == to it; another notation of the same rgba colour (built by the oracle) must '
        'be == to it; a colour that differs by >= 1 in a channel must not be.  Distinct by constructor text; '
        'non-trivial = every constructor call whose channel functions evaluated.')
LEVEL_TEXT = ('Reference-model monitor over generated constructor inputs plus relational laws evaluated by the real ==; '
              'the named colours are covered exhaustively, the numeric constructors by seeded sampling with boundary values.')
LEVEL_NOTE = ('Trusted: the CSS Color 4 name table and the HSL/HWB formulas in monitors/lib/colors.py, exact Fraction '
              'arithmetic on the generated decimal literals, the parsing of printed numbers.  For hsl()/hwb() inputs '
              'outside the legacy ranges both the clamping (dart-sass < 1.79) and the preserving (>= 1.79) reading are admitted.')
TECHNIQUE = 'runtime monitoring: generated constructor inputs judged by exact reference conversions and by rebuild/equality relations'
ASSUMPTIONS = ['red/green/blue of a colour with fractional channels may be reported exactly or rounded to an integer',
               'hue and saturation values of achromatic colours are not compared (only their range)',
               'out-of-range saturation/lightness/whiteness/blackness inputs: channel functions may report the clamped or the given value']

TOL = 1e-6
FUNCS = ['red', 'green', 'blue', 'hue', 'saturation', 'lightness', 'whiteness', 'blackness', 'alpha']
UNIT = {'red': '', 'green': '', 'blue': '', 'hue': 'deg', 'saturation': '%', 'lightness': '%', 'whiteness': '%',
        'blackness': '%', 'alpha': ''}
NEXPR = 14


def exprs_for(case):
    e = case['expr']
    ch = {f: 'color.%s(%s)' % (f, e) for f in FUNCS}
    out = [ch[f] for f in FUNCS]
    out.append('rgba(%s, %s, %s, %s) == %s' % (ch['red'], ch['green'], ch['blue'], ch['alpha'], e))
    out.append('hsla(%s, %s, %s, %s) == %s' % (ch['hue'], ch['saturation'], ch['lightness'], ch['alpha'], e))
    out.append('color.hwb(%s, %s, %s, %s) == %s' % (ch['hue'], ch['whiteness'], ch['blackness'], ch['alpha'], e))
    out.append('%s == %s' % (case['alt'], e) if case.get('alt') else 'true')
    out.append('%s == %s' % (case['other'], e) if case.get('other') else 'false')
    assert len(out) == NEXPR
    return out


def near(a, b, tol=TOL):
    return abs(a - b) <= tol


def hue_near(a, b):
    d = abs(a - b) % 360
    return min(d, 360 - d) <= TOL


FAMILY = {'hex3': 'rgb', 'hex4': 'rgb', 'hex6': 'rgb', 'hex8': 'rgb', 'name': 'rgb', 'rgb': 'rgb', 'hsl': 'hsl', 'hwb': 'hwb'}
ALT_FAMILY = {'hex6': 'rgb', 'hex3': 'rgb', 'name': 'rgb', 'rgb-int': 'rgb', 'rgba-int': 'rgb', 'hex8': 'rgb',
              'rgba-int-alpha-div255': 'rgb', 'rgba-decimal': 'rgb', 'rgb-slash-percent-alpha': 'rgb',
              'rgba-percent-channels': 'rgb', 'hsl-hue-plus-turns': 'hsl', 'hsl-space-syntax': 'hsl',
              'hsl-hue-in-turns': 'hsl', 'rgb-of-hsl': 'rgb', 'hwb-of-hsl': 'hwb', 'hwb-hue-plus-turns': 'hwb',
              'hwb-space-syntax': 'hwb', 'rgb-of-hwb': 'rgb', 'hsl-of-hwb': 'hsl'}


GROUP = {'red': 'rgb-channels', 'green': 'rgb-channels', 'blue': 'rgb-channels', 'alpha': 'alpha', 'hue': 'hsl-channels',
         'saturation': 'hsl-channels', 'lightness': 'hsl-channels', 'whiteness': 'hwb-channels', 'blackness': 'hwb-channels'}


def max_class(R):
    """Which of the reference channels are maximal: 'all' for greys, else e.g. 'red+green'."""
    mx = max(R.values())
    top = [f for f in ('red', 'green', 'blue') if mx - R[f] < 1e-9]
    return 'all' if len(top) == 3 else '+'.join(top)


def judge(ctx, case, res):
    """res: the NEXPR results for this case.  Signatures are built from the oracle side only: the notation family the
    colour was written in (rgb = hex, name, rgb()), which reference channels are maximal, whether the reference rgb
    channels are integers, whether the hue literal is a negative multiple of 360, and which checks failed."""
    e = case['expr']
    origin, gamut = case['origin'], case['gamut']
    fam = FAMILY[origin]
    cls = 'in-gamut' if gamut else 'out-of-gamut-input'
    ctx.seen('origin', origin)
    ctx.seen('form', case.get('form', ''))
    for k in case.get('kinds', []):
        ctx.seen('input-kinds', k)
    obs = {}
    for f, r in zip(FUNCS, res[:9]):
        if r[0] == 'err':
            # every generated constructor call and every channel function of a legacy colour is valid Sass
            ctx.violation('channel-function-error|%s|written-as=%s|%s' % (f, fam, cls), case, {'expr': 'color.%s(%s)' % (f, e), 'error': r[1][-300:]})
            return
        if r[0] != 'ok':
            ctx.undecided('harness:' + str(r[1]))
            return
        pn = c2.parse_num(r[1])
        if pn is None and r[1] in ('calc(infinity * 1%)', 'calc(-infinity * 1%)', 'calc(NaN * 1%)', 'calc(infinity * 1deg)', 'calc(NaN * 1deg)',
                                   'calc(infinity)', 'calc(NaN)', 'calc(-infinity)'):
            # a non-finite channel: outside every range, whatever else is true of the colour
            ctx.nontrivial(e)
            ctx.violation('range|%s|not-finite|written-as=%s|%s' % (f, fam, cls), case, {'expr': 'color.%s(%s)' % (f, e), 'observed': r[1]})
            return
        if pn is None or pn[1] != UNIT[f]:
            ctx.violation('channel-function-result-not-a-number-with-unit|%s|written-as=%s' % (f, fam), case, {'expr': 'color.%s(%s)' % (f, e), 'observed': r[1][:120]})
            return
        obs[f] = pn[0]
    ctx.nontrivial(e)
    detail = {'observed': obs, 'reference': {k: case[k] for k in 'rgba'}}
    R = {'red': case['r'], 'green': case['g'], 'blue': case['b']}
    h, s, l, w, k = c2.derived(case['r'], case['g'], case['b'])
    mc = max_class(R)
    achromatic = mc == 'all'
    given = case.get('given', {})
    hraw = given.get('hraw')
    huecls = '|hue-literal=negative-multiple-of-360' if hraw is not None and hraw < 0 and hraw % 360 == 0 else ''
    tie = 'max-tie=' + mc if '+' in mc else 'max=' + ('unique' if mc != 'all' else 'all')
    neg360 = bool(huecls)
    ctx.seen('class', '%s/%s/max=%s' % (origin, cls, mc))
    if huecls:
        ctx.stat('hue_literal_negative_multiple_of_360')

    # ---- ranges
    def rng_check(f, lo, hi, half_open=False):
        v = obs[f]
        if v < lo - 1e-9:
            ctx.violation('range|%s|below|written-as=%s|%s' % (f, fam, cls), case, detail)
        elif half_open and near(v, hi, 1e-9):
            if neg360:
                ctx.violation('hue-literal=negative-multiple-of-360|hue-reported-as-360', case, detail)
            else:
                ctx.violation('range|%s|equals-upper-bound|written-as=%s|%s' % (f, fam, cls), case, detail)
        elif v > hi + 1e-9:
            ctx.violation('range|%s|above|written-as=%s|%s' % (f, fam, cls), case, detail)

    for f in ('red', 'green', 'blue'):
        rng_check(f, 0, 255)
    rng_check('alpha', 0, 1)
    rng_check('hue', 0, 360, half_open=True)
    for f, gk in (('saturation', 's'), ('lightness', 'l'), ('whiteness', 'w'), ('blackness', 'k')):
        if not gamut:
            # dart-sass >= 1.79 keeps out-of-range hsl channels; a colour built from them is outside the rgb gamut and
            # its derived channels are then outside their ranges too.  For hsl() only an in-range or the as-given value
            # is admitted for the channels that were written; derived channels, and every channel of an hwb() call with
            # a negative argument (where even the normalisation of w+b is debatable), are not judged.
            if gk in given and fam == 'hsl':
                if not (-1e-9 <= obs[f] <= 100 + 1e-9 or near(obs[f], given[gk] * 100, 1e-4)):
                    ctx.violation('range|%s|neither-clamped-nor-as-given|written-as=%s' % (f, fam), case, detail)
            elif fam == 'hsl' and gk in ('w', 'k'):
                # whiteness and blackness of an hsl() colour are derived, never written: the stated range applies
                rng_check(f, 0, 100)
            continue
        rng_check(f, 0, 100)

    # ---- values
    bad = []
    for f in ('red', 'green', 'blue'):
        ref = R[f]
        if near(obs[f], ref):
            ctx.seen('rgb-channel-report', 'exact-fraction' if abs(ref - round(ref)) > 1e-6 else 'integer')
        elif abs(obs[f] - round(obs[f])) < 1e-9 and abs(obs[f] - ref) <= 0.5 + 1e-6:
            ctx.seen('rgb-channel-report', 'rounded-fraction')
        elif gamut:
            bad.append(f)
    if not near(obs['alpha'], case['a']):
        bad.append('alpha')
    if gamut:
        if not near(obs['lightness'], l * 100, 1e-4):
            bad.append('lightness')
        adm_w = [w * 100] + ([given['w'] * 100] if 'w' in given else [])
        adm_k = [k * 100] + ([given['k'] * 100] if 'k' in given else [])
        if not any(near(obs['whiteness'], x, 1e-4) for x in adm_w):
            bad.append('whiteness')
        if not any(near(obs['blackness'], x, 1e-4) for x in adm_k):
            bad.append('blackness')
        if not achromatic:
            adm_s = [s * 100] + ([given['s'] * 100] if 's' in given else [])
            # conditioning: s = d / (1 - |2l-1|): absolute error grows when the colour is nearly black or white
            span = 1 - abs(2 * l - 1)
            tol_s = max(1e-4, 1e-9 / max(span, 1e-12))
            if not any(near(obs['saturation'], x, tol_s) for x in adm_s):
                bad.append('saturation')
            d = (max(R.values()) - min(R.values())) / 255
            tol_h = max(1e-6, 1e-10 / d)
            adm_h = [h] + ([given['h']] if 'h' in given else [])
            dd = min(min(abs(obs['hue'] - x) % 360, 360 - abs(obs['hue'] - x) % 360) for x in adm_h)
            if dd > tol_h:
                bad.append('hue')
            ctx.stat('hue_saturation_values_checked')
        else:
            ctx.stat('achromatic_hue_saturation_not_compared')
    elif 'h' in given and fam == 'hsl':
        if not hue_near(obs['hue'], given['h']):
            bad.append('hue')
    if bad:
        groups = sorted({GROUP[f] for f in bad})
        detail['wrong'] = sorted(bad)
        ctx.violation('channel-values-wrong|%s|%s|%s' % ('+'.join(groups), tie, cls), case, detail)
    else:
        ctx.stat('channel_values_agree')

    # ---- rebuild and equality relations (in-gamut colours)
    def tf(r):
        return {'true': True, 'false': False}.get(r[1]) if r[0] == 'ok' else None

    frac = 'integer-rgb' if all(abs(v - round(v)) < 1e-6 for v in R.values()) else 'fractional-rgb'
    if gamut:
        for name, r in (('rgb', res[9]), ('hsl', res[10]), ('hwb', res[11])):
            v = tf(r)
            if v is None:
                if r[0] == 'err':
                    ctx.violation('rebuild-%s|error|written-as=%s' % (name, fam), case, {'error': r[1][-300:], **detail})
                else:
                    ctx.undecided('rebuild-unparsed')
                continue
            ctx.stat('rebuild_checked')
            ctx.seen('rebuild', '%s-from-%s:%s' % (name, fam, 'equal' if v else 'NOT-equal'))
            if not v:
                # Oracle-side classes: a rebuild through rgb depends on whether the channels are integers; one through
                # hsl/hwb on the notation family the colour was written in and - for colours written as rgb, whose hsl
                # channels come from the max/min formula - on which channels tie for the maximum.
                if name == 'rgb':
                    ctx.violation('rebuild-rgb|not-equal|%s' % frac, case, detail)
                elif neg360:
                    ctx.violation('hue-literal=negative-multiple-of-360|rebuild-not-equal', case, detail)
                else:
                    ctx.violation('rebuild-%s|not-equal|written-as=%s|%s' % (name, fam, tie if fam == 'rgb' else 'general'), case, detail)
    if case.get('alt'):
        v = tf(res[12])
        pair = '%s~%s' % (fam, ALT_FAMILY[case['alt_kind']])
        noise = case.get('alt_noise') or ''
        if v is None:
            if res[12][0] == 'err':
                ctx.violation('same-rgba|error|%s|%s' % (pair, case['alt_kind']), case, {'error': res[12][1][-300:]})
        else:
            ctx.stat('same_rgba_checked')
            ctx.seen('same-rgba-pairs', '%s~%s%s' % (origin, case['alt_kind'], ':' + noise if noise else ''))
            if not v and neg360:
                ctx.violation('hue-literal=negative-multiple-of-360|same-rgba-not-equal', case, detail)
            elif not v:
                ctx.violation('same-rgba|not-equal|%s%s' % (pair, '|' + noise if noise else ''), case, detail)
    if case.get('other'):
        v = tf(res[13])
        if v is not None:
            ctx.stat('different_rgba_checked')
            if v:
                ctx.violation('different-rgba|equal|written-as=%s' % fam, case, {'other': case['other'], **detail})


def make_case(rng, m):
    case = c2.public(m)
    alt = c2.alt_notation(rng, m)
    if alt:
        case['alt'], case['alt_kind'], case['alt_noise'] = alt
    # a colour that differs by at least 1 in one rgb channel (or 0.1 in alpha)
    r, g, b, a = case['r'], case['g'], case['b'], case['a']
    i = rng.randrange(4)
    ch = [r, g, b]
    if i < 3:
        ch[i] = ch[i] + rng.choice([1, 2, 30]) if ch[i] < 200 else ch[i] - rng.choice([1, 2, 30])
    else:
        a = a + 0.1 if a < 0.85 else a - 0.1
    case['other'] = 'rgba(%s, %s, %s, %s)' % (c2.fdec(ch[0], 10), c2.fdec(ch[1], 10), c2.fdec(ch[2], 10), c2.fdec(a, 10))
    return case


def check_cases(ctx, cases):
    exprs = []
    for c in cases:
        exprs += exprs_for(c)
    res = ev.evaluate_many(ctx, exprs, precision=12, chunk=NEXPR)
    for i, c in enumerate(cases):
        ctx.ran(NEXPR)
        judge(ctx, c, res[NEXPR * i:NEXPR * (i + 1)])


def check_case(ctx, case):
    check_cases(ctx, [case])


def worker(ctx):
    rng = ctx.rng
    # exhaustive part: every colour name, in three spellings, shared out over the workers
    named = []
    for n in c2.NAMES:
        v = colors.NAMED[n]
        for txt in (n, n.upper(), n.capitalize()):
            m = c2._finish('name', txt, v >> 16, (v >> 8) & 255, v & 255, 1, form='name' if txt == n else 'name-cased')
            named.append(m)
    named.append(c2._finish('name', 'transparent', 0, 0, 0, 0, form='transparent'))
    mine = [make_case(rng, m) for i, m in enumerate(named) if i % ctx.nshards == ctx.shard]
    for i in range(0, len(mine), 20):
        check_cases(ctx, mine[i:i + 20])
    ctx.stat('names_completed')
    for c in mine:
        if c['form'] == 'name':
            ctx.seen('names', c['expr'])
    first = True
    while not ctx.expired():
        cases = [make_case(rng, c2.gen_color(rng)) for _ in range(20)]
        check_cases(ctx, cases)
        if first:
            ctx.sample({k: cases[0][k] for k in ('origin', 'expr', 'r', 'g', 'b', 'a')})
            first = False
