"""C13 - map keys follow `==`; map equality ignores order (reference-model monitor over key classes)."""
import re
from .lib import ev

PROP = 'C13'
LEVEL = 'exploration'
BUDGET = {'quick': 30, 'thorough': 400}
FLOOR = {'quick': 2000, 'thorough': 40000}
RULE = ('random programs of 3-8 map statements (literal, map.set, map.remove with 1-3 keys, map.merge of two earlier maps) over '
        'maps of at most 8 entries.  Keys are drawn from key classes: sets of expression texts that are `==` by construction '
        '(1in|96px|2.54cm, "a"|a|unquote("a"), red|#f00|rgb(255,0,0), 7|7.0|(3 + 4), (1 2)|join(1, 2), ...), classes are pairwise '
        'unequal by the language definition (7 vs "7", red vs "red", (1 2) vs (1, 2) vs [1 2], "a" vs "A"); values are unique '
        'integers.  Every map variable is read back through the real code: map.values (entry order), list.length(map.keys), '
        'map.get and map.has-key with every representative of every class of the program.  Oracle: a Python ordered dict over '
        'class names applied to the *observed* state of each statement\'s inputs (so one fault gives one report): set/remove/merge/'
        'literal content, merge order (m1\'s order, then m2\'s new keys), lookups independent of the representative, '
        'map == map and map == literal (permuted, other representatives, one value/key changed) equal exactly when the '
        'observed contents are equal; literals with two keys of one class must be errors.  Distinct by statement content; '
        'non-trivial = a statement whose key meets a stored key written differently or misses, an equality with permuted or '
        're-written entries, a duplicate-key literal.')
LEVEL_TEXT = ('Reference-model monitor: the model is an ordered dict over key-class names and never evaluates `==` itself; '
              'which texts are equal is fixed by construction of the class table from the Sass definition of equality.')
LEVEL_NOTE = ('Trusted: the class table (members of a class are == in Sass, members of different classes are not), meta.inspect of '
              'integers/null/booleans, map.values as the witness of entry order.  Order after map.set/map.remove and in literals is '
              'recorded but not demanded (the statement fixes order only for map.merge).')
TECHNIQUE = 'runtime monitoring: random map programs against an ordered-dict model over key classes, plus equality under permutation'
ASSUMPTIONS = ['key order is observed through map.values (values are unique integers), never by parsing printed keys']

# kind, members.  Members of one class are == by the Sass definition; different classes are never ==.
CLASSES = {
    'len-1in': ('number-unit', ['1in', '96px', '2.54cm', '25.4mm', '72pt', '6pc']),
    'len-2in': ('number-unit', ['2in', '192px', '5.08cm', '144pt']),
    'len-3px': ('number-unit', ['3px', '0.03125in', '1px + 2px']),
    'angle-full': ('number-unit', ['360deg', '1turn', '400grad']),
    'angle-quarter': ('number-unit', ['90deg', '0.25turn', '100grad']),
    'time-1s': ('number-unit', ['1s', '1000ms']),
    'time-half': ('number-unit', ['0.5s', '500ms']),
    'freq': ('number-unit', ['1kHz', '1000Hz']),
    'res': ('number-unit', ['96dpi', '1dppx']),
    'pct-50': ('number-unit', ['50%', '50.0%', 'math.percentage(0.5)']),
    'num-7': ('number', ['7', '7.0', '7.00', '3 + 4', '14 * 0.5', 'math.div(14, 2)']),
    'num-8': ('number', ['8', '8.0', '4 * 2']),
    'num-0.3': ('number-fuzzy', ['0.3', '0.1 + 0.2', 'math.div(3, 10)', '.3']),
    'num-neg5': ('number', ['-5', '-5.0', '0 - 5']),
    'str-a': ('string', ['"a"', "'a'", 'a', 'unquote("a")', 'quote(a)', '"#{a}"']),
    'str-bc': ('string', ['"b c"', "'b c'", 'unquote("b c")', '"b" + " c"', '"b #{c}"']),
    'str-7': ('string', ['"7"', 'unquote("7")', "'7'", '"#{7}"']),
    'str-red': ('string', ['"red"', 'unquote("red")', "'red'"]),
    'str-true': ('string', ['"true"', 'unquote("true")']),
    'str-empty': ('string', ['""', "''", 'unquote("")']),
    'str-A': ('string', ['"A"', 'A', 'to-upper-case(a)']),
    'color-red': ('color', ['red', '#f00', '#ff0000', 'rgb(255, 0, 0)', 'hsl(0, 100%, 50%)', '#FF0000', 'rgba(255, 0, 0, 1)']),
    'color-blue': ('color', ['blue', '#00f', '#0000ff', 'rgb(0, 0, 255)']),
    'color-semi': ('color', ['rgba(255, 0, 0, 0.5)', 'rgba(red, 0.5)', 'rgba(#f00, 0.5)']),
    'bool-true': ('bool', ['true', 'not false', '1 == 1']),
    'bool-false': ('bool', ['false', 'not true', '1 == 2']),
    'null': ('null', ['null', 'map.get((q: 1), z)']),
    'list-sp-12': ('list', ['(1 2)', 'join(1, 2)', 'append(1, 2)', '(1.0 2)']),
    'list-cm-12': ('list', ['(1, 2)', 'join(1, 2, comma)', 'append((1,), 2)', 'append(1, 2, comma)']),
    'list-br-12': ('list', ['[1 2]', 'append([1], 2)', 'join([1], 2)']),
    'list-ab': ('list', ['(a b)', '("a" b)', 'join(a, "b")']),
    'map-x1': ('map', ['(x: 1)', '("x": 1)', 'map.merge((), (x: 1))', '(x: 1.0)']),
}
NAMES = list(CLASSES)
# classes that would be confused by an implementation comparing printed text, units stripped, or case-insensitively
RELATED = [['num-7', 'str-7'], ['color-red', 'str-red'], ['bool-true', 'str-true'], ['str-a', 'str-A'], ['list-sp-12', 'list-cm-12', 'list-br-12'],
           ['len-1in', 'len-2in', 'len-3px'], ['color-red', 'color-semi'], ['null', 'str-empty', 'bool-false'], ['num-7', 'num-8'],
           ['time-1s', 'time-half'], ['str-a', 'list-ab'], ['angle-full', 'angle-quarter']]
# texts that need no parentheses as a key: single tokens, plain quoted strings, one function call.  (Parentheses around a null-valued
# expression are a separate, listed rsass defect - '(null)' stays a Paren value, see C14 - and are not this property's subject.)
_SIMPLE = re.compile(r'^[A-Za-z0-9.#%-]+$|^"[^"#]*"$|^\'[^\'#]*\'$|^[A-Za-z][\w.-]*\([^+*=]*\)$|^\[[^\]]*\]$')


def kx(rep):
    """A key written as one argument / one literal key."""
    return rep if _SIMPLE.match(rep) else '(%s)' % rep


def kind(cls):
    return CLASSES[cls][0]


# ------------------------------------------------------------------ generation

def gen_program(rng):
    n_cls = rng.randint(4, 9)
    uni = []
    for g in rng.sample(RELATED, 2):
        for c in g:
            if c not in uni:
                uni.append(c)
    while len(uni) < n_cls:
        c = rng.choice(NAMES)
        if c not in uni:
            uni.append(c)
    val = [0]

    def fresh():
        val[0] += 1
        return val[0]

    def rep(c):
        return rng.choice(CLASSES[c][1])

    stmts, models = [], []     # models: list of list of (cls, stored rep, value)  (propagated, dart-sass order; only guides generation)

    def pick_key(m):
        present = [e[0] for e in m]
        if present and rng.random() < 0.65:
            c = rng.choice(present)
            stored = [e[1] for e in m if e[0] == c][0]
            if rng.random() < 0.25:
                return c, stored
            return c, rep(c)
        c = rng.choice(uni)
        return c, rep(c)

    def m_set(m, c, r, v):
        out, hit = [], False
        for e in m:
            if e[0] == c:
                out.append((c, e[1], v)); hit = True
            else:
                out.append(e)
        if not hit:
            out.append((c, r, v))
        return out

    n = rng.randint(3, 8)
    while len(stmts) < n:
        i = len(stmts)
        r = rng.random()
        if i == 0 or r < 0.25 or (i == 1 and r < 0.6):
            k = rng.choice([0, 1, 2, 3, 3, 4, 4, 5, 6, 8]) if i else rng.choice([2, 3, 4, 5, 6])
            cs = rng.sample(uni, min(k, len(uni)))
            ent = [[c, rep(c), fresh()] for c in cs]
            stmts.append({'op': 'lit', 'entries': ent})
            models.append([tuple(e) for e in ent])
            continue
        src = rng.randrange(i) if rng.random() < 0.5 else i - 1
        m = models[src]
        if r < 0.5:
            c, rp = pick_key(m)
            if len(m) >= 8 and c not in [e[0] for e in m]:
                c, rp = m[0][0], rep(m[0][0])
            v = fresh()
            stmts.append({'op': 'set', 'm': src, 'key': [c, rp], 'val': v})
            models.append(m_set(m, c, rp, v))
        elif r < 0.72:
            keys = [list(pick_key(m)) for _ in range(rng.choice([1, 1, 1, 2, 3]))]
            stmts.append({'op': 'remove', 'm': src, 'keys': keys})
            gone = {k[0] for k in keys}
            models.append([e for e in m if e[0] not in gone])
        else:
            other = rng.randrange(i)
            m2 = models[other]
            if rng.random() < 0.5:
                # a fresh right operand that overlaps m under other representatives
                k = rng.randint(1, 4)
                cs = []
                for _ in range(k):
                    c, rp = pick_key(m)
                    if c not in [x[0] for x in cs]:
                        cs.append([c, rp, fresh()])
                stmts.append({'op': 'lit', 'entries': cs})
                models.append([tuple(e) for e in cs])
                other = len(stmts) - 1
                m2 = models[other]
            out = m
            for e in m2:
                out = m_set(out, e[0], e[1], e[2])
            if len(out) > 8:
                # keep maps at <= 8 entries: remove instead
                keys = [list(pick_key(m))]
                stmts.append({'op': 'remove', 'm': src, 'keys': keys})
                models.append([e for e in m if e[0] != keys[0][0]])
            else:
                stmts.append({'op': 'merge', 'a': src, 'b': other})
                models.append(out)
    # equality probes
    eqs = []
    nv = len(stmts)
    for _ in range(rng.randint(2, 4)):
        i = rng.randrange(nv)
        m = list(models[i])
        ent = [[c, rep(c) if rng.random() < 0.7 else rp, v] for c, rp, v in m]
        how = rng.random()
        if how < 0.55:
            rng.shuffle(ent)
        elif how < 0.65:
            pass
        elif how < 0.78 and ent:
            rng.shuffle(ent)
            ent[rng.randrange(len(ent))][2] = fresh()
        elif how < 0.9 and ent:
            rng.shuffle(ent)
            ent.pop(rng.randrange(len(ent)))
        else:
            free = [c for c in uni if c not in [e[0] for e in ent]]
            if free and len(ent) < 8:
                c = rng.choice(free)
                ent.insert(rng.randrange(len(ent) + 1), [c, rep(c), fresh()])
        ent = [[c, rp, ('%d.0' % v) if rng.random() < 0.2 else str(v)] for c, rp, v in ent]
        eqs.append({'m': i, 'entries': ent})
    for _ in range(rng.randint(1, 3)):
        eqs.append({'m': rng.randrange(nv), 'n': rng.randrange(nv)})
    return {'kind': 'prog', 'classes': uni, 'stmts': stmts, 'eq': eqs}


def gen_dup(rng):
    c = rng.choice(NAMES)
    reps = CLASSES[c][1]
    r1 = rng.choice(reps)
    r2 = r1 if rng.random() < 0.15 else rng.choice(reps)
    others = rng.sample([x for x in NAMES if x != c], rng.randint(0, 4))
    ent = [[o, rng.choice(CLASSES[o][1]), i + 3] for i, o in enumerate(others)]
    ent.insert(rng.randrange(len(ent) + 1), [c, r1, 1])
    pos = [i for i, e in enumerate(ent) if e[0] == c][0]
    ent.insert(rng.randint(pos + 1, len(ent)), [c, r2, 2])
    return {'kind': 'dup', 'entries': ent}


# ------------------------------------------------------------------ evaluation

def lit_text(entries):
    if not entries:
        return '()'
    return '(' + ', '.join('%s: %s' % (kx(r), v) for _, r, v in entries) + ')'


def stmt_text(i, s):
    op = s['op']
    if op == 'lit':
        rhs = lit_text(s['entries'])
    elif op == 'set':
        rhs = 'map.set($m%d, %s, %d)' % (s['m'], kx(s['key'][1]), s['val'])
    elif op == 'remove':
        rhs = 'map.remove($m%d, %s)' % (s['m'], ', '.join(kx(k[1]) for k in s['keys']))
    else:
        rhs = 'map.merge($m%d, $m%d)' % (s['a'], s['b'])
    return '$m%d: %s;' % (i, rhs)


def parse_ints(text):
    """inspect() text of a comma list of integers -> list, or None."""
    t = text.strip()
    if t == '()':
        return []
    if t.startswith('(') and t.endswith(')'):
        t = t[1:-1]
    out = []
    for p in t.split(','):
        p = p.strip()
        if not p:
            continue
        if not re.match(r'^-?\d+$', p):
            return None
        out.append(int(p))
    return out


def check_prog(ctx, case):
    stmts, uni = case['stmts'], case['classes']
    nv = len(stmts)
    defs = ''.join(stmt_text(i, s) for i, s in enumerate(stmts))
    probes = [(c, r) for c in uni for r in CLASSES[c][1]]
    exprs, index = [], []
    for i in range(nv):
        exprs.append('map.values($m%d)' % i); index.append((i, 'values'))
        exprs.append('list.length(map.keys($m%d))' % i); index.append((i, 'nkeys'))
        for c, r in probes:
            exprs.append('map.get($m%d, %s)' % (i, kx(r))); index.append((i, 'get', c, r))
            exprs.append('map.has-key($m%d, %s)' % (i, kx(r))); index.append((i, 'has', c, r))
    eq_at = len(exprs)
    for q in case['eq']:
        if 'entries' in q:
            exprs.append('$m%d == %s' % (q['m'], lit_text(q['entries'])))
            exprs.append('%s == $m%d' % (lit_text(q['entries']), q['m']))
        else:
            exprs.append('$m%d == $m%d' % (q['m'], q['n']))
            exprs.append('$m%d == $m%d' % (q['n'], q['m']))
    res = ev.evaluate_many(ctx, exprs, defs=defs, chunk=60)
    ctx.ran(len(exprs))
    if any(r[0] == 'other' for r in res):
        ctx.undecided('driver-trouble', [r[1] for r in res if r[0] == 'other'][0])
        return
    if all(r[0] == 'err' for r in res):
        # a statement of the program fails although every statement is valid: find the first one
        for i in range(nv):
            d = ''.join(stmt_text(j, s) for j, s in enumerate(stmts[:i + 1]))
            r = ev.evaluate(ctx, ['list.length(map.keys($m%d))' % i], defs=d)[0]
            if r[0] == 'err':
                ctx.violation('valid-statement-fails|op=%s' % stmts[i]['op'], case, {'statement': stmt_text(i, stmts[i]), 'error': r[1][-300:]})
                return
            if r[0] != 'ok':
                ctx.undecided('driver-trouble')
                return
        ctx.undecided('program-fails-but-every-prefix-succeeds')
        return

    # ---- observed state of every variable
    state = [None] * nv          # {'order': [cls...], 'map': {cls: val}} or None when not coherent
    raw = [dict(get={}, has={}) for _ in range(nv)]
    for (ix, r) in zip(index, res[:eq_at]):
        i = ix[0]
        if ix[1] in ('values', 'nkeys'):
            raw[i][ix[1]] = r
        else:
            raw[i][ix[1]][(ix[2], ix[3])] = r
    for i in range(nv):
        op = stmts[i]['op']
        rw = raw[i]
        bad = False
        vals = parse_ints(rw['values'][1]) if rw['values'][0] == 'ok' else None
        nkeys = int(rw['nkeys'][1]) if rw['nkeys'][0] == 'ok' and re.match(r'^\d+$', rw['nkeys'][1]) else None
        if vals is None or nkeys is None:
            ctx.violation('readback-fails|produced-by=%s|fn=%s' % (op, 'values' if vals is None else 'keys'), case,
                          {'var': i, 'values': rw['values'][1][-200:], 'nkeys': rw['nkeys'][1][-200:]})
            continue
        found = {}
        for c in uni:
            got = {}
            for r in CLASSES[c][1]:
                g, h = rw['get'][(c, r)], rw['has'][(c, r)]
                if g[0] != 'ok' or not re.match(r'^(null|\d+)$', g[1]):
                    ctx.violation('lookup-fails|fn=get|keykind=%s' % kind(c), case, {'var': i, 'key': r, 'observed': g[1][-200:]})
                    bad = True
                    continue
                if h[0] != 'ok' or h[1] not in ('true', 'false'):
                    ctx.violation('lookup-fails|fn=has-key|keykind=%s' % kind(c), case, {'var': i, 'key': r, 'observed': h[1][-200:]})
                    bad = True
                    continue
                if (h[1] == 'true') != (g[1] != 'null'):
                    ctx.violation('lookup|has-key-disagrees-with-get|keykind=%s' % kind(c), case,
                                  {'var': i, 'key': r, 'get': g[1], 'has-key': h[1], 'map': defs})
                    bad = True
                got[r] = None if g[1] == 'null' else int(g[1])
            if len(set(got.values())) > 1:
                ctx.violation('lookup|representations-of-one-key-disagree|keykind=%s' % kind(c), case,
                              {'var': i, 'class': c, 'get-by-representative': got, 'program': defs})
                bad = True
            elif got:
                v = next(iter(got.values()))
                if v is not None:
                    found[c] = v
            ctx.seen('lookup_outcome', '%s:%s' % (kind(c), 'hit' if c in found else 'miss'))
        if bad:
            continue
        if nkeys != len(vals):
            ctx.violation('state|produced-by=%s|keys-and-values-differ-in-length' % op, case, {'var': i, 'nkeys': nkeys, 'values': vals, 'program': defs})
            continue
        if sorted(found.values()) != sorted(vals):
            # an entry that no representative finds, a value found twice, ...
            what = 'entry-not-found-by-any-representative' if len(vals) > len(found) else 'lookups-and-values-disagree'
            ctx.violation('state|produced-by=%s|%s' % (op, what), case, {'var': i, 'values': vals, 'found': found, 'program': defs})
            continue
        byval = {v: c for c, v in found.items()}
        state[i] = {'order': [byval[v] for v in vals], 'map': found}
        ctx.seen('map_sizes', len(vals))

    # ---- statements judged on the observed state of their inputs
    stored = [None] * nv         # cls -> text it was first written with (propagated; only classifies, never judges)
    for i, s in enumerate(stmts):
        op = s['op']
        if op == 'lit':
            stored[i] = {c: r for c, r, _ in s['entries']}
        elif op == 'set':
            stored[i] = dict(stored[s['m']]); stored[i].setdefault(s['key'][0], s['key'][1])
        elif op == 'remove':
            stored[i] = {c: r for c, r in stored[s['m']].items() if c not in [k[0] for k in s['keys']]}
        else:
            stored[i] = dict(stored[s['b']]); stored[i].update(stored[s['a']])
        ins = [s[k] for k in ('m', 'a', 'b') if k in s]
        if state[i] is None or any(state[j] is None for j in ins):
            ctx.stat('statements_not_judged_incoherent_state')
            continue
        out = state[i]
        order_want = None

        def hitclass(keys, src):
            cl = 'absent'
            first = keys[0][0]
            for c, r in keys:
                if c in state[src]['map']:
                    if stored[src].get(c) != r:
                        return 'present-written-differently', c
                    if cl == 'absent':
                        cl, first = 'present-same-text', c
            return cl, first

        if op == 'lit':
            want = {c: v for c, r, v in s['entries']}
            tag = 'literal'
            nontriv = False
            order_soft = [c for c, _, _ in s['entries']]
        elif op == 'set':
            want = dict(state[s['m']]['map']); want[s['key'][0]] = s['val']
            h, c = hitclass([s['key']], s['m'])
            tag = 'set|key=%s' % h
            ctx.seen('key_kinds', 'set:%s:%s' % (h, kind(c)))
            nontriv = h != 'present-same-text'
            order_soft = [c for c in state[s['m']]['order']]
            if s['key'][0] not in order_soft:
                order_soft.append(s['key'][0])
        elif op == 'remove':
            gone = {k[0] for k in s['keys']}
            want = {c: v for c, v in state[s['m']]['map'].items() if c not in gone}
            h, c = hitclass(s['keys'], s['m'])
            tag = 'remove|key=%s' % h
            ctx.seen('key_kinds', 'remove:%s:%s' % (h, kind(c)))
            nontriv = h != 'present-same-text'
            order_soft = [c for c in state[s['m']]['order'] if c not in gone]
        else:
            a, b = state[s['a']], state[s['b']]
            want = dict(a['map']); want.update(b['map'])
            order_want = a['order'] + [c for c in b['order'] if c not in a['map']]
            common = [c for c in b['order'] if c in a['map']]
            if not common:
                h = 'none'
            elif any(stored[s['a']].get(c) != stored[s['b']].get(c) for c in common):
                h = 'written-differently'
            else:
                h = 'same-text'
            tag = 'merge|overlap=%s' % h
            nontriv = h != 'same-text' and bool(b['order'])
            order_soft = None
        ctx.seen('statement_classes', tag)
        if nontriv:
            ctx.nontrivial((op, s, sorted(state[ins[0]]['map'].items()) if ins else None) if op != 'merge' else
                           (op, a['order'], b['order'], sorted(want.items())))
        got = out['map']
        dev = []
        if [c for c in want if c not in got]:
            dev.append('entry-missing')
        if [c for c in got if c not in want]:
            dev.append('unexpected-entry')
        if [c for c in want if c in got and got[c] != want[c]]:
            dev.append('wrong-value')
        if not dev and order_want is not None and out['order'] != order_want:
            dev.append('key-order')
        if dev:
            ctx.violation('%s|deviation=%s' % (tag, '+'.join(dev)), case,
                          {'statement': stmt_text(i, s), 'inputs': {('$m%d' % j): [(c, state[j]['map'][c]) for c in state[j]['order']] for j in ins},
                           'expected': [(c, want[c]) for c in (order_want or sorted(want))], 'observed': [(c, got[c]) for c in out['order']],
                           'program': defs})
        elif order_soft is not None:
            ctx.seen('order_not_demanded', '%s:%s' % (op, 'as-dart-sass' if out['order'] == order_soft else 'other-order'))

    # ---- equality
    for k, q in enumerate(case['eq']):
        r1, r2 = res[eq_at + 2 * k], res[eq_at + 2 * k + 1]
        if state[q['m']] is None or ('n' in q and state[q['n']] is None):
            continue
        left = state[q['m']]
        if 'entries' in q:
            right = {'order': [c for c, _, _ in q['entries']], 'map': {c: int(float(v)) for c, _, v in q['entries']}}
            form = 'literal'
            rewritten = any(stored[q['m']].get(c) != r for c, r, _ in q['entries'])
        else:
            right = state[q['n']]
            form = 'variable'
            rewritten = q['m'] != q['n'] and any(stored[q['m']].get(c) != stored[q['n']].get(c) for c in right['map'])
        if set(left['map']) != set(right['map']):
            content, order = 'key-sets-differ', 'n/a'
        else:
            content = 'same' if left['map'] == right['map'] else 'a-value-differs'
            order = 'same' if left['order'] == right['order'] else 'different'
        want = 'true' if content == 'same' else 'false'
        ctx.seen('equality_classes', 'entries=%s|order=%s|expected=%s' % (content, order, want))
        if (order == 'different' or rewritten or content != 'same') and left['map']:
            ctx.nontrivial(('eq', [(c, left['map'][c]) for c in left['order']], [(c, right['map'][c]) for c in right['order']],
                            [e[1] for e in q.get('entries', [])]))
        for side, r in (('map-on-left', r1), ('map-on-right', r2)):
            if r[0] != 'ok' or r[1] not in ('true', 'false'):
                ctx.violation('map-eq|not-a-boolean|%s' % r[0], case, {'observed': r[1][-200:], 'program': defs})
            elif r[1] != want:
                ctx.violation('map-eq|entries=%s|order=%s|expected=%s|observed=%s' % (content, order, want, r[1]), case,
                              {'left': [(c, left['map'][c]) for c in left['order']], 'right': [(c, right['map'][c]) for c in right['order']],
                               'compared-with': form, 'side': side, 'expression': exprs[eq_at + 2 * k + (side == 'map-on-right')], 'program': defs})
                break


def check_dup(ctx, case):
    ent = case['entries']
    seen, dup = {}, None
    for c, r, v in ent:
        if c in seen:
            dup = (c, seen[c], r)
        seen.setdefault(c, r)
    first = []
    for e in ent:
        if e[0] not in [x[0] for x in first]:
            first.append(e)
    res = ev.evaluate_many(ctx, [lit_text(ent), lit_text(first)], chunk=1)
    ctx.ran(2)
    ctx.nontrivial(('dup', [(c, r) for c, r, _ in ent]))
    ctx.seen('duplicate_literal_kinds', '%s:%s' % (kind(dup[0]), 'same-text' if dup[1] == dup[2] else 'other-representation'))
    if any(r[0] not in ('ok', 'err') for r in res):
        ctx.undecided('driver-trouble')
        return
    if res[1][0] != 'ok':
        ctx.violation('valid-statement-fails|op=lit', case, {'literal': lit_text(first), 'error': res[1][1][-300:]})
        return
    if res[0][0] == 'ok':
        # (a kind-specific failure of == shows with its kind under 'lookup|representations-of-one-key-disagree')
        ctx.violation('duplicate-key-literal-accepted|%s' % ('same-text' if dup[1] == dup[2] else 'other-representation'),
                      case, {'literal': lit_text(ent), 'keykind': kind(dup[0]), 'observed': res[0][1][:200]})


def check_case(ctx, case):
    if 'nullcase' in case:
        check_nullcase(ctx, case['nullcase'])
    elif case.get('kind') == 'dup':
        check_dup(ctx, case)
    else:
        check_prog(ctx, case)



# ---- entries whose value is null (the main family uses unique integers as values; a null value must not make a key vanish)
NULLFAM_CLASSES = ['len-1in', 'num-7', 'str-a', 'color-red', 'bool-true', 'list-sp-12', 'time-1s', 'str-bc']


def gen_nullcase(rng):
    names = rng.sample(NULLFAM_CLASSES, rng.randint(2, 4))
    how = rng.choice(['literal', 'set', 'merge'])
    nulls = [rng.random() < 0.6 for _ in names]
    if not any(nulls):
        nulls[0] = True
    return {'names': names, 'nulls': nulls, 'how': how, 'reps': [rng.randrange(6) for _ in names], 'probe': [rng.randrange(6) for _ in names],
            'remove': rng.randrange(len(names))}


def check_nullcase(ctx, case):
    names, nulls = case['names'], case['nulls']
    def rep(c, k):
        m = CLASSES[c][1]
        t = m[k % len(m)]
        return t if re.match(r'^[\w.#%-]+$|^"[^"]*"$|^\'[^\']*\'$|^[\w.-]+\([^()]*\)$', t) else '(%s)' % t
    ents = [(rep(c, k), 'null' if nl else str(10 + i)) for i, (c, k, nl) in enumerate(zip(names, case['reps'], nulls))]
    if case['how'] == 'literal':
        m = '(%s)' % ', '.join('%s: %s' % e for e in ents)
    elif case['how'] == 'set':
        m = '()'
        for k, v in ents:
            m = 'map.set(%s, %s, %s)' % (m, k, v)
    else:
        m = 'map.merge((%s: %s), (%s))' % (ents[0][0], ents[0][1], ', '.join('%s: %s' % e for e in ents[1:])) if len(ents) > 1 else '(%s: %s)' % ents[0]
    exprs = ['list.length(map.keys(%s))' % m]
    for c, k in zip(names, case['probe']):
        exprs.append('map.has-key(%s, %s)' % (m, rep(c, k)))
        exprs.append('meta.inspect(map.get(%s, %s))' % (m, rep(c, k)))
    gone = rep(names[case['remove']], case['probe'][case['remove']])
    exprs.append('map.has-key(map.remove(%s, %s), %s)' % (m, gone, gone))
    exprs.append('map-has-key(%s, %s)' % (m, rep(names[0], case['probe'][0])))
    res = ev.evaluate_many(ctx, exprs, chunk=30)
    ctx.ran(len(exprs))
    ctx.nontrivial(('nullfam', m, tuple(case['probe'])))
    if any(r[0] != 'ok' for r in res):
        ctx.undecided('null-family-expression-fails', str([r for r in res if r[0] != 'ok'][:1])[:160])
        return
    ctx.seen('null_family', case['how'])
    if res[0][1] != str(len(names)):
        ctx.violation('null-valued-entry|keys-count-wrong|built-by=%s' % case['how'], {'nullcase': case}, {'map': m, 'keys': res[0][1], 'expected': len(names)})
        return
    for i, (c, nl) in enumerate(zip(names, nulls)):
        has, got = res[1 + 2 * i][1], res[2 + 2 * i][1]
        want = 'null' if nl else str(10 + i)
        if has != 'true':
            ctx.violation('null-valued-entry|has-key-false-for-stored-key|value=%s' % ('null' if nl else 'non-null'), {'nullcase': case}, {'map': m, 'key': rep(c, case['probe'][i])})
            return
        if got != want:
            ctx.violation('null-valued-entry|get-wrong|value=%s' % ('null' if nl else 'non-null'), {'nullcase': case}, {'map': m, 'key': rep(c, case['probe'][i]), 'got': got, 'want': want})
            return
    if res[-2][1] != 'false':
        ctx.violation('null-valued-entry|still-present-after-remove', {'nullcase': case}, {'map': m, 'removed': gone})
        return
    if res[-1][1] != 'true':
        ctx.violation('null-valued-entry|global-map-has-key-false-for-stored-key', {'nullcase': case}, {'map': m})


def worker(ctx):
    rng = ctx.rng
    n = 0
    while not ctx.expired():
        case = gen_program(rng)
        check_prog(ctx, case)
        if n == 0:
            ctx.sample({'program': ''.join(stmt_text(i, s) for i, s in enumerate(case['stmts'])), 'case': case}, limit=1)
        check_nullcase(ctx, gen_nullcase(rng))
        for _ in range(3):
            d = gen_dup(rng)
            check_dup(ctx, d)
            if n == 0:
                ctx.sample({'literal-that-must-fail': lit_text(d['entries'])}, limit=2)
        n += 1
