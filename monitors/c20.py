"""C20 - nested at-rules bubble and @at-root escapes correctly (tree-transformation model on the emitted block tree)."""
import random
import re

from .lib import css, selgen as sg, nestgen as ng

PROP = 'C20'
LEVEL = 'exploration'
BUDGET = {'quick': 30, 'thorough': 400}
FLOOR = {'quick': 1500, 'thorough': 20000}
RULE = ('generated trees (block depth <= 4) of style rules, numbered declarations `pN: N`, @media / @supports / unknown at-rules '
        '(`@foo bar`, `@foo`, `@-x-doc a b`) in rule bodies, in each other (never @media inside @media) and at the top level, '
        '@at-root in block form (`@at-root { .x {} .y & {} @media .. { .z {} } }`) and in selector form (`@at-root .x {}`, with `&` as '
        '`.y &`, `&-s`, `&.x`, `& > .k`, bare `&`), also inside at-rules and inside each other, and @keyframes (from / to / percent '
        'blocks) inside rules, at-rules and @at-root blocks; nested rules use the forms of C19 (plain, leading combinator, `&` appended / '
        'suffixed / first / last).  The model gives every declaration its context: the chain of enclosing at-rules in source order '
        '(style rules and @at-root do not count) and the selector: the resolved selector of the innermost style rule, where @at-root '
        'drops the implicit parent (block form: for the rules directly inside; selector form: for its own selector) while `&` still '
        'means the enclosing rule; for @keyframes the frame selector as written.  Oracle: in the emitted block tree every declaration '
        'occurs exactly once, its enclosing blocks are exactly: the at-rules of the chain, outermost first, then one style rule with the '
        'model\'s selector (canonical comparison) - so a bubbled at-rule is never below a style rule and a keyframe block is never '
        'prefixed; declarations of one source block keep their relative order.  Not asserted: merging of media queries, the position of '
        'a bubbled block among its siblings, whether a rule is emitted as one block or several.  Distinct non-trivial = distinct '
        'top-level tree (by text) with an at-rule, @at-root or @keyframes inside a style rule.')
LEVEL_TEXT = ('Reference-model monitor: the context (at-rule chain + selector) of every numbered declaration in the emitted CSS is '
              'compared with a model of bubbling and @at-root.')
LEVEL_NOTE = ('Trusted: the nesting model shared with C19, the CSS scanner/parser, prelude comparison after white-space normalisation.  '
              'Not covered: `@at-root (with: ...)/(without: ...)` queries, @media inside @media (query merging), body-less at-rules, '
              '@font-face / @page (which take declarations directly).')
TECHNIQUE = 'runtime monitoring: generated nests with at-rules judged by a tree-transformation model of bubbling and @at-root'
ASSUMPTIONS = ['C19 (resolved selector of nested rules); the generator stays away from the listed C19 defects']

MEDIA = ['screen', 'print', '(min-width: 100px)', 'screen and (max-width: 5em)', 'print, screen', 'not screen', '(orientation: portrait)']
SUPPORTS = ['(display: grid)', 'not (display: grid)', '(a: b) and (c: d)', '(a: b) or (c: d)']
UNKNOWN = [('foo', 'bar'), ('foo', ''), ('-x-doc', 'a b'), ('foo', 'bar baz'), ('bar', '"q"')]
FRAMES = ['from', 'to', '50%', '0%', '100%', '25%, 75%']
DECL = re.compile(r'^p(\d+)$')
VENDOR_KF = 'vendor-prefixed-keyframes-in-style-rule:frame-selector-differs'


# ------------------------------------------------------------------ generation
# node kinds: ['d', n] | {'k': 'rule', 'sel', 'forms', 'items'} | {'k': 'at', 'name', 'params', 'items'}
#             | {'k': 'atroot', 'sel': None or list, 'forms', 'items'} | {'k': 'keyframes', 'name', 'frames': [[selector text, [n, ...]], ...]}

class G:
    def __init__(self, rng):
        self.rng = rng
        self.ng = ng.NG(rng, p_ph=0.0, p_ps=0.04, p_shuffle=0.0, p_dup=0.0, p_sfx_reordered=0.0)
        self.serial = 1
        self.kf = 0

    def decl(self):
        n = self.serial
        self.serial += 1
        return ['d', n]

    def at_head(self, in_media):
        rng = self.rng
        kinds = ['supports', 'unknown'] + ([] if in_media else ['media', 'media'])
        k = rng.choice(kinds)
        if k == 'media':
            return 'media', rng.choice(MEDIA)
        if k == 'supports':
            return 'supports', rng.choice(SUPPORTS)
        return rng.choice(UNKNOWN)

    def keyframes(self):
        rng = self.rng
        self.kf += 1
        frames = []
        for f in rng.sample(FRAMES, rng.choice([1, 2, 2, 3])):
            frames.append([f, [self.decl()[1] for _ in range(rng.choice([1, 1, 2]))]])
        name = rng.choice(['', '', '', '', '', '-webkit-', '-moz-']) + 'keyframes'
        node = {'k': 'keyframes', 'name': name, 'params': 'k%d' % self.kf, 'frames': frames}
        if rng.random() < 0.3:
            # the same name, written with interpolation (the evaluated name decides that this is @keyframes)
            node['written'] = (rng.choice(['-#{webkit}-keyframes', '-#{"webkit"}-keyframes', '-webkit-key#{frames}']) if name.startswith('-webkit') else
                               rng.choice(['-#{moz}-keyframes', '-moz-#{keyframes}']) if name.startswith('-moz') else
                               rng.choice(['key#{frames}', '#{keyframes}', 'keyf#{ra}mes']))
        return node

    def nested_sel(self, parents, implicit, leaf):
        """selector of a style rule (or of `@at-root <selector>`) inside parents -> (list, forms, resolved)"""
        rng = self.rng
        if parents is None:
            sel = self.ng.plain_list(maxn=2, pe=leaf)
            return sel, ['top'], sel
        info = ng.parent_info(parents)
        for _ in range(6):
            if implicit:
                sel, forms = self.ng.inner_list(info, leaf)
                sel, forms = sel[:2], forms[:2]
                if any(f in ('multi-amp', 'amp-in-pseudo', 'amp-middle') for f in forms):
                    continue
            else:
                sel, forms = [], []
                for _ in range(rng.choice([1, 1, 2])):
                    opts = ['implicit', 'implicit', 'amp-last', 'amp-first', 'amp-alone']
                    if not info['last_pe']:
                        opts.append('amp-append')
                    if info['suffixable'] and not info['suffix_reordered']:
                        opts.append('amp-suffix')
                    cx, f = self.ng.inner_complex(info, leaf, form=rng.choice(opts))
                    sel.append(cx)
                    forms.append(f)
            resolved = ng.resolve_list(sel, parents, implicit)
            if len(resolved) <= 12 and len(ng.r_list(resolved)) <= 700 and not ng.has_repeated_simple(resolved):
                return sel, forms, resolved
        sel = [self.ng.plain_complex(maxlen=1)]
        return sel, ['implicit'], ng.resolve_list(sel, parents, implicit)

    def body(self, depth, parents, implicit, in_media, decls_ok, want=None):
        """items of a block.  parents: resolved selector of the enclosing style rule (None: none); implicit: nested rules get
        the implicit parent; decls_ok: declarations may stand here (the block belongs to a style rule)"""
        rng = self.rng
        items = []
        n = rng.choice([1, 2, 2, 3, 3, 4])
        kinds = []
        for _ in range(n):
            opts = []
            if decls_ok:
                opts += ['d'] * 5
            if depth < 4:
                opts += ['rule'] * 3 + ['at'] * 3
                if parents is not None and implicit:
                    opts += ['atroot-block', 'atroot-sel', 'atroot-sel']
                if depth < 3:
                    opts += ['keyframes']
            if not opts:
                opts = ['d'] if decls_ok else []
            if opts:
                kinds.append(rng.choice(opts))
        if want and want not in kinds and depth < 4:
            kinds.append(want)
        if decls_ok and 'd' not in kinds:
            kinds.insert(rng.randrange(len(kinds) + 1), 'd')
        if not kinds:
            kinds = ['rule']
        for k in kinds:
            if k == 'd':
                items.append(self.decl())
            elif k == 'rule':
                if depth >= 4:
                    continue
                leaf = depth >= 3
                sel, forms, resolved = self.nested_sel(parents, implicit, leaf)
                items.append({'k': 'rule', 'sel': sel, 'forms': forms,
                              'items': self.body(depth + 1, resolved, True, in_media, True)})
            elif k == 'at':
                if depth + 1 >= 4 and not (decls_ok and parents is not None and implicit):
                    continue                                  # nothing could stand in it
                name, params = self.at_head(in_media)
                items.append({'k': 'at', 'name': name, 'params': params,
                              'items': self.body(depth + 1, parents, implicit, in_media or name == 'media',
                                                 decls_ok and parents is not None and implicit)})
            elif k == 'atroot-block':
                if depth + 1 >= 4:
                    continue
                items.append({'k': 'atroot', 'sel': None, 'forms': [],
                              'items': self.body(depth + 1, parents, False, in_media, False)})
            elif k == 'atroot-sel':
                sel, forms, resolved = self.nested_sel(parents, False, depth >= 3)
                items.append({'k': 'atroot', 'sel': sel, 'forms': forms,
                              'items': self.body(depth + 1, resolved, True, in_media, True)})
            elif k == 'keyframes':
                items.append(self.keyframes())
        if not items:
            if decls_ok:
                items.append(self.decl())
            elif depth < 4:
                sel, forms, resolved = self.nested_sel(parents, implicit, True)
                items.append({'k': 'rule', 'sel': sel, 'forms': forms, 'items': [self.decl()]})
        return items


def gen_case(rng):
    g = G(rng)
    nodes = []
    for _ in range(rng.choice([3, 4, 5])):
        if rng.random() < 0.2:
            name, params = g.at_head(False)
            nodes.append({'k': 'at', 'name': name, 'params': params, 'items': g.body(1, None, True, name == 'media', False, want='rule')})
        else:
            sel, forms, resolved = g.nested_sel(None, True, False)
            nodes.append({'k': 'rule', 'sel': sel, 'forms': forms,
                          'items': g.body(1, resolved, True, False, True, want=rng.choice(['at', 'at', 'atroot-sel', 'atroot-block', 'keyframes']))})
    return {'nodes': nodes, 'fmt': rng.randrange(1 << 30)}


def at_text(node):
    return '@%s%s' % (node['name'], (' ' + node['params']) if node['params'] else '')


def at_src(node):
    """the at-rule head as written in the source (the name may be spelled with interpolation)"""
    return '@%s%s' % (node.get('written') or node['name'], (' ' + node['params']) if node['params'] else '')


def render(node, frng):
    if isinstance(node, list):
        return 'p%d: %d;' % (node[1], node[1])
    k = node['k']
    if k == 'keyframes':
        frames = ' '.join('%s { %s }' % (f, ' '.join('p%d: %d;' % (n, n) for n in ns)) for f, ns in node['frames'])
        return '%s { %s }' % (at_src(node), frames)
    sep = frng.choice([' ', ' ', '\n'])
    body = sep.join(render(it, frng) for it in node['items'])
    if k == 'rule':
        head = ng.r_list(node['sel'], frng)
    elif k == 'at':
        head = at_text(node)
    else:
        head = '@at-root' + ((' ' + ng.r_list(node['sel'], frng)) if node['sel'] is not None else '')
    return '%s {%s%s%s}' % (head, sep, body, sep)


def source(case):
    frng = random.Random(case['fmt'])
    return '\n'.join(render(n, frng) for n in case['nodes']) + '\n'


# ------------------------------------------------------------------ the model

def norm_prelude(s):
    s = re.sub(r'\s+', ' ', s.strip())
    s = re.sub(r'\s*([:(),])\s*', r'\1', s)
    return s


def expectations(node, out, parents=None, implicit=True, chain=(), path=()):
    """fills out: serial -> {'chain': tuple of normalised at-rule heads, 'sel': resolved list or None, 'frame': text or None,
    'path': ((kind of enclosing source block, index in it), ...) outermost first}"""
    if isinstance(node, list):
        out[node[1]] = {'chain': chain, 'sel': parents, 'frame': None, 'path': path}
        return
    k = node['k']
    if k == 'keyframes':
        c = chain + (norm_prelude(at_text(node)),)
        for i, (f, ns) in enumerate(node['frames']):
            for n in ns:
                out[n] = {'chain': c, 'sel': None, 'frame': norm_prelude(f), 'path': path + (('keyframes', i),),
                          'vendor': node['name'] != 'keyframes' and parents is not None}
        return
    if k == 'rule':
        resolved = node['sel'] if parents is None else ng.resolve_list(node['sel'], parents, implicit)
        sub = (resolved, True, chain)
    elif k == 'at':
        sub = (parents, implicit, chain + (norm_prelude(at_text(node)),))
    elif node['sel'] is None:
        sub = (parents, False, chain)
    else:
        sub = (ng.resolve_list(node['sel'], parents, False), True, chain)
    for i, it in enumerate(node['items']):
        expectations(it, out, sub[0], sub[1], sub[2], path + ((k if k != 'atroot' else ('atroot-sel' if node['sel'] is not None else 'atroot-block'), i),))


def ctx_sig(path):
    kinds = [p[0] for p in path]
    return '>'.join(kinds[-3:]) or 'top'


def read_output(text):
    """-> (serial -> [(doc index, [preludes outermost first])], problems)"""
    try:
        nodes = css.parse(css.strip_header(text))
    except css.ParseProblem as e:
        return {}, [('output-unreadable', str(e))]
    found, problems = {}, []
    idx = 0
    for path, nd in css.walk(nodes):
        if nd['t'] == 'decl':
            m = DECL.match(nd['name'])
            if not m or nd['value'].strip() != m.group(1):
                problems.append(('output-unexpected-declaration', '%s: %s' % (nd['name'], nd['value'][:40])))
                continue
            found.setdefault(int(m.group(1)), []).append((idx, list(path)))
            idx += 1
        elif nd['t'] in ('at', 'junk'):
            problems.append(('output-unexpected-node', str(nd)[:120]))
    return found, problems


def judge_node(node, found):
    exp = {}
    expectations(node, exp)
    problems = []
    seen_sig = set()
    last_in_block = {}
    for n in sorted(exp):
        e = exp[n]
        where = ctx_sig(e['path'])
        got = found.get(n, [])
        sig, detail = None, {'decl': n, 'expected chain': list(e['chain']),
                             'expected selector': e['frame'] if e['sel'] is None else ng.r_list(e['sel'])}
        if not got:
            sig = 'declaration-missing:' + where
        elif len(got) > 1:
            sig = 'declaration-emitted-twice:' + where
            detail['observed'] = [g[1] for g in got]
        else:
            idx, path = got[0]
            detail['observed'] = path
            ats = [norm_prelude(p) for p in path if p.startswith('@')]
            plain = [p for p in path if not p.startswith('@')]
            if len(plain) != 1 or path[-1].startswith('@'):
                if not plain:
                    sig = 'declaration-without-style-rule:' + where
                elif len(plain) > 1:
                    sig = 'style-rule-inside-style-rule:' + where
                else:
                    sig = 'at-rule-below-style-rule:' + where
            elif tuple(ats) != e['chain']:
                sig = 'at-rule-chain-differs:%s|%s' % (where, 'order' if sorted(ats) == sorted(e['chain']) else
                                                       ('fewer' if len(ats) < len(e['chain']) else 'more' if len(ats) > len(e['chain']) else 'text'))
            elif e['sel'] is None:
                if norm_prelude(plain[0]) != e['frame']:
                    sig = VENDOR_KF if e.get('vendor') else 'keyframe-selector-differs:' + where
            else:
                oc = sg.canon_or_none(plain[0])
                if oc != sg.canon(ng.r_list(e['sel'])):
                    sig = 'selector-differs:' + where
            if sig is None:
                blk = e['path'][:-1]
                if last_in_block.get(blk, -1) > idx:
                    sig = 'declaration-order:' + where
                last_in_block[blk] = idx
        if sig and sig not in seen_sig:
            seen_sig.add(sig)
            problems.append((sig, detail))
    return problems, exp


def judge(ctx, case, r, record=True):
    st = r.get('status')
    nodes = case['nodes']
    if st not in ('ok', 'err', 'panic'):
        ctx.undecided('driver-' + str(st))
        return 0
    found_p = []
    if st != 'ok':
        msg = (r.get('err') or r.get('panic') or '').split('\n')[0][:100]
        if len(nodes) > 1:
            found_p.append(('whole', {'message': msg}, None))
        else:
            kinds = sorted(set(kinds_in(nodes[0])))
            found_p.append(('unexpected-%s:%s' % ('error' if st == 'err' else 'panic', '+'.join(kinds)), {'message': msg}, 0))
    else:
        found, problems = read_output(r.get('out', ''))
        for sig, d in problems:
            found_p.append((sig, {'output': d}, None))
        for k, nd in enumerate(nodes):
            ps, _ = judge_node(nd, found)
            for sig, d in ps:
                found_p.append((sig, d, k))
    if not found_p or not record:
        return len(found_p)
    if len(nodes) == 1:
        for sig, d, _ in found_p:
            ctx.violation(sig, case, d)
        return len(found_p)
    ks = sorted(set(k for _, _, k in found_p if k is not None))
    if not ks or any(k is None for _, _, k in found_p):
        ks = list(range(len(nodes)))
    reproduced = 0
    for k in ks:
        reproduced += check_case(ctx, {'nodes': [nodes[k]], 'fmt': case['fmt']})
    if not reproduced:
        for sig, d, _ in found_p:
            ctx.violation(('unexpected-error' if sig == 'whole' else sig) + '|only-in-context', case, d)
    return len(found_p)


def kinds_in(node):
    if isinstance(node, list):
        return []
    k = node['k']
    if k == 'atroot':
        k = 'atroot-sel' if node['sel'] is not None else 'atroot-block'
    if k == 'at':
        k = 'at-' + (node['name'] if node['name'] in ('media', 'supports') else 'unknown')
    out = [k]
    for it in node.get('items', []):
        out += kinds_in(it)
    return out


def check_case(ctx, case):
    r = ctx.compile(src=source(case))
    ctx.ran(1)
    return judge(ctx, case, r, True)


def note(ctx, case):
    for nd in case['nodes']:
        exp = {}
        expectations(nd, exp)
        nontrivial = False
        for n, e in exp.items():
            kinds = [p[0] for p in e['path']]
            ctx.seen('context', '>'.join(kinds[-3:]))
            ctx.seen('chain-length', len(e['chain']))
            ctx.seen('block-depth', len(kinds))
            if 'rule' in kinds or 'atroot-sel' in kinds:
                i = min(kinds.index(x) for x in ('rule', 'atroot-sel') if x in kinds)
                if any(x in ('at', 'atroot-sel', 'atroot-block', 'keyframes') for x in kinds[i + 1:]):
                    nontrivial = True
        for k in kinds_in(nd):
            ctx.seen('node', k)
        if nontrivial:
            ctx.nontrivial(render(nd, random.Random(0)))


def worker(ctx):
    n = 0
    while not ctx.expired():
        cases = [gen_case(ctx.rng) for _ in range(12)]
        res = ctx.batch([{'src': source(c)} for c in cases])
        ctx.ran(len(cases))
        for c, r in zip(cases, res):
            note(ctx, c)
            judge(ctx, c, r, True)
            ctx.stat('stylesheets-' + str(r.get('status')))
            if r.get('status') == 'ok' and n < 2 and ctx.shard == 0:
                ctx.sample({'src': source(c), 'out': r.get('out', '')[:1500]})
                n += 1
