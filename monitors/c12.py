"""C12 - equality is symmetric and consistent with ordering (relational monitor)."""
import itertools
from .lib import ev

PROP = 'C12'
LEVEL = 'exploration'
BUDGET = {'quick': 30, 'thorough': 400}
FLOOR = {'quick': 3000, 'thorough': 25000}
RULE = ('pairs of generated SassScript values: numbers near 1 and near rounding ties (k ulps apart), 0/-0/subnormals, '
        'numbers with convertible units, strings in both quote styles and with escapes, colors in hex/name/rgb/hsl/hwb '
        'notation, lists with every separator/bracket, maps, booleans, null, functions; a pair is drawn either from the '
        'same alias class, from neighbouring perturbations, or at random.  Distinct by the ordered pair of expression '
        'texts; non-trivial = the two texts differ.  Oracle (relational, no model of ==): a==b equals b==a; a!=b is its '
        'negation; a==a unless NaN is involved; for two comparable numbers exactly one of < == > holds.')
LEVEL_TEXT = ('Relational monitor: the laws are checked between several evaluations of the real code on the same '
              'operands; no reference definition of equality is needed, so any disagreement is a violation.')
LEVEL_NOTE = 'Trusted: only the parsing of true/false from the output. Comparable = both numbers, not NaN, units equal, one unitless, or in one fixed-ratio group.'
TECHNIQUE = 'runtime monitoring: metamorphic relations (symmetry, negation, reflexivity, trichotomy) over generated value pairs'

NUM_NEAR = ['1', '1.0000000000000002', '0.9999999999999999', '0.9999999999999998', '1.0000000000000004', '1 + math.$epsilon',
            '1 - math.$epsilon', 'math.div(1, 3) * 3', '0.1 + 0.2', '0.3', '0.30000000000000004', '0.1 * 3', 'math.div(3, 10)',
            '100', '100.00000000000001', '99.99999999999999', '1e15', '1e15 + 1', '1000000000000000.1', '2.5', '2.4999999999999996',
            '2.5000000000000004', '0.5', '0.49999999999999994', '1e-10', '1.0000000000000002e-10', '0', '-0', '0 * -1', '5e-324',
            '1e-320', '-5e-324', '123456789.12345678', '123456789.12345679', '123456789.1234568', '-1', '-1.0000000000000002',
            'math.sqrt(2) * math.sqrt(2)', '2', '2.0000000000000004', 'math.$pi', '3.141592653589793', '3.1415926535897936',
            '1e300 * 10', 'math.div(1, 0)', '-1 * math.div(1, 0)', '9007199254740992', '9007199254740993', '9007199254740994']
NAN = ['math.div(0, 0)', 'math.sqrt(-1)', 'math.div(0, 0) * 1px', 'math.acos(2)']
UNIT_ALIASES = [['1in', '96px', '2.54cm', '25.4mm', '72pt', '6pc', '101.6Q'], ['360deg', '1turn', '400grad'], ['1s', '1000ms'],
                ['1kHz', '1000Hz'], ['96dpi', '1dppx'], ['1', '1px', '1em', '1%', '1foo'], ['0', '0px', '0%', '-0px'],
                ['1.5in', '144px', '3.81cm'], ['90deg', '0.25turn', '100grad'], ['0.5s', '500ms']]
STR_ALIASES = [['"a"', "'a'", 'a', 'unquote("a")', '"\\61"', 'quote(a)'], ['"a b"', "'a b'", 'unquote("a b")', '"a" + " b"', '"a\\20 b"'],
               ['""', "''", 'unquote("")'], ['"é"', "'é'", 'é', '"\\e9"', '"\\0000e9 "'], ['"\\""', "'\"'", 'unquote("\\"")'],
               ['"A"', '"a"', 'to-upper-case("a")'], ['red', '"red"', 'unquote("red")'], ['"1"', '1', 'unquote("1")'], ['true', '"true"'],
               ['null', '"null"', 'unquote("null")'], ['"#{1+1}"', '"2"', '2'], ['"a,b"', 'unquote("a,b")', '(a,b)']]
COLOR_ALIASES = [['red', '#f00', '#ff0000', 'rgb(255, 0, 0)', 'hsl(0, 100%, 50%)', 'hwb(0 0% 0%)', 'rgba(255, 0, 0, 1)', '#ff0000ff', 'RED'],
                 ['transparent', 'rgba(0, 0, 0, 0)', '#0000', 'hsla(0, 0%, 0%, 0)'], ['#808080', 'gray', 'grey', 'rgb(128, 128, 128)', 'hsl(0, 0%, 50.2%)'],
                 ['rgba(1, 2, 3, 0.5)', 'rgba(#010203, 0.5)', '#01020380'], ['#123', '#112233', 'rgb(17, 34, 51)', 'darken(#123, 0%)'],
                 ['hsl(120, 50%, 50%)', 'hsl(480, 50%, 50%)', 'hsl(-240, 50%, 50%)', '#40bf40'], ['mix(red, blue)', '#800080', 'purple', 'rgb(127.5, 0, 127.5)'],
                 ['lighten(red, 10%)', '#ff3333', 'hsl(0, 100%, 60%)'], ['blue', 'invert(yellow)', 'complement(#ff0)']]
LIST_ALIASES = [['(1 2 3)', '1 2 3', 'join(1 2, 3)', 'append(1 2, 3)', '(1, 2, 3)', '[1 2 3]', '(1 2 3,)', 'list.slash(1, 2, 3)'],
                ['()', '[]', 'join((), ())', 'map.remove((a: 1), a)', '""'], ['(a,)', '(a)', 'a', '[a]', 'append((), a)', 'append((), a, comma)'],
                ['(1 2) (3 4)', '((1 2) (3 4))', '(1 2, 3 4)', '1 2 3 4'], ['(a b, c d)', 'join((a b,), (c d,))', '((a b), (c d))']]
MAP_ALIASES = [['(a: 1, b: 2)', '(b: 2, a: 1)', 'map.merge((a: 1), (b: 2))', 'map.merge((b: 2), (a: 1))', '("a": 1, "b": 2)', '((a 1), (b 2))'],
               ['(a: 1)', 'map.remove((a: 1, b: 2), b)', '(a: 1.0)', '("a": 1)', '((a 1),)'], ['(1px: x)', '(1px: x,)', 'map.merge((), (1px: x))'],
               ['(a: (b: 1))', 'map.merge((a: ()), (a: (b: 1)))', '(a: (b: 1,))'], ['(1in: x)', '(96px: x)', '(2.54cm: x)']]
MISC = [['true', 'not false', '1 == 1'], ['false', 'not true', '1 == 2'], ['null', 'map.get((a: 1), b)', 'if(true, null, 1)'],
        ['meta.get-function("abs")', 'get-function("abs")', 'meta.get-function("abs", $module: math)', 'meta.get-function("lighten")'],
        ['calc(1px + 1%)', 'calc(1% + 1px)', 'calc(1px + 1%)'], ['calc(1px + 2px)', '3px'], ['var(--x)', 'unquote("var(--x)")', 'var( --x )']]
ALL_CLASSES = UNIT_ALIASES + STR_ALIASES + COLOR_ALIASES + LIST_ALIASES + MAP_ALIASES + MISC


def kind_of(e):
    for name, groups in (('number', UNIT_ALIASES), ('string', STR_ALIASES), ('color', COLOR_ALIASES), ('list', LIST_ALIASES),
                         ('map', MAP_ALIASES), ('misc', MISC)):
        if any(e in g for g in groups):
            return name
    if e in NAN:
        return 'nan'
    return 'number'


def is_number_expr(e):
    return e in NUM_NEAR or e in NAN or any(e in g for g in UNIT_ALIASES)


def gen_pair(rng):
    r = rng.random()
    if r < 0.25:
        a, b = rng.choice(NUM_NEAR), rng.choice(NUM_NEAR)
        if rng.random() < 0.3:
            u = rng.choice(['px', '%', 'em', 's'])
            a, b = '(%s) * 1%s' % (a, u), '(%s) * 1%s' % (b, u)
        return a, b, 'near'
    if r < 0.6:
        g = rng.choice(ALL_CLASSES)
        return rng.choice(g), rng.choice(g), 'alias'
    if r < 0.65:
        return rng.choice(NAN), rng.choice(NAN + NUM_NEAR), 'nan'
    g1, g2 = rng.choice(ALL_CLASSES), rng.choice(ALL_CLASSES)
    return rng.choice(g1), rng.choice(g2), 'random'


def comparable_numbers(a, b):
    ga = [g for g in UNIT_ALIASES if a in g]
    gb = [g for g in UNIT_ALIASES if b in g]
    if a in NUM_NEAR and b in NUM_NEAR:
        return 'non-finite' not in (a, b) and True
    if a.startswith('(') and b.startswith('(') and a.rsplit('*', 1)[-1] == b.rsplit('*', 1)[-1]:
        return True
    if ga and gb and ga[0] is gb[0] and ga[0] not in (UNIT_ALIASES[5], UNIT_ALIASES[6]):
        return True
    if ga and gb and ga[0] is gb[0] and a != b and (a in ('1', '0') or b in ('1', '0')) and 'foo' not in a + b:
        return True     # a unitless number can be compared with any number
    return False


def to_bool(r):
    if r[0] == 'ok' and r[1] in ('true', 'false'):
        return r[1] == 'true'
    return None


def check_pairs(ctx, pairs):
    exprs = []
    for a, b, how in pairs:
        exprs += ['(%s) == (%s)' % (a, b), '(%s) == (%s)' % (b, a), '(%s) != (%s)' % (a, b), '(%s) == (%s)' % (a, a),
                  '(%s) < (%s)' % (a, b), '(%s) > (%s)' % (a, b)]
    res = ev.evaluate_many(ctx, exprs, chunk=12)
    for i, (a, b, how) in enumerate(pairs):
        ab, ba, ne, aa, lt, gt = [to_bool(x) for x in res[6 * i:6 * i + 6]]
        ctx.ran(6)
        if a != b:
            ctx.nontrivial((a, b))
        case = {'a': a, 'b': b, 'how': how}
        ka, kb = kind_of(a), kind_of(b)
        obs = {'a==b': ab, 'b==a': ba, 'a!=b': ne, 'a==a': aa, 'a<b': lt, 'a>b': gt,
               'raw': [x[1][:80] for x in res[6 * i:6 * i + 6]]}
        if ab is None or ba is None:
            if res[6 * i][0] == 'err' or res[6 * i + 1][0] == 'err':
                # == never fails in Sass
                ctx.violation('equality-is-an-error|%s,%s' % (ka, kb), case, obs)
            else:
                ctx.undecided('unparsed')
            continue
        if ab != ba:
            near = 'within-few-ulp' if how == 'near' else 'other'
            ctx.violation('asymmetric|%s,%s|%s' % tuple(sorted([ka, kb]) + [near]), case, obs)
        if ne is not None and ne == ab:
            ctx.violation('not-equal-is-not-the-negation|%s,%s' % (ka, kb), case, obs)
        nan_involved = a in NAN or 'div(0, 0)' in a or 'sqrt(-1)' in a or 'acos(2)' in a
        if aa is False and not nan_involved:
            ctx.violation('not-reflexive|%s' % ka, case, obs)
        if comparable_numbers(a, b) and not nan_involved and b not in NAN and lt is not None and gt is not None:
            n = int(lt) + int(ab) + int(gt)
            ctx.stat('trichotomy_checked')
            if n != 1:
                cls = 'within-few-ulp' if how == 'near' else ('unitless-with-unit' if (a in ('1', '0') or b in ('1', '0')) else 'converted-units')
                ctx.violation('trichotomy|%d-of-three-hold|%s' % (n, cls), case, obs)


def check_case(ctx, case):
    check_pairs(ctx, [(case['a'], case['b'], case.get('how', 'random'))])


def worker(ctx):
    rng = ctx.rng
    first = True
    # exhaustive part: every ordered pair inside each alias class (shared out over the workers)
    allpairs = [(a, b, 'alias') for g in ALL_CLASSES for a in g for b in g]
    allpairs += [(a, b, 'near') for a in NUM_NEAR for b in NUM_NEAR]
    mine = [p for i, p in enumerate(allpairs) if i % ctx.nshards == ctx.shard]
    for i in range(0, len(mine), 40):
        if ctx.expired():
            break
        check_pairs(ctx, mine[i:i + 40])
    else:
        ctx.stat('space_completed')
    while not ctx.expired():
        pairs = [gen_pair(rng) for _ in range(40)]
        check_pairs(ctx, pairs)
        if first:
            ctx.sample({'a': pairs[0][0], 'b': pairs[0][1]}); first = False
