"""C10 - numbers print as correctly rounded decimals (reference-model monitor, exact decimal oracle)."""
import struct
from decimal import Decimal, getcontext, ROUND_HALF_UP, ROUND_HALF_DOWN
from .lib import ev

getcontext().prec = 1200

PROP = 'C10'
LEVEL = 'exploration'
BUDGET = {'quick': 30, 'thorough': 600}
FLOOR = {'quick': 20000, 'thorough': 1000000}
RULE = ('f64 values from the classes of the quantifier (random doubles, short decimals, neighbours of ties and carries, '
        'subnormals, huge integers, non-finite) x precision 0..=20 x both styles, formatted by the real '
        'Number::format through the driver; plus exactly representable literals printed through a declaration with and '
        'without units, and non-finite values as CSS values.  Distinct by (bits, precision, style); non-trivial = the '
        'value is finite and not an integer, or non-finite.  Oracle: exact decimal expansion of the double (decimal, 1200 '
        'digits): no exponent, no trailing zero, <= precision digits, no negative zero, leading zero iff expanded, and '
        'the numeral is the value rounded to an admissible number of places (cap between 16-intdigits-1 and '
        '16-intdigits+1+leading fractional zeros; either neighbour at an exact tie; round-trip only for |x| >= 2^53).')
LEVEL_TEXT = ('Reference-model monitor with an exact oracle: every observed numeral is compared with the exact decimal '
              'expansion of the binary value, 10^5..10^7 evaluations per run over all listed f64 classes.')
LEVEL_NOTE = 'Trusted: Python decimal arithmetic and the admissions listed in the rule where the statement is silent.'
TECHNIQUE = 'runtime monitoring: exact-decimal reference oracle over direct Number::format calls and declarations'


def bits(x):
    return struct.unpack('<Q', struct.pack('<d', x))[0]


def from_bits(b):
    return struct.unpack('<d', struct.pack('<Q', b))[0]


def intdigits(d):
    a = abs(d)
    return 0 if a < 1 else len(str(int(a)))


def lead_frac_zeros(d):
    a = abs(d) % 1
    if a == 0:
        return 0
    n = 0
    while a < Decimal(1) / 10 and n < 400:
        a *= 10
        n += 1
    return n


def judge(x, p, compressed, o):
    """None or (signature, detail)"""
    if x != x:
        return None if o == 'NaN' else ('nan-text', o)
    if x in (float('inf'), float('-inf')):
        want = 'infinity' if x > 0 else '-infinity'
        return None if o == want else ('infinity-text', o)
    if not isinstance(o, str):
        return ('panic', str(o))
    d = Decimal(x)
    if 'e' in o or 'E' in o:
        return ('exponent', o)
    body = o[1:] if o.startswith('-') else o
    if not body or not all(c in '0123456789.' for c in body) or body.count('.') > 1 or body.endswith('.'):
        return ('not-a-plain-decimal', o)
    whole, _, frac = body.partition('.')
    try:
        pv = Decimal(('-' if o.startswith('-') else '') + (whole or '0') + ('.' + frac if frac else ''))
    except Exception:
        return ('not-a-plain-decimal', o)
    if frac.endswith('0'):
        return ('trailing-fractional-zero', o)
    if len(frac) > p:
        return ('too-many-fraction-digits|precision=%s' % (0 if p == 0 else 'n'), o)
    if o.startswith('-') and pv == 0:
        return ('negative-zero', o)
    if len(whole) > 1 and whole.startswith('0'):
        return ('leading-zeros', o)
    if frac and not compressed and whole == '':
        return ('leading-zero-missing-in-expanded', o)
    if frac and compressed and whole == '0':
        return ('leading-zero-kept-in-compressed', o)
    if not frac and whole == '':
        return ('not-a-plain-decimal', o)
    if abs(x) >= 2.0 ** 53:
        try:
            return None if float(pv) == x else ('huge-does-not-round-trip', o)
        except Exception:
            return ('huge-does-not-round-trip', o)
    cap = 16 - intdigits(d)
    lfz = lead_frac_zeros(d)
    cands = set(min(p, max(c, 0)) for c in range(cap - 1, cap + 2 + lfz))
    for dd in cands:
        q = Decimal(1).scaleb(-dd)
        for mode in (ROUND_HALF_UP, ROUND_HALF_DOWN):
            if d.quantize(q, rounding=mode) == pv:
                return None
    # classify the miss: measured at the number of places actually printed (or the finest admissible one)
    places = max(len(frac), min(cands))
    q = Decimal(1).scaleb(-places)
    e = d.quantize(q, rounding=ROUND_HALF_UP)
    units = abs(e - pv) / q
    t = (abs(d) / q) % 1
    sigdigits = len((whole + frac).lstrip('0'))
    # Digit extraction by repeated multiplication by ten in binary floating point (what the pinned tree does)
    # accumulates about 10^(places-16) last-place units of error: a one-unit miss is attributed to it only when
    # the value is that close to a rounding tie.
    budget = max(Decimal('0.001'), Decimal(10) ** (places - 15))
    if units <= 1 and abs(t - Decimal('0.5')) < budget:
        cls = 'one-unit-in-last-place|tie-within-binary-digit-extraction-error'
    elif units <= 1:
        cls = 'one-unit-in-last-place|far-from-tie'
    else:
        cls = 'more-than-one-unit-in-last-place'
    return ('misrounded|' + cls, {'printed': o, 'correctly_rounded': str(e), 'places': places, 'exact': str(d)[:60]})


def gen_value(rnd):
    k = rnd.random()
    if k < .2: x = rnd.uniform(-1000, 1000)
    elif k < .35: x = round(rnd.uniform(-100, 100), rnd.randint(0, 12))
    elif k < .45: x = rnd.uniform(-1, 1) * 10 ** rnd.randint(-12, 3)
    elif k < .6:
        x = rnd.randint(-10 ** rnd.randint(0, 8), 10 ** rnd.randint(0, 8)) + rnd.choice(
            [.5, .25, .125, .05, .005, .0005, .99999, .999999999999, 0.49999999999, 0.9999999999999999, .95, .995,
             .0000000001, .00000000005, .5000000001, 0.15, 0.25, 0.35, 0.45, .4999999999999999, .05000000001])
    elif k < .7: x = float(rnd.randint(1, 10 ** 15)) / 10 ** rnd.randint(0, 15)
    elif k < .78: x = float(str(rnd.randint(1, 10 ** 17))[:rnd.randint(1, 17)] or 1) * 10.0 ** rnd.randint(-20, 5)
    elif k < .84: x = rnd.choice([1, -1]) * (10.0 ** rnd.randint(0, 16) - rnd.choice([0.5, 1e-3, 1e-7, 1e-10, 0.05, 0.005]))
    elif k < .88: x = from_bits(rnd.getrandbits(52))                   # subnormals
    elif k < .92: x = rnd.choice([1, -1]) * float(rnd.randint(2 ** 52, 2 ** 70))   # huge integers
    elif k < .94: x = rnd.choice([0.0, -0.0, 1.0, -1.0, 0.1, 0.2, 0.3, 1e-10, 1e-11, 5e-11, 4.9999999999e-11, 1e15, 1e16, 1e21, 1e300,
                                  5e-324, 2.2250738585072014e-308, 1.7976931348623157e308, 0.30000000000000004, 1 / 3, 2 / 3,
                                  float('inf'), float('-inf'), float('nan')])
    elif k < .97:
        # next to a rounding tie at a random number of places: m.5 * 10^-j +- 1ulp
        j = rnd.randint(0, 14)
        m = rnd.randint(0, 10 ** rnd.randint(1, 6))
        x = (m + 0.5) / 10 ** j
        b = bits(x) + rnd.choice([-1, 0, 1])
        x = from_bits(b) * rnd.choice([1, -1])
    else: x = from_bits(rnd.getrandbits(64))
    return x


def check_numfmt(ctx, cases):
    """cases: list of [bits, precision, compressed]"""
    r = ctx.driver.call({'op': 'numfmt', 'cases': [[str(b), p, c] for b, p, c in cases]})
    if r.get('status') != 'ok':
        ctx.undecided('numfmt-' + str(r.get('status')))
        return
    for (b, p, c), o in zip(cases, r['res']):
        x = from_bits(b)
        ctx.ran()
        finite = x == x and abs(x) != float('inf')
        if not finite or x != int(x):
            ctx.nontrivial((b, p, c))
        v = judge(x, p, c, o)
        if v is not None:
            ctx.violation(v[0], {'kind': 'numfmt', 'bits': b, 'value': repr(x), 'precision': p, 'compressed': c}, {'printed': o, 'why': v[1]})


EXACT = ['0.5', '1.25', '3.0625', '-0.125', '7', '-12', '0.75', '100.5', '0.0078125', '-2.5', '1024', '0.3125', '15.625']


def check_decl(ctx, rng):
    """the declaration path: sign, unit suffix, style, calc() wrappers for non-finite values"""
    cases = []
    for _ in range(40):
        lit = rng.choice(EXACT)
        unit = rng.choice(['', 'px', '%', 'em', 'deg'])
        cases.append((lit, unit, rng.randint(0, 20), rng.choice([False, True])))
    jobs = [{'src': 'a{b:%s%s}' % (l, u), 'precision': p, 'style': 'compressed' if c else 'expanded'} for l, u, p, c in cases]
    for (l, u, p, c), r in zip(cases, ctx.batch(jobs)):
        ctx.ran()
        if r.get('status') != 'ok':
            ctx.violation('declaration-path|status=%s' % r.get('status'), {'kind': 'decl', 'lit': l, 'unit': u, 'precision': p, 'compressed': c}, r.get('err', '')[:200])
            continue
        out = r['out']
        val = out[len('a{b:'):-2] if c else out[len('a {\n  b: '):-len(';\n}\n')]
        ctx.nontrivial(('decl', l, u, p, c))
        if not val.endswith(u):
            ctx.violation('declaration-path|unit-lost', {'kind': 'decl', 'lit': l, 'unit': u, 'precision': p, 'compressed': c}, out)
            continue
        num = val[:len(val) - len(u)] if u else val
        v = judge(float(l), p, c, num)
        if v is not None:
            ctx.violation('declaration-path|' + v[0], {'kind': 'decl', 'lit': l, 'unit': u, 'precision': p, 'compressed': c}, {'printed': num, 'why': v[1]})
    # non-finite values as CSS values
    nf = [('math.div(1,0)', 'calc(infinity)'), ('math.div(-1,0)', 'calc(-infinity)'), ('math.div(0,0)', 'calc(NaN)'),
          ('math.div(1px,0)', 'calc(infinity * 1px)'), ('math.div(-1px,0)', 'calc(-infinity * 1px)'), ('math.div(0,0)*1px', 'calc(NaN * 1px)')]
    jobs = [{'src': '@use "sass:math"; a{b:%s}' % e, 'style': st} for e, _ in nf for st in ('expanded', 'compressed')]
    res = ctx.batch(jobs)
    for i, (e, want) in enumerate(nf):
        for k, st in enumerate(('expanded', 'compressed')):
            r = res[2 * i + k]
            ctx.ran()
            ctx.nontrivial(('nonfinite', e, st))
            got = r.get('out', '') if r.get('status') == 'ok' else 'status=' + str(r.get('status'))
            val = got[len('a{b:'):-2] if st == 'compressed' and got.startswith('a{b:') else got[len('a {\n  b: '):-len(';\n}\n')]
            if val.replace(' ', '') != want.replace(' ', ''):
                ctx.violation('non-finite-css-value|%s' % want, {'kind': 'nonfinite', 'expr': e, 'style': st}, got)


def check_case(ctx, case):
    if case.get('kind') == 'numfmt':
        check_numfmt(ctx, [[case['bits'], case['precision'], case['compressed']]])
    else:
        check_decl(ctx, ctx.rng)


def worker(ctx):
    rnd = ctx.rng
    check_decl(ctx, rnd)
    first = True
    while not ctx.expired():
        cases = []
        for _ in range(120):
            x = gen_value(rnd)
            b = bits(x)
            for p in range(21):
                c = rnd.random() < 0.5
                cases.append([b, p, c])
        check_numfmt(ctx, cases)
        if first:
            ctx.sample({'value': repr(from_bits(cases[0][0])), 'bits': cases[0][0], 'precision': cases[0][1], 'compressed': cases[0][2]})
            first = False
    ctx.stat('space_completed')
