"""C33 - the CSS text emitted for a colour denotes the computed colour (reference-parser monitor)."""
import re
from .lib import ev, css, gen, colors, colors2 as c2

PROP = 'C33'
LEVEL = 'exploration'
BUDGET = {'quick': 30, 'thorough': 400}
FLOOR = {'quick': 5000, 'thorough': 60000}
RULE = ('colours from every constructor (hex 3/4/6/8, all names, rgb/rgba, hsl/hsla, hwb; integer, fractional, boundary and '
        'clamped inputs) and from 1-3 nested adjustment calls (lighten, darken, saturate, desaturate, adjust-hue, complement, '
        'invert, grayscale, mix, opacify/fade-in, transparentize/fade-out, rgba($c,$a), color.adjust/scale/change in rgb, hsl, '
        'hwb and alpha form) are written as declaration values `a{pN: <colour>}` and compiled in both output styles at '
        'several precisions (0..10).  Each emitted value is decoded by the reference CSS colour parser and compared with '
        'the colour rsass reports through its channel functions (read at precision 12: hue/saturation/lightness converted '
        'by the reference formulas, cross-checked against red/green/blue, whiteness, blackness; alpha): hex, name and '
        '`transparent` may differ by 0.5 per 0..255 channel (they can only carry integers), rgb()/rgba() by 0.5*10^-p per '
        'channel, hsl()/hsla() by what 0.5*10^-p on each of its arguments amounts to in rgb, alpha by 0.5*10^-p (0.5/255 '
        'for 8-digit hex).  Distinct by (expression, style, precision); non-trivial = every emitted value that was judged.')
LEVEL_TEXT = ('Reference-model monitor: an independent CSS colour parser decodes what the real serializer wrote and the '
              'result is compared with the value the real channel functions report, over seeded random colours.')
LEVEL_NOTE = ('Trusted: the reference parser and conversions in monitors/lib/colors.py and the channel functions as the '
              'description of the computed colour.  red/green/blue are only used to +-0.5 (they round); when the hsl '
              'channel functions contradict red/green/blue or whiteness/blackness (a C31 matter) the weaker interval '
              'reference is used.  Colours whose reported saturation/lightness lie outside 0..100% are not judged.')
TECHNIQUE = 'runtime monitoring: emitted colour tokens decoded by a reference CSS colour parser and compared with the channel functions'
ASSUMPTIONS = ['a colour with fractional channels may be emitted as hex/name when it is within 0.5 of the integers',
               'values whose reported saturation, lightness, whiteness or blackness are outside 0..100% (out-of-gamut hsl) are skipped']

FUNCS = ['red', 'green', 'blue', 'hue', 'saturation', 'lightness', 'whiteness', 'blackness', 'alpha']
UNIT = {'red': '', 'green': '', 'blue': '', 'hue': 'deg', 'saturation': '%', 'lightness': '%', 'whiteness': '%',
        'blackness': '%', 'alpha': ''}
PRECISIONS = [0, 1, 2, 3, 4, 5, 6, 8, 10]
_HSLRE = re.compile(r'^hsla?\(\s*([-+.\deE]+)(deg)?\s*,\s*([-+.\deE]+)%\s*,\s*([-+.\deE]+)%\s*(?:,\s*([-+.\deE]+)\s*)?\)$')


def reference(obs):
    """Intervals (lo, hi) for r, g, b and the value of alpha, from the channel functions.  -> (intervals, alpha, how) or None
    when the value is outside the legacy gamut."""
    for f in ('saturation', 'lightness', 'whiteness', 'blackness'):
        if not (-1e-9 <= obs[f] <= 100 + 1e-9):
            return None
    s = min(1.0, max(0.0, obs['saturation'] / 100))
    l = min(1.0, max(0.0, obs['lightness'] / 100))
    rgb = c2.hsl_to_rgb(obs['hue'], s, l)
    mn, mx = obs['whiteness'] / 100 * 255, (1 - obs['blackness'] / 100) * 255
    rounded = (obs['red'], obs['green'], obs['blue'])
    ok = all(abs(rgb[i] - rounded[i]) <= 0.5 + 1e-6 for i in range(3)) and abs(min(rgb) - mn) < 1e-5 and abs(max(rgb) - mx) < 1e-5
    if ok:
        return [(c, c) for c in rgb], obs['alpha'], 'hsl-channels'
    # the channel functions contradict each other: fall back to what red/green/blue say (+-0.5), sharpened by min/max
    iv = []
    for c in rounded:
        lo, hi = max(c - 0.5, mn - 1e-6), min(c + 0.5, mx + 1e-6)
        if lo > hi:
            lo, hi = c - 0.5, c + 0.5
        iv.append((lo, hi))
    return iv, obs['alpha'], 'rounded-rgb-channels'


def form_of(t):
    tl = t.lower()
    if tl.startswith('#'):
        return 'hex%d' % (len(tl) - 1)
    if tl == 'transparent':
        return 'transparent'
    if tl in colors.NAMED:
        return 'name'
    m = re.match(r'^(rgba?|hsla?|hwb)\(', tl)
    return m.group(1) if m else 'other'


def decode(t, p):
    """-> (form, (r,g,b,a), (tol_r, tol_g, tol_b, tol_a)) or (form, None, None) when the text is not a colour."""
    form = form_of(t)
    rgba = colors.parse_css_color(t)
    if rgba is None or form in ('other', 'hwb'):
        return form, None, None
    unit = 0.5 * 10 ** -p
    if form.startswith('hex') or form in ('name', 'transparent'):
        ta = 0.5 / 255 if form in ('hex8', 'hex4') else unit
        return form, rgba, (0.5, 0.5, 0.5, ta)
    if form in ('rgb', 'rgba'):
        return form, rgba, (unit, unit, unit, unit)
    m = _HSLRE.match(t.strip().lower())
    if not m:
        return form, None, None
    h, s, l = float(m.group(1)), float(m.group(3)) / 100, float(m.group(4)) / 100
    if not (0 <= s <= 1 and 0 <= l <= 1):
        return form, 'out-of-gamut', None
    centre = c2.hsl_to_rgb(h, s, l)
    dev = [0.0, 0.0, 0.0]
    for dh in (-unit, 0, unit):
        for ds in (-unit / 100, 0, unit / 100):
            for dl in (-unit / 100, 0, unit / 100):
                c = c2.hsl_to_rgb(h + dh, min(1, max(0, s + ds)), min(1, max(0, l + dl)))
                for i in range(3):
                    dev[i] = max(dev[i], abs(c[i] - centre[i]))
    # rgb is piecewise linear in each argument, so the corners (and the centre lines) bound the box
    return form, rgba, (dev[0] * 1.001, dev[1] * 1.001, dev[2] * 1.001, unit)


def judge_token(ctx, case, style, p, text, ref):
    iv, alpha, how = ref
    form, rgba, tol = decode(text, p)
    key = {'expr': case['expr'], 'style': style, 'precision': p}
    if rgba == 'out-of-gamut':
        ctx.stat('emitted_hsl_out_of_gamut_not_judged')
        return
    pcls = 'precision=0' if p == 0 else 'precision>0'
    if rgba is None:
        ctx.violation('emitted-text-is-not-a-css-colour|%s|%s' % (form, style), dict(case, style=style, precision=p), {'emitted': text[:200]})
        return
    ctx.nontrivial(key)
    ctx.seen('emitted-form', '%s/%s' % (form, style))
    ctx.seen('precision', p)
    ctx.seen('reference-from', how)
    slack = 1e-7
    wrong, worst = [], 0.0
    for i, nm in enumerate(('red', 'green', 'blue')):
        lo, hi = iv[i]
        ex = max(lo - tol[i] - slack - rgba[i], rgba[i] - hi - tol[i] - slack, 0.0)
        if ex > 0:
            wrong.append(nm)
            worst = max(worst, ex + tol[i])
    aw = abs(rgba[3] - alpha) > tol[3] + slack
    if wrong or aw:
        which = '+'.join((['rgb'] if wrong else []) + (['alpha'] if aw else []))
        mag = ('rgb-off-by-1-or-more' if worst >= 1 else 'rgb-off-by-less-than-1') if wrong else 'alpha-only'
        ctx.violation('emitted-%s|%s|%s-differs|%s|%s' % (form, style, which, mag, pcls), dict(case, style=style, precision=p),
                      {'emitted': text, 'decoded': rgba, 'tolerance': tol, 'reference-rgb-intervals': iv, 'reference-alpha': alpha,
                       'reference-from': how})
    else:
        ctx.stat('tokens_agree')


def emit_jobs(cases, style, p):
    body = ''.join('p%d:%s;' % (i, c['expr']) for i, c in enumerate(cases))
    return {'src': gen.USE_ALL + 'a{' + body + '}', 'style': style, 'precision': p}


def read_emitted(ctx, cases, style, p):
    """-> list of emitted value texts (or None) for the cases."""
    r = ctx.compile(**emit_jobs(cases, style, p))
    if r.get('status') == 'ok':
        try:
            decls = css.declarations(css.parse(css.strip_header(r.get('out', ''))))
        except css.ParseProblem:
            decls = []
        vals = {n: v for _, n, v in decls}
        if len(decls) == len(cases) and all('p%d' % i in vals for i in range(len(cases))):
            return [vals['p%d' % i] for i in range(len(cases))]
    if len(cases) == 1:
        if r.get('status') in ('timeout', 'crash', 'harness-error'):
            ctx.undecided('harness:' + r.get('status'))
        elif r.get('status') == 'err':
            ctx.stat('expression_is_an_error')
        return [None]
    out = []
    for c in cases:
        out += read_emitted(ctx, [c], style, p)
    return out


def check_cases(ctx, cases, combos):
    exprs = []
    for c in cases:
        exprs += ['color.%s(%s)' % (f, c['expr']) for f in FUNCS]
    res = ev.evaluate_many(ctx, exprs, precision=12, chunk=18)
    refs = []
    for i, c in enumerate(cases):
        obs = {}
        for f, r in zip(FUNCS, res[9 * i:9 * i + 9]):
            pn = c2.parse_num(r[1]) if r[0] == 'ok' else None
            if pn is None or pn[1] != UNIT[f]:
                obs = None
                break
            obs[f] = pn[0]
        ctx.ran(9)
        if obs is None:
            ctx.stat('channel_functions_unavailable')
            refs.append(None)
            continue
        ref = reference(obs)
        if ref is None:
            ctx.stat('computed_colour_outside_legacy_gamut_not_judged')
        refs.append(ref)
        for f in c.get('funcs', []):
            ctx.seen('functions', f)
        ctx.seen('origin', c.get('origin', ''))
    live = [(c, r) for c, r in zip(cases, refs) if r is not None]
    if not live:
        return
    for style, p in combos:
        texts = read_emitted(ctx, [c for c, _ in live], style, p)
        for (c, ref), t in zip(live, texts):
            ctx.ran()
            if t is None:
                continue
            judge_token(ctx, c, style, p, t, ref)


def check_case(ctx, case):
    c = {k: v for k, v in case.items() if k not in ('style', 'precision')}
    check_cases(ctx, [c], [(case.get('style', 'expanded'), case.get('precision', 10))])


def gen_case(rng):
    x = rng.random()
    if x < 0.45:
        m = c2.gen_color(rng, hostile=rng.random() < 0.3)
        return {'expr': m['expr'], 'origin': m['origin'], 'funcs': []}
    e, fs, base = c2.gen_derived(rng, hostile=rng.random() < 0.15)
    return {'expr': e, 'origin': base['origin'], 'funcs': fs}


def worker(ctx):
    rng = ctx.rng
    # every colour name and its hex forms once per run (sharded): the name/short-hex choice of the serializer
    fixed = []
    for n in c2.NAMES:
        v = colors.NAMED[n]
        fixed.append({'expr': n, 'origin': 'name', 'funcs': []})
        fixed.append({'expr': '#%06x' % v, 'origin': 'hex6', 'funcs': []})
        fixed.append({'expr': 'rgb(%d, %d, %d)' % (v >> 16, (v >> 8) & 255, v & 255), 'origin': 'rgb', 'funcs': []})
    fixed += [{'expr': e, 'origin': 'rgb', 'funcs': []} for e in ('transparent', 'rgba(0, 0, 0, 0)', 'rgba(red, 0)', '#0000', '#00000000')]
    mine = [c for i, c in enumerate(fixed) if i % ctx.nshards == ctx.shard]
    for i in range(0, len(mine), 20):
        check_cases(ctx, mine[i:i + 20], [('expanded', 10), ('compressed', 10), ('compressed', 0)])
    ctx.stat('names_completed')
    first = True
    while not ctx.expired():
        cases = [gen_case(rng) for _ in range(20)]
        ps = rng.sample(PRECISIONS, 3)
        combos = [(s, p) for p in ps for s in ('expanded', 'compressed')]
        check_cases(ctx, cases, combos)
        if first:
            ctx.sample({'expr': cases[0]['expr'], 'combos': combos})
            first = False
