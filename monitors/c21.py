"""C21 - evaluated content is never silently dropped (marker programs, reached @error, dropped-item events)."""
import re

PROP = 'C21'
LEVEL = 'exploration'
BUDGET = {'quick': 25, 'thorough': 400}
FLOOR = {'quick': 1500, 'thorough': 50000}
RULE = ('generated programs (depth <= 4) that place numbered markers - declarations `mkN: N`, body-less at-rules `@mark mkN;`, '
        'at-rules with a body, loud comments `/* mkN */` - in every container kind: style rules, nested rules, nested property blocks, '
        '@media/@supports/unknown at-rules, @font-face, @keyframes, @at-root, mixin bodies, @content blocks, @if/@else/@each/@for '
        'bodies, and files loaded by @use, @import (top level and nested in a rule) and meta.load-css; containers are also combined '
        'in ways Sass rejects (at-rules, rules and comments inside a nested property block, declarations at the root) because '
        '"appears or fails" must hold there too; rules whose selector is a placeholder contain @at-root, @font-face, @keyframes '
        '(which escape the selector and must appear) and @error (which must fail) '
        '"appears or fails" must hold there too.  In a third of the programs one reached statement position holds an @error.  The '
        'model computes how often evaluation reaches every marker (loop multiplicities, dead @if branches).  Distinct by program text; '
        'non-trivial = at least one marker is reached inside two or more nested containers.  Oracle: status ok => every reached marker '
        'occurs in the output at least as often as it is reached, and no dropped-item event was logged; a reached @error => status err.')
LEVEL_TEXT = ('Reference-model monitor: a reachability/multiplicity model of the generated program predicts which markers evaluation '
              'reaches; the output (expanded style) is searched for them, and the hook in the three destination Drop impls reports '
              'items that were discarded while the compilation still succeeded.')
LEVEL_NOTE = ('Trusted: the reachability model (constant conditions, fixed loop counts), marker search by text.  Programs avoid what Sass '
              'legitimately omits: placeholders, null values, empty rules, compressed style, comments in functions.')
TECHNIQUE = 'runtime monitoring: marker-conservation oracle over generated programs plus dropped-item events from hooks'

ROOT, RULE, PROP_CTX, FONT, PH, PHROOT = 'root', 'rule', 'propblock', 'fontface', 'placeholder-rule', 'at-root-below-placeholder'


class G:
    def __init__(self, rng):
        self.rng = rng
        self.n = 0
        self.mixins = []     # hoisted definitions per file
        self.files = {}
        self.uses = []
        self.markers = []    # (id, kind, path tuple, multiplicity)
        self.error = None    # (id, path, multiplicity)
        self.want_error = rng.random() < 0.33
        self.file_mult = 1   # how often the file being generated is executed
        self.under_ph = 0    # > 0 while generating below a rule whose selector is a placeholder

    def nid(self):
        self.n += 1
        return self.n

    def marker(self, ctx, path, mult):
        r = self.rng
        kinds = ['atmark', 'comment', 'bodymark']
        if ctx == PH:
            kinds = ['decl', 'atmark', 'comment']
        if ctx == FONT and self.under_ph:
            kinds = ['decl']          # an at-rule with a rule inside would get the placeholder selector again
        if ctx == PHROOT:
            # rsass keeps body-less at-rules and comments of an @at-root block in the enclosing (placeholder) rule; only style
            # rules and what is inside them certainly escape
            kinds = ['bodymark']
        if ctx in (RULE, PROP_CTX, FONT):
            kinds += ['decl', 'decl', 'decl']
        if ctx == ROOT and r.random() < 0.08:
            kinds.append('decl')                      # a declaration at the root: Sass rejects it; dropping it silently is not allowed either
        k = r.choice(kinds)
        i = self.nid()
        if self.want_error and self.error is None and mult > 0 and r.random() < 0.15:
            self.error = (i, path, mult)
            return '@error "e%d";' % i
        # what stands directly in a rule whose selector is a placeholder is legitimately omitted: not expected in the output
        self.markers.append((i, k, path, 0 if ctx == PH else mult))
        if k == 'decl':
            return 'mk%d: %d;' % (i, i)
        if k == 'atmark':
            return '@mark mk%d;' % i
        if k == 'comment':
            return '/* mk%d */' % i
        inner = 'mk%d: %d;' % (i, i) if ctx in (RULE, PROP_CTX, PH) else '.b%d { mk%d: %d; }' % (i, i, i)
        return '@media (min-width: %dpx) { %s }' % (i, inner)

    def body(self, ctx, path, mult, depth):
        r = self.rng
        out = []
        for _ in range(r.randint(1, 3)):
            if depth < 4 and r.random() < 0.6:
                out.append(self.container(ctx, path, mult, depth))
            else:
                out.append(self.marker(ctx, path, mult))
        return ' '.join(out)

    def container(self, ctx, path, mult, depth):
        r = self.rng
        opts = ['if-true', 'if-false', 'else', 'each', 'for', 'mixin', 'content', 'load-css', 'media', 'supports', 'unknown']
        if ctx in (ROOT, RULE):
            opts += ['rule', 'rule', 'rule', 'import', 'ph-rule']
        if ctx == PH:
            # only what escapes the placeholder selector (or must fail) is interesting below a placeholder rule
            opts = ['at-root', 'at-root', 'font-face', 'keyframes', 'if-true', 'each', 'mixin', 'content']
        if ctx == PHROOT:
            opts = ['rule', 'rule', 'media', 'supports', 'if-true', 'each', 'mixin', 'content']
        if ctx == RULE:
            opts += ['prop', 'prop', 'at-root']
        if ctx == PROP_CTX:
            opts += ['prop', 'rule']
        if ctx == ROOT:
            opts += ['font-face', 'keyframes', 'use']
        if ctx == FONT:
            opts = ['if-true', 'each', 'mixin']
        k = r.choice(opts)
        p = path + (k,)
        d = depth + 1
        i = self.nid()
        if k == 'rule':
            sel = r.choice(['.c%d' % i, '&.c%d' % i if ctx == RULE else '.c%d' % i, 'a.c%d, b.c%d' % (i, i), '> .c%d' % i if ctx == RULE else 'p.c%d' % i])
            return '%s { %s }' % (sel, self.body(RULE, p, mult, d))
        if k == 'ph-rule':
            self.under_ph += 1
            try:
                return '%s { %s }' % (r.choice(['%%ph%d' % i, '%%ph%d, %%qh%d' % (i, i), '.c%d %%ph%d' % (i, i)]), self.body(PH, p, mult, d))
            finally:
                self.under_ph -= 1
        if k == 'prop':
            return 'p%d: { %s }' % (i, self.body(PROP_CTX, p, mult, d))
        if k == 'media':
            return '@media (min-width: %dpx) { %s }' % (i, self.body(ctx, p, mult, d))
        if k == 'supports':
            return '@supports (display: grid) { %s }' % self.body(ctx, p, mult, d)
        if k == 'unknown':
            return '@foo bar%d { %s }' % (i, self.body(ctx, p, mult, d))
        if k == 'font-face':
            return '@font-face { %s }' % self.body(FONT, p, mult, d)
        if k == 'keyframes':
            return '@keyframes k%d { from { %s } 50%% { %s } }' % (i, self.body(FONT, p, mult, 4), self.body(FONT, p, mult, 4))
        if k == 'at-root':
            return '@at-root { %s }' % self.body(PHROOT if ctx in (PH, PHROOT) else ROOT, p, mult, d)
        if k == 'if-true':
            return '@if 1 < 2 { %s }' % self.body(ctx, p, mult, d)
        if k == 'if-false':
            return '@if 1 > 2 { %s }' % self.body(ctx, p, 0, d)
        if k == 'else':
            return '@if null { %s } @else if false { %s } @else { %s }' % (self.body(ctx, p, 0, d), self.body(ctx, p, 0, d), self.body(ctx, p, mult, d))
        if k == 'each':
            return '@each $e%d in x y { %s }' % (i, self.body(ctx, p, mult * 2, d))
        if k == 'for':
            return '@for $f%d from 1 through 3 { %s }' % (i, self.body(ctx, p, mult * 3, d))
        if k == 'mixin':
            twice = r.random() < 0.3
            self.mixins.append('@mixin mx%d { %s }' % (i, self.body(ctx, p, mult * (2 if twice else 1), d)))
            return '@include mx%d;%s' % (i, ' @include mx%d;' % i if twice else '')
        if k == 'content':
            self.mixins.append('@mixin cx%d { @content; }' % i)
            return '@include cx%d { %s }' % (i, self.body(ctx, p, mult, d))
        # loaded files: generated at their own root, definitions hoisted inside that file
        name = 'f%d' % i
        saved, self.mixins = self.mixins, []
        saved_uses, self.uses = self.uses, []
        saved_fm = self.file_mult
        # a used module runs once if the using file runs at all (the @use is hoisted to the top of that file)
        self.file_mult = mult if k != 'use' else (1 if saved_fm > 0 else 0)
        text = self.body(ROOT, p, self.file_mult, d)
        self.files['_%s.scss' % name] = '\n'.join(self.uses + self.mixins + [text]) + '\n'
        self.mixins, self.uses, self.file_mult = saved, saved_uses, saved_fm
        if k == 'use':
            self.uses.append('@use "%s";' % name)
            return ''
        if k == 'import':
            return '@import "%s";' % name
        return '@include meta.load-css("%s");' % name

    def program(self):
        text = self.body(ROOT, (), 1, 0)
        main = '\n'.join(['@use "sass:meta";'] + self.uses + self.mixins + [text]) + '\n'
        for k in list(self.files):
            if 'meta.load-css' in self.files[k]:
                self.files[k] = '@use "sass:meta";\n' + self.files[k]
        self.files['main.scss'] = main
        return {'files': self.files, 'markers': [list(m[:2]) + [list(m[2]), m[3]] for m in self.markers],
                'error': [self.error[0], list(self.error[1]), self.error[2]] if self.error else None}


def gen_case(rng):
    for _ in range(20):
        g = G(rng)
        c = g.program()
        if c['markers'] or c['error']:
            return c
    return c


def check_case(ctx, case):
    judge(ctx, case, ctx.compile(files=case['files'], entry='main.scss', style='expanded'))


def judge(ctx, case, r):
    ctx.ran()
    st = r.get('status')
    if st in ('timeout', 'crash', 'harness-error', 'panic'):
        ctx.undecided(str(st))
        return
    deep = [m for m in case['markers'] if m[3] > 0 and len(m[2]) >= 2]
    if deep or (case['error'] and len(case['error'][1]) >= 2):
        ctx.nontrivial(case['files'])
    ctx.stat('status:' + st)
    dropped = [e for e in r.get('events', []) if e[1] == 'dropped']
    for m in case['markers']:
        if m[3] > 0:
            ctx.seen('marker_sites', '%s in %s' % (m[1], '>'.join(m[2][-2:]) or 'root'))
    if case['error']:
        eid, path, mult = case['error']
        ctx.seen('error_sites', '>'.join(path[-2:]) or 'root')
        if st == 'ok':
            ctx.violation('error-reached|site=%s|observed=ok' % ('>'.join(path[-2:]) or 'root'), case,
                          {'error': 'e%d' % eid, 'out': r.get('out', '')[:400]})
        return
    if st != 'ok':
        ctx.stat('fails_without_@error')
        return
    out = r.get('out', '')
    if dropped:
        ctx.violation('dropped-event|dest=%s|status=ok' % dropped[0][2], case, {'events': dropped[:4], 'out': out[:400]})
        return
    found = {}
    for m in re.finditer(r'mk(\d+)(?!\d)', out):
        found[int(m.group(1))] = found.get(int(m.group(1)), 0) + 1
    for i, kind, path, mult in case['markers']:
        if mult == 0:
            continue
        have = found.get(i, 0)
        per = 1
        if have < mult * per:
            ctx.violation('marker-missing|marker=%s|site=%s|observed=%s' % (kind, '>'.join(path[-3:]) or 'root', 'absent' if have == 0 else 'fewer-than-reached'),
                          case, {'marker': 'mk%d' % i, 'reached': mult, 'found': have, 'out': out[:600]})
            return


def worker(ctx):
    first = True
    while not ctx.expired():
        cs = [gen_case(ctx.rng) for _ in range(100)]
        if first:
            c = cs[0]
            ctx.sample({'files': c['files'], 'markers': c['markers'][:5], 'error': c['error']})
            first = False
        res = ctx.batch([{'files': c['files'], 'entry': 'main.scss', 'style': 'expanded'} for c in cs])
        for c, r in zip(cs, res):
            judge(ctx, c, r)
