"""C30 - calc()/min()/max()/clamp() simplify soundly (reference calculator, semantic comparison under random assignments)."""
import math, random, re
from fractions import Fraction as F
from .lib import ev
from . import c11

PROP = 'C30'
LEVEL = 'exploration'
BUDGET = {'quick': 25, 'thorough': 300}
FLOOR = {'quick': 3000, 'thorough': 30000}
RULE = ('typed random calculation trees with 1..5 binary operators (+ - * /, required and redundant parentheses, nested calc(), '
        'nested min()/max()/clamp()) over unitless numbers, absolute lengths (px in pt pc cm mm Q), relative units (em rem % vw), '
        'unknown units (foo bar), var(--x) and identifiers; a tree is well typed when sums and min/max/clamp arguments have operands '
        'of the same kind (all lengths or all plain numbers; var() and identifiers fit anywhere), a product has a plain-number '
        'factor and a divisor is a plain number (or two lengths of one unit group).  Every tree with at least one operator or '
        'function is non-trivial; distinct by source text.  Oracle: (a) no var()/identifier and all units in one fixed-ratio group '
        '(or all the same unit): the output must be a single number, equal to the reference value; (b) otherwise the output may be a '
        'number or a calculation, and in every case it must be semantically equal to the source tree: both are evaluated by a '
        'reference calculator under 6 random assignments (px gets a random factor, the other absolute lengths follow by their fixed '
        'ratios, every relative/unknown unit, var() and identifier gets its own random value) and must agree to 1e-9 relative to the '
        'magnitude of the terms; assignments with a near-zero divisor or non-finite value are skipped.  A failing tree is shrunk to a '
        'minimal failing tree (same failure class) and the signature is the abstract shape of that minimal tree.')
LEVEL_TEXT = ('Reference-model monitor: the emitted text of every generated calculation is parsed by an independent calc parser and '
              'compared, as a function of its free symbols, with the value of the source tree.')
LEVEL_NOTE = ('Trusted: the tree renderer (parenthesises by precedence), the output parser/evaluator, the C11 ratio table.  Equality is tested at '
              '6 random points, which cannot miss a difference between two distinct rational functions except on a null set.')
TECHNIQUE = 'runtime monitoring: generated calculation trees, emitted text evaluated by a reference calculator under random assignments'
ASSUMPTIONS = [
    'a unitless number is never added to or compared with a number that has a unit (dart-sass rejects it, Sass arithmetic accepts it)',
    'units of different dimensions (px with s) are not generated; all units used are possibly compatible in CSS',
    'a calculation that stays a calculation may be partially simplified in any sound way; a calculation that does not depend on its '
    'free symbols may be emitted as a number',
    'an error for a well-typed tree counts as not emitting the calculation',
    'clamp() whose value exceeds a lower bound that exceeds the upper bound is not asserted (css-values says the lower bound wins, dart-sass returns the upper bound)',
    'numerals inside an emitted calculation are taken to be rounded to 10 decimals: the comparison allows the propagated rounding error',
]

PREC = 13
ABS = c11.GROUPS['abs-length']
REL_UNITS = ['em', 'rem', '%', 'vw']
UNK_UNITS = ['foo', 'bar']
VARS = ['--x', '--y']
IDENTS = ['a', 'bb', 'zed']
NASSIGN = 6


# ---------------------------------------------------------------- trees
# ['num', text, unit] | ['var', name] | ['id', name] | [op, L, R] | ['min'|'max'|'clamp', [args]] | ['paren', X] | ['calc', X]
def is_leaf(t):
    return t[0] in ('num', 'var', 'id')


def children(t):
    if is_leaf(t):
        return []
    if t[0] in ('min', 'max', 'clamp'):
        return list(t[1])
    if t[0] in ('paren', 'calc'):
        return [t[1]]
    return [t[1], t[2]]


def with_children(t, cs):
    if t[0] in ('min', 'max', 'clamp'):
        return [t[0], list(cs)]
    if t[0] in ('paren', 'calc'):
        return [t[0], cs[0]]
    return [t[0], cs[0], cs[1]]


def leaves(t):
    if is_leaf(t):
        return [t]
    return [l for c in children(t) for l in leaves(c)]


def count_ops(t):
    if is_leaf(t):
        return 0
    return (1 if t[0] in '+-*/' or t[0] in ('min', 'max', 'clamp') else 0) + sum(count_ops(c) for c in children(t))


def typeof(t):
    """0 plain number, 1 length-like, None fits anywhere (var, identifier); raises ValueError for an ill-typed tree"""
    k = t[0]
    if k == 'num':
        return 1 if t[2] else 0
    if k in ('var', 'id'):
        return None
    if k in ('paren', 'calc'):
        return typeof(t[1])
    if k in ('min', 'max', 'clamp'):
        ts = set(typeof(c) for c in t[1]) - {None}
        if len(ts) > 1 or (k == 'clamp' and len(t[1]) != 3) or not t[1]:
            raise ValueError('mixed kinds in ' + k)
        return ts.pop() if ts else None
    a, b = typeof(t[1]), typeof(t[2])
    if k in '+-':
        if a is not None and b is not None and a != b:
            raise ValueError('sum of different kinds')
        return a if a is not None else b
    if k == '*':
        if a == 0:
            return b
        if b == 0:
            return a
        if a is None or b is None:                    # var() or an identifier as a factor (only the shrinker makes these)
            return a if a is not None else b
        raise ValueError('product without a plain-number factor')
    if k == '/':
        if b == 0 or b is None:
            return a
        if a == 1 and b == 1 and t[1][0] == 'num' and t[2][0] == 'num' and unit_group(t[1][2]) == unit_group(t[2][2]):
            return 0
        raise ValueError('divisor is not a plain number')
    raise ValueError(k)


def unit_group(u):
    u = u.lower()
    if u in ABS:
        return 'abs-length'
    return u


PRECEDENCE = {'+': 1, '-': 1, '*': 2, '/': 2}


def render_in(t):
    """text of a tree as an operand inside a calculation"""
    k = t[0]
    if k == 'num':
        return t[1] + c11.SPELL.get(t[2], t[2])
    if k == 'var':
        return 'var(%s)' % t[1]
    if k == 'id':
        return t[1]
    if k == 'paren':
        return '(%s)' % render_in(t[1])
    if k == 'calc':
        return 'calc(%s)' % render_in(t[1])
    if k in ('min', 'max', 'clamp'):
        return '%s(%s)' % (k, ', '.join(render_in(c) for c in t[1]))
    p = PRECEDENCE[k]
    l, r = t[1], t[2]
    ls, rs = render_in(l), render_in(r)
    if l[0] in PRECEDENCE and PRECEDENCE[l[0]] < p:
        ls = '(%s)' % ls
    if r[0] in PRECEDENCE and (PRECEDENCE[r[0]] < p or (PRECEDENCE[r[0]] == p and k in '-/') or (PRECEDENCE[r[0]] == p and r[0] != k)):
        rs = '(%s)' % rs
    return '%s %s %s' % (ls, k, rs)


def render(t):
    if t[0] in ('min', 'max', 'clamp', 'calc'):
        return render_in(t)
    return 'calc(%s)' % render_in(t)


# ---------------------------------------------------------------- evaluation (reference calculator)
class Skip(Exception):
    pass


def make_assignment(rng):
    return {'px': rng.uniform(0.5, 3.0), 'units': {}, 'syms': {}, 'rng': rng}


def unit_factor(asg, u):
    u = u.lower()
    if u == '':
        return 1.0
    if u in ABS:
        return float(ABS[u]) * asg['px']
    if u not in asg['units']:
        asg['units'][u] = asg['rng'].uniform(0.3, 20.0)
    return asg['units'][u]


def sym_value(asg, name):
    if name not in asg['syms']:
        asg['syms'][name] = asg['rng'].uniform(-10.0, 10.0)
    return asg['syms'][name]


CONSTS = {'pi': math.pi, 'e': math.e, 'infinity': float('inf'), '-infinity': float('-inf'), 'nan': float('nan')}


PRINT_EPS = 0.5e-10      # a numeral inside an emitted calculation is rounded to 10 decimals (whatever the precision option says)


def evaluate(t, asg, eps=0.0):
    """-> (value, magnitude, error bound): magnitude bounds the size of the terms (for the comparison tolerance); the error bound
    propagates an absolute rounding error `eps` of every numeral (0 for the source tree, PRINT_EPS for emitted text)"""
    k = t[0]
    if k == 'num':
        f = unit_factor(asg, t[2])
        v = float(F(t[1])) * f
        return v, abs(v), eps * f
    if k == 'var':
        v = sym_value(asg, 'var(%s)' % t[1])
        return v, abs(v), 0.0
    if k == 'id':
        if t[1].lower() in CONSTS:
            v = CONSTS[t[1].lower()]
        else:
            v = sym_value(asg, t[1])
        return v, abs(v), 0.0
    if k in ('paren', 'calc'):
        return evaluate(t[1], asg, eps)
    if k == 'neg':
        v, m, e = evaluate(t[1], asg, eps)
        return -v, m, e
    if k in ('min', 'max', 'clamp'):
        vs = [evaluate(c, asg, eps) for c in t[1]]
        vals = [x[0] for x in vs]
        mag = max(x[1] for x in vs)
        err = max(x[2] for x in vs)
        if any(math.isnan(v) for v in vals):
            raise Skip('nan')
        # a selection that hangs on nearly equal operands is not decidable at the comparison tolerance
        srt = sorted(vals)
        for x, y in zip(srt, srt[1:]):
            if x != y and abs(x - y) <= 1e-7 * max(mag, 1e-300):
                raise Skip('near-tie in min/max')
        if k == 'min':
            return min(vals), mag, err
        if k == 'max':
            return max(vals), mag, err
        if len(vals) != 3:
            raise Skip('clamp arity')
        if vals[0] > vals[2] and vals[1] > vals[0]:
            # css-values: the lower bound wins; dart-sass: value <= min -> min, value <= max -> value, else max.  The two differ
            # exactly when the value exceeds a lower bound that exceeds the upper bound: not asserted
            raise Skip('clamp with value > min > max')
        return max(vals[0], min(vals[1], vals[2])), mag, err
    (a, ma, ea), (b, mb, eb) = evaluate(t[1], asg, eps), evaluate(t[2], asg, eps)
    if k == '+':
        return a + b, ma + mb, ea + eb
    if k == '-':
        return a - b, ma + mb, ea + eb
    if k == '*':
        return a * b, ma * mb, abs(a) * eb + abs(b) * ea + ea * eb
    if k == '/':
        if abs(b) <= 1e-4 * mb or mb == 0 or abs(b) < 1e-9 or abs(b) <= 4 * eb:
            raise Skip('near-zero divisor')
        return a / b, ma / abs(b), (ea + abs(a / b) * eb) / (abs(b) - eb)
    raise ValueError(k)


# ---------------------------------------------------------------- parser for emitted calc text
_TOK = re.compile(r'\s*(?:(?P<num>(?:\d+\.?\d*|\.\d+)(?:[eE][+-]?\d+)?)(?P<unit>%|[a-zA-Z][a-zA-Z0-9]*)?'
                  r'|(?P<var>var\(\s*--[A-Za-z0-9_-]+\s*\))'
                  r'|(?P<func>(?:calc|min|max|clamp))\('
                  r'|(?P<id>-?[A-Za-z_][A-Za-z0-9_]*(?:-[A-Za-z_][A-Za-z0-9_]*)*)'
                  r'|(?P<op>[-+*/(),]))')


class ParseError(Exception):
    pass


def tokenize(s):
    toks, i = [], 0
    s = s.strip()
    while i < len(s):
        m = _TOK.match(s, i)
        if not m or m.end() == i:
            raise ParseError('cannot tokenize at %r' % s[i:i + 20])
        for kind in ('num', 'var', 'func', 'id', 'op'):
            if m.group(kind) is not None:
                if kind == 'num':
                    toks.append(('num', m.group('num'), m.group('unit') or ''))
                else:
                    toks.append((kind, m.group(kind)))
                break
        i = m.end()
    return toks


class Parser:
    def __init__(self, toks):
        self.t, self.i = toks, 0

    def peek(self):
        return self.t[self.i] if self.i < len(self.t) else ('end', '')

    def take(self):
        tok = self.peek()
        self.i += 1
        return tok

    def expect_op(self, c):
        tok = self.take()
        if tok[0] != 'op' or tok[1] != c:
            raise ParseError('expected %r, got %r' % (c, tok))

    def sum(self):
        left = self.product()
        while self.peek()[0] == 'op' and self.peek()[1] in '+-':
            op = self.take()[1]
            left = [op, left, self.product()]
        return left

    def product(self):
        left = self.unary()
        while self.peek()[0] == 'op' and self.peek()[1] in '*/':
            op = self.take()[1]
            left = [op, left, self.unary()]
        return left

    def unary(self):
        tok = self.take()
        if tok[0] == 'num':
            return ['num', tok[1], tok[2].lower()]
        if tok[0] == 'var':
            return ['var', re.sub(r'\s+', '', tok[1])[4:-1]]
        if tok[0] == 'id':
            if tok[1].lower() == '-infinity':
                return ['id', '-infinity']
            if tok[1].startswith('-'):
                return ['neg', ['id', tok[1][1:]]]
            return ['id', tok[1]]
        if tok[0] == 'func':
            args = [self.sum()]
            while self.peek() == ('op', ','):
                self.take()
                args.append(self.sum())
            self.expect_op(')')
            if tok[1] == 'calc':
                if len(args) != 1:
                    raise ParseError('calc with %d arguments' % len(args))
                return ['calc', args[0]]
            return [tok[1], args]
        if tok == ('op', '('):
            e = self.sum()
            self.expect_op(')')
            return ['paren', e]
        if tok[0] == 'op' and tok[1] in '+-':
            e = self.unary()
            if e[0] == 'num' and not e[1].startswith(('-', '+')):
                return ['num', ('-' if tok[1] == '-' else '') + e[1], e[2]]
            return ['neg', e] if tok[1] == '-' else e
        raise ParseError('unexpected %r' % (tok,))


def parse_output(text):
    toks = tokenize(text)
    p = Parser(toks)
    e = p.sum()
    if p.peek()[0] != 'end':
        raise ParseError('trailing %r' % (p.peek(),))
    return e


# ---------------------------------------------------------------- the oracle
def classify(tree):
    """('numeric', group) when every leaf is a number and all units lie in one fixed-ratio group; else ('symbolic', kinds)"""
    ls = leaves(tree)
    kinds = set()
    groups = set()
    for l in ls:
        if l[0] == 'var':
            kinds.add('var')
        elif l[0] == 'id':
            kinds.add('identifier')
        elif l[2]:
            groups.add(unit_group(l[2]))
    if len(groups) > 1:
        kinds.add('incompatible-units')
    if not kinds:
        return 'numeric', (groups.pop() if groups else 'unitless')
    return 'symbolic', '+'.join(sorted(kinds))


def judge_text(tree, aseed, st, text, nassign=NASSIGN):
    """-> None when the observation agrees with the oracle, ('skip', why) when nothing can be said, else (failure class, detail)"""
    if st == 'err':
        return ('error', text.split('\n')[0][:200])
    if st != 'ok':
        return ('skip', 'status-' + str(st))
    cls, _ = classify(tree)
    try:
        out = parse_output(text)
    except (ParseError, RecursionError) as e:
        return ('garbled-output', '%s: %s' % (text[:200], e))
    plain = out[0] == 'num'
    if cls == 'numeric' and not plain:
        # a calculation whose constant value is not finite may stay a calculation (calc(infinity))
        try:
            v = evaluate(tree, make_assignment(random.Random(aseed)))[0]
            if math.isinf(v) or math.isnan(v):
                return ('skip', 'non-finite value')
        except Skip as e:
            return ('skip', str(e))
        except (OverflowError, ZeroDivisionError):
            return ('skip', 'overflow')
        return ('not-simplified', text[:200])
    src_syms = set(('id', l[1]) if l[0] == 'id' else ('var', l[1]) if l[0] == 'var' else ('unit', unit_group(l[2])) for l in leaves(tree))
    out_syms = set(('id', l[1]) if l[0] == 'id' else ('var', l[1]) if l[0] == 'var' else ('unit', unit_group(l[2])) for l in leaves(out))
    out_syms = set(s for s in out_syms if not (s[0] == 'id' and s[1].lower() in CONSTS))
    foreign = out_syms - src_syms - {('unit', '')}
    compared = 0
    rng = random.Random(aseed)
    for _ in range(nassign * 3):
        if compared >= nassign:
            break
        asg = make_assignment(rng)
        try:
            v1, m1, _ = evaluate(tree, asg)
            if math.isinf(v1) or math.isnan(v1):
                continue
            v2, m2, e2 = evaluate(out, asg, PRINT_EPS)
        except Skip:
            continue
        except (OverflowError, ZeroDivisionError):
            continue
        compared += 1
        if math.isnan(v2) or math.isinf(v2) or abs(v1 - v2) > 1e-9 * max(m1, abs(v1)) + 1.5 * e2 + 1e-12:
            why = 'garbled-output' if foreign else 'different-value'
            return (why, {'emitted': text[:200], 'source_value': v1, 'emitted_value': v2, 'rounding_allowance': e2,
                          'assignment': {'px': asg['px'], 'units': asg['units'], 'symbols': asg['syms']}})
    if compared == 0:
        return ('skip', 'no usable assignment')
    return None


# ---------------------------------------------------------------- shrinking and signatures
def leaf_kind(l):
    if l[0] == 'var':
        return 'var'
    if l[0] == 'id':
        return 'ident'
    if not l[2]:
        return 'number'
    g = unit_group(l[2])
    return 'abs' if g == 'abs-length' else 'rel' if g in REL_UNITS else 'unknown-unit'


KIND_RANK = {'number': 0, 'abs': 1, 'rel': 2, 'unknown-unit': 3, 'var': 4, 'ident': 5}
CANON = [('number', ['num', '2', '']), ('abs', ['num', '2', 'px']), ('rel', ['num', '2', 'em']), ('rel', ['num', '2', '%']),
         ('unknown-unit', ['num', '2', 'foo']), ('var', ['var', '--x'])]


def strip(t):
    while t[0] in ('paren', 'calc'):
        t = t[1]
    return t


def node_kind(t):
    if is_leaf(t):
        return 'operand'
    return {'+': 'sum', '-': 'sum', '*': 'mul', '/': 'div', 'min': 'fn', 'max': 'fn', 'clamp': 'fn', 'paren': 'paren', 'calc': 'calc'}[t[0]]


def ident_context(t, parent='top'):
    """kind of the nearest operator around the first identifier leaf"""
    if t[0] == 'id':
        return parent
    if is_leaf(t):
        return None
    k = node_kind(t)
    for c in children(t):
        r = ident_context(c, parent if k in ('paren', 'calc') else k)
        if r:
            return r
    return None


def family(t):
    """names the construct at the root of a minimal failing tree, in terms of the source only"""
    kinds = set(leaf_kind(l) for l in leaves(t))
    if 'ident' in kinds:
        c = ident_context(t)
        return 'identifier-operand-of-' + c
    k = node_kind(t)
    if k == 'fn':
        args = t[1]
        if any(is_leaf(strip(x)) and leaf_kind(strip(x)) == 'unknown-unit' for x in args):
            return 'fn-with-unknown-unit-operand'
        if any(node_kind(strip(x)) in ('sum', 'mul', 'div') for x in args):
            return 'fn-with-operation-argument'
        if any(node_kind(x) in ('paren', 'calc') for x in args):
            return 'fn-with-parenthesized-operand'
        if any(node_kind(x) == 'fn' for x in args):
            return 'fn-with-fn-argument'
        return 'fn-of-plain-operands'
    if k in ('paren', 'calc'):
        n, x = 0, t
        while x[0] in ('paren', 'calc'):
            n, x = n + 1, x[1]
        # (the top-level calc( of the rendering is one more pair of parentheses)
        return 'nested-parentheses' if n >= 2 else 'parenthesized-' + node_kind(x)
    # left, right: which side it is matters; an operand wrapped in calc() or in doubled parentheses is its own kind
    parts = [node_kind(t[1]), node_kind(t[2])]
    return '%s(%s)' % (k, ','.join(parts))


def signature(small, failure):
    """failure class | construct at the root of the minimal failing tree | class of its operands (all from the source side)"""
    fam = family(small)
    cls, sub = classify(small)
    if fam.startswith('identifier-'):
        # an identifier operand spoils the output in several ways (glued text, error); one class
        failure = 'error' if failure == 'error' else 'wrong-output'
        ops = 'identifier'
    elif cls == 'numeric':
        ops = 'numeric'
    elif fam.startswith('fn-') or fam.startswith('nested-') or failure == 'garbled-output':
        ops = 'symbolic'
    else:
        ops = sub
    return 'failure=%s|minimal=%s|operands=%s' % (failure, fam, ops)


def shrink_candidates(t):
    """smaller trees: a child in place of the node, at every position"""
    out = []
    if is_leaf(t):
        return out
    cs = children(t)
    for c in cs:
        out.append(c)
    if t[0] in ('min', 'max') and len(cs) > 1:
        for i in range(len(cs)):
            out.append([t[0], cs[:i] + cs[i + 1:]])
    if t[0] == 'clamp':
        out.append(['max', cs[:2]])
        out.append(['max', cs[1:]])
    for i, c in enumerate(cs):
        if not is_leaf(c):
            for _, repl in CANON:                      # a whole operand replaced by a plain leaf of some kind
                out.append(with_children(t, cs[:i] + [list(repl)] + cs[i + 1:]))
        for c2 in shrink_candidates(c):
            out.append(with_children(t, cs[:i] + [c2] + cs[i + 1:]))
    return out


def size(t):
    return 1 + sum(size(c) for c in children(t))


def replace_leaf(t, index, new, counter=None):
    """the tree with its index-th leaf (left to right) replaced"""
    counter = counter if counter is not None else [0]
    if is_leaf(t):
        i = counter[0]
        counter[0] += 1
        return new if i == index else t
    return with_children(t, [replace_leaf(c, index, new, counter) for c in children(t)])


def plainer_leaves(t):
    """candidates in which one leaf has a plainer kind (number < px < em/% < foo < var() < identifier)"""
    out = []
    for i, l in enumerate(leaves(t)):
        r = KIND_RANK[leaf_kind(l)]
        for kind, repl in CANON:
            if KIND_RANK[kind] < r:
                out.append(replace_leaf(t, i, list(repl)))
    return out


def plain_values(t):
    """one candidate in which the numbers are 2, 3, 5, ... from left to right"""
    plain = ['2', '3', '5', '7', '11', '13', '17']
    if all(l[0] != 'num' or l[1] in plain for l in leaves(t)):
        return []
    it = iter(plain)

    def rebuild(n):
        if n[0] == 'num':
            return ['num', next(it, '19'), n[2]]
        if is_leaf(n):
            return n
        return with_children(n, [rebuild(c) for c in children(n)])
    return [rebuild(t)]


def well_typed(t):
    try:
        typeof(t)
        return True
    except ValueError:
        return False


_OBS_CACHE = {}


def observe_many(ctx, trees):
    """observations of several trees (cached by source text: the shrinker meets the same small trees again and again)"""
    texts = [render(t) for t in trees]
    todo = sorted(set(x for x in texts if x not in _OBS_CACHE))
    if todo:
        res = ev.evaluate_many(ctx, todo, inspect=False, precision=PREC, prelude='', chunk=12)
        if len(_OBS_CACHE) > 200000:
            _OBS_CACHE.clear()
        for x, r in zip(todo, res):
            _OBS_CACHE[x] = r
    return [_OBS_CACHE[x] for x in texts]


def observe_one(ctx, tree):
    return observe_many(ctx, [tree])[0]


def subtrees(t):
    out = []
    for c in children(t):
        out.append(c)
        out.extend(subtrees(c))
    return out


def shrink(ctx, tree, aseed, failure):
    """1. the smallest sub-tree that fails in the same class; 2. greedily: a child in place of a node, plain values, plainer
    operand kinds - each step only if the failure class stays the same"""
    budget = [4000]          # candidate evaluations (most are answered from the cache of observations)
    cur = tree

    def failing(cands):
        """the candidates that fail in the same class (one batch)"""
        cands = cands[:max(budget[0], 0)]
        budget[0] -= len(cands)
        out = []
        for c, (st, text) in zip(cands, observe_many(ctx, cands)):
            v = judge_text(c, aseed, st, text, 5 * NASSIGN)      # more points: a candidate must not pass by luck
            if v is not None and v[0] == failure:
                out.append(c)
        return out

    def usable(cands, cur):
        seen, out = set([render(cur)]), []
        for c in cands:
            if not well_typed(c) or (count_ops(c) < 1 and c[0] not in ('paren', 'calc')):
                continue
            key = render(c)
            if key in seen:
                continue
            seen.add(key)
            out.append(c)
        return out

    def same_text_smaller(t):
        # parentheses / calc() wrappers whose removal does not change the text
        t0 = render(t)
        changed = True
        while changed:
            changed = False
            for c in shrink_candidates(t):
                if size(c) < size(t) and well_typed(c) and render(c) == t0:
                    t, changed = c, True
                    break
        return t

    def rank(c):
        return (count_ops(c), len(leaves(c)), sum(KIND_RANK[leaf_kind(l)] for l in leaves(c)), size(c), len(render(c)))

    cur = same_text_smaller(cur)
    while budget[0] > 0:
        f = failing(usable(subtrees(cur), cur))
        if not f:
            break
        cur = same_text_smaller(min(f, key=rank))
    progress = True
    while progress and budget[0] > 0:
        progress = False
        for make in (plain_values, shrink_candidates, plainer_leaves):
            while budget[0] > 0:
                f = failing(usable(make(cur), cur))
                if not f:
                    break
                cur = same_text_smaller(min(f, key=rank))
                progress = True
    return cur


def judge(ctx, case, st, text):
    tree, aseed = case['tree'], case['aseed']
    cls, sub = classify(tree)
    v = judge_text(tree, aseed, st, text)
    ctx.seen('tree_class', '%s:%s' % (cls, sub))
    ctx.seen('top', tree[0] if tree[0] not in '+-*/' else 'calc')
    ctx.seen('operator_count', count_ops(tree))
    for n in [tree] + subtrees(tree):
        ctx.seen('nodes', leaf_kind(n) if is_leaf(n) else n[0])
    if v is not None and v[0] == 'skip':
        if v[1].startswith('status-'):
            ctx.undecided(v[1])
        else:
            ctx.stat('not_asserted:' + v[1])
        return False
    if v is None:
        ctx.seen('outcome', cls + (':number' if re.match(r'^[-+.\d]', text.strip()) else ':calculation'))
        return True
    small = shrink(ctx, tree, aseed, v[0])
    st2, text2 = observe_one(ctx, small)
    v2 = judge_text(small, aseed, st2, text2) or v
    sig = signature(small, v[0])
    ctx.violation(sig, case, {'source': render(tree), 'observed': (text if st == 'ok' else st)[:300], 'failure': v[0], 'detail': v[1],
                              'minimal_source': render(small), 'minimal_case': {'tree': small, 'aseed': aseed}, 'minimal_observed': (text2 if st2 == 'ok' else st2)[:300],
                              'minimal_detail': v2[1] if v2[0] != 'skip' else None})
    return True


def check_cases(ctx, cases):
    res = ev.evaluate_many(ctx, [render(c['tree']) for c in cases], inspect=False, precision=PREC, prelude='', chunk=20)
    for c, (st, text) in zip(cases, res):
        if ctx.expired() and not ctx.replay and len(cases) > 1:
            ctx.stat('unjudged_at_end_of_budget')      # shrinking a failing case costs compilations; the budget is a wall-clock promise
            continue
        ctx.ran()
        if judge(ctx, c, st, text):
            ctx.nontrivial(render(c['tree']))


def check_case(ctx, case):
    check_cases(ctx, [case])


# ---------------------------------------------------------------- generation
def rnd_num(rng, nonzero=False):
    r = rng.random()
    if r < 0.55:
        v = str(rng.randint(1, 20))
    elif r < 0.85:
        v = rng.choice(['0.5', '0.25', '1.5', '2.5', '0.75', '1.25', '12.5', '0.1', '3.2', '100'])
    elif r < 0.93 and not nonzero:
        v = '0'
    else:
        v = '%d.%03d' % (rng.randint(0, 50), rng.randint(1, 999))
        v = v.rstrip('0')
    if rng.random() < 0.1 and v != '0':
        v = '-' + v
    return v


def gen(rng, ty, budget, pal, depth=0):
    """a tree of kind ty (0 plain number, 1 length) with about `budget` operators, leaves from the palette"""
    if budget <= 0 or depth > 5:
        r = rng.random()
        if r < pal['sym'] * (1.0 if ty == 1 else 0.4):
            if rng.random() < 0.65:
                return ['var', rng.choice(VARS)]
            return ['id', rng.choice(IDENTS)]
        if ty == 0:
            return ['num', rnd_num(rng), '']
        return ['num', rnd_num(rng), rng.choice(pal['units'])]
    r = rng.random()
    if r < 0.12:
        k = rng.choice(['min', 'max', 'clamp'])
        n = 3 if k == 'clamp' else rng.randint(1, 3)
        parts = split_budget(rng, budget - 1, n)
        return [k, [gen(rng, ty, b, pal, depth + 1) for b in parts]]
    if r < 0.17:
        return ['paren', gen(rng, ty, budget, pal, depth + 1)]
    if r < 0.20:
        return ['calc', gen(rng, ty, budget, pal, depth + 1)]
    lb, rb = split_budget(rng, budget - 1, 2)
    r = rng.random()
    if r < 0.5:
        return [rng.choice('+-'), gen(rng, ty, lb, pal, depth + 1), gen(rng, ty, rb, pal, depth + 1)]
    if r < 0.78:
        a, b = gen(rng, ty, lb, pal, depth + 1), gen(rng, 0, rb, pal, depth + 1)
        if rng.random() < 0.5:
            a, b = b, a
        return ['*', a, b]
    if ty == 0 and rng.random() < 0.3 and budget == 1:
        g = [u for u in pal['units'] if u in ABS] or [rng.choice(pal['units'])]
        u1 = rng.choice(g)
        u2 = rng.choice(g) if u1 in ABS else u1
        return ['/', ['num', rnd_num(rng), u1], ['num', rnd_num(rng, True).lstrip('-'), u2]]
    div = gen(rng, 0, rb, pal, depth + 1)
    if div[0] == 'num' and F(div[1]) == 0:
        div = ['num', '4', '']
    return ['/', gen(rng, ty, lb, pal, depth + 1), div]


def split_budget(rng, total, n):
    parts = [0] * n
    for _ in range(max(total, 0)):
        parts[rng.randrange(n)] += 1
    return parts


def palette(rng):
    r = rng.random()
    absu = list(ABS)
    if r < 0.30:
        return {'units': rng.sample(absu, rng.randint(1, 3)), 'sym': 0.0}
    if r < 0.40:
        return {'units': [rng.choice(REL_UNITS + UNK_UNITS)], 'sym': 0.0}
    units = rng.sample(absu, rng.randint(1, 2)) + rng.sample(REL_UNITS + UNK_UNITS, rng.randint(0, 2))
    return {'units': units, 'sym': rng.choice([0.0, 0.0, 0.15, 0.3]) if len(set(unit_group(u) for u in units)) > 1 else rng.choice([0.15, 0.3])}


def random_case(rng):
    for _ in range(50):
        pal = palette(rng)
        t = gen(rng, 1 if rng.random() < 0.8 else 0, rng.randint(1, 5), pal)
        if count_ops(t) < 1 or count_ops(t) > 6 or not well_typed(t):
            continue
        return {'tree': t, 'aseed': rng.getrandbits(48)}
    return {'tree': ['+', ['num', '1', 'px'], ['num', '2', 'px']], 'aseed': 1}


def worker(ctx):
    sampled = False
    while not ctx.expired():
        batch = [random_case(ctx.rng) for _ in range(60)]
        if not sampled:
            for c in batch[:2]:
                ctx.sample({'source': render(c['tree']), 'class': classify(c['tree'])})
            sampled = True
        check_cases(ctx, batch)
