"""C34 - global and module forms of a built-in function agree; meta.call(meta.get-function(..)) agrees with a direct call (relational)."""
import re
from .lib import gen, css

PROP = 'C34'
LEVEL = 'exploration'
BUDGET = {'quick': 30, 'thorough': 400}
FLOOR = {'quick': 2000, 'thorough': 20000}
RULE = ('table of the global/module pairs that the Sass documentation declares equivalent (string, list, map, math, color, selector, '
        'meta; with the documented parameter names), random argument tuples drawn from typed pools and from random numbers/strings/colors (mostly well-typed, some ill-typed '
        'or out of range), optional arguments present or absent.  Each tuple is evaluated in up to 12 call shapes: global and module '
        'name x (positional | all named | first k positional, rest named), and meta.call(meta.get-function(global)), '
        'meta.call(meta.get-function(member, $module: ns)), call(get-function(global)) with positional and with named arguments.  '
        'Oracle (relational, no model of any function): every shape gives the same meta.inspect text, or every shape fails.  A '
        'documented parameter name that every named shape rejects while the positional shapes succeed is recorded, not reported.  '
        'Distinct by (function, argument texts); non-trivial = at least one shape produced a value.')
LEVEL_TEXT = ('Relational monitor: the only expectation is agreement between several evaluations of the same arguments through '
              'different names and call paths; any disagreement on the table is a violation.')
LEVEL_NOTE = ('Trusted: the pair table and its parameter names (from the Sass documentation).  Excluded by design: random/unique-id, functions '
              'whose global name is also a plain-CSS function are only given arguments for which the Sass reading applies (colors for '
              'grayscale/invert/alpha/opacity, mutually comparable plain numbers for min/max/round/abs); lighten/darken/saturate/desaturate/'
              'opacify/fade-in/transparentize/fade-out/adjust-hue have no equivalent module member.')
TECHNIQUE = 'runtime monitoring: metamorphic relation (same arguments, different name / argument passing / call path) over a table of documented pairs'

DEFS = '$gv: 1; @function uf($a) { @return $a; } @mixin um { x: y; }'

# ------------------------------------------------------------------ argument pools: type -> (well-typed, ill-typed/out of range)
POOL = {
    'string': (['"abcdef"', 'abc', '"a b c"', '"åäö€"', '""', "'x'", '"Hello World"', 'unquote("a-b_c")', '"aaa"', 'AbC'], ['1', 'null', '(a b)']),
    'substring': (['"c"', '"b c"', '"z"', '""', 'a', '"ö"', '"aa"', 'bc', '"World"'], ['1', 'null']),
    'index': (['1', '2', '3', '-1', '-2', '4', '6', '-6', '10', '-10', '0'], ['1.5', 'a', 'null']),
    'nth': (['1', '2', '3', '-1', '-2', '4'], ['0', '1.5', 'a', '9', '-9']),
    'number': (['1.5', '-2.5', '0.5', '3px', '45%', '-7.3em', '1000', '2.5', '-0.5', '1in', '0', '0.49999', '123.456px', '-3', '7', '3.5deg',
                '-0.4', '0.5px', '-1.5%', '2.4999999999', '1e18', '-0', '1e-12', '1.5e3px', 'math.div(1, 3)', '-2.5px', '3.5', '4.5', '-7.5em'],
               ['a', '"1"', 'null', '(1 2)']),
    'unitless': (['0.5', '1', '-0.2', '0', '1.25', '2', '0.333'], ['1px', 'a', '50%']),
    'list': (['(a b c)', '(a, b, c)', '[a b]', '()', 'a', '(1 2 3 2)', '(a: 1, b: 2)', '(a b, c d)', '[a, b]', '(a,)', 'list.slash(1, 2)',
              '(1px 2px)', '(c d)', '("a" null 2)'], []),
    'lists-item': (['(a b c)', '(1, 2)', '[x y]', '(p q r s)', 'z', '()'], []),
    'value': (['a', 'b', '2', '1px', '(c d)', '"a"', 'null', 'red', '(a 1)', 'c', '1'], []),
    'sep': (['comma', 'space', 'auto', 'slash'], ['foo', '1', 'null']),
    'bracketed': (['true', 'false', 'auto', 'null', '1'], []),
    'map': (['(a: 1, b: 2)', '()', '(1px: x, "k": (n: 2))', '(a: (b: (c: 3)), d: 4)', '(b: 9, e: 5)', '(d: (x: 1))'], ['1', '(a b)', 'null']),
    'key': (['a', '"a"', 'b', '1px', 'z', 'k', 'd', 'e', 'n', 'x', '96px', 'null'], []),
    'color': (['red', '#123456', 'rgba(10, 20, 30, 0.4)', 'hsl(120, 50%, 40%)', 'transparent', '#abc', 'rgb(200, 100, 50)',
               'hsla(30, 80%, 20%, 0.7)', 'white', 'black', '#80ff0033', 'hwb(120 20% 30%)', 'hsl(0, 0%, 50%)', 'rgb(0, 0, 0)',
               'hsl(210, 100%, 50%)', 'rgba(255, 255, 255, 0)', 'hsl(75, 33%, 66%)'], ['1', '"red"', 'null']),
    'weight': (['0%', '25%', '50%', '100%', '33.3%', '75%', '50'], ['150%', '-1%', 'a']),
    'selector': (['".a"', '".a .b"', '"a, b"', '".a.b"', '"a > b"', '":hover"', '"%p"', '"*"', '"#id.c"', '(".a" ".b")', '"ul li"',
                  '"a.x:not(.y)"', '".b"', 'a', '".a, .b .c"', '"a.x"', '".x"', '("a", ".b")'], ['1', '"["', 'null']),
    'feature': (['global-variable-shadowing', 'extend-selector-pseudoclass', 'units-level-3', 'at-error', 'custom-property', 'nope',
                 '"at-error"'], ['1']),
    'any': (['a', '"a b"', '1', '1.50px', 'red', '#ABC', '(a b)', '(a, b)', '[a]', '(a: 1)', '()', 'null', 'true', '1 + 1', 'calc(1px + 1%)',
             'meta.get-function("uf")', '"\\"q\\""', '(a (b c), d)', 'rgba(1, 2, 3, 0.5)', 'list.slash(a, b)', '-0.0', '1e-3'], []),
    'name': (['"uf"', '"um"', '"gv"', '"nope"', '"str-length"', '"rgb"', 'uf', '"map-get"', '"abs"'], ['1', 'null']),
    'modname': (['"math"', '"string"', '"meta"'], ['"nope"', '1']),
    'number2': (['1px', '2in', '3', '4em', '5%', '6s', '7ms', '8deg', '9cm', '10'], ['a']),
    # keyword-only arguments of adjust / scale / change
    'adj-rgb': (['10', '-20', '255', '-255', '0', '100'], ['256', 'a']),
    'adj-deg': (['10deg', '-45deg', '180', '400deg', '0.5turn'], ['a']),
    'adj-pct': (['10%', '-20%', '100%', '-100%', '0%', '33%'], ['101%', 'a']),
    'adj-alpha': (['0.1', '-0.3', '1', '-1', '0'], ['1.1', 'a', '10%']),
    'scale-pct': (['10%', '-20%', '100%', '-100%', '0%', '33.3%'], ['101%', '10', 'a']),
    'chg-rgb': (['10', '0', '255', '128'], ['256', '-1', 'a']),
    'chg-pct': (['10%', '0%', '100%', '55.5%'], ['101%', '-1%', 'a']),
    'chg-alpha': (['0.1', '0', '1', '0.55'], ['1.1', '-0.1', 'a']),
}


def F(g, mod, m, params, rest=None, kw=None, safe_only=False, special=None):
    return {'g': g, 'mod': mod, 'm': m, 'params': params, 'rest': rest, 'kw': kw or [], 'safe_only': safe_only, 'special': special}


O = True   # optional marker
TABLE = [
    # sass:string
    F('quote', 'string', 'quote', [('string', 'string')]),
    F('unquote', 'string', 'unquote', [('string', 'string')]),
    F('str-index', 'string', 'index', [('string', 'string'), ('substring', 'substring')]),
    F('str-insert', 'string', 'insert', [('string', 'string'), ('insert', 'substring'), ('index', 'index')]),
    F('str-length', 'string', 'length', [('string', 'string')]),
    F('str-slice', 'string', 'slice', [('string', 'string'), ('start-at', 'index'), ('end-at', 'index', O)]),
    F('to-upper-case', 'string', 'to-upper-case', [('string', 'string')]),
    F('to-lower-case', 'string', 'to-lower-case', [('string', 'string')]),
    # sass:list
    F('append', 'list', 'append', [('list', 'list'), ('val', 'value'), ('separator', 'sep', O)]),
    F('index', 'list', 'index', [('list', 'list'), ('value', 'value')]),
    F('is-bracketed', 'list', 'is-bracketed', [('list', 'list')]),
    F('join', 'list', 'join', [('list1', 'list'), ('list2', 'list'), ('separator', 'sep', O), ('bracketed', 'bracketed', O)]),
    F('length', 'list', 'length', [('list', 'list')]),
    F('list-separator', 'list', 'separator', [('list', 'list')]),
    F('nth', 'list', 'nth', [('list', 'list'), ('n', 'nth')]),
    F('set-nth', 'list', 'set-nth', [('list', 'list'), ('n', 'nth'), ('value', 'value')]),
    F('zip', 'list', 'zip', [], rest=('lists', 'lists-item', 0, 3)),
    # sass:map
    F('map-get', 'map', 'get', [('map', 'map'), ('key', 'key')], rest=('keys', 'key', 0, 2)),
    F('map-has-key', 'map', 'has-key', [('map', 'map'), ('key', 'key')], rest=('keys', 'key', 0, 2)),
    F('map-keys', 'map', 'keys', [('map', 'map')]),
    F('map-values', 'map', 'values', [('map', 'map')]),
    F('map-merge', 'map', 'merge', [('map1', 'map'), ('map2', 'map')]),
    F('map-merge', 'map', 'merge', [('map1', 'map')], special='merge-keys'),
    F('map-remove', 'map', 'remove', [('map', 'map')], rest=('keys', 'key', 0, 3)),
    # sass:math
    F('ceil', 'math', 'ceil', [('number', 'number')]),
    F('floor', 'math', 'floor', [('number', 'number')]),
    F('round', 'math', 'round', [('number', 'number')], safe_only=True),
    F('abs', 'math', 'abs', [('number', 'number')], safe_only=True),
    F('min', 'math', 'min', [], rest=('numbers', 'same-unit', 1, 4), safe_only=True),
    F('max', 'math', 'max', [], rest=('numbers', 'same-unit', 1, 4), safe_only=True),
    F('percentage', 'math', 'percentage', [('number', 'unitless')]),
    F('unit', 'math', 'unit', [('number', 'number')]),
    F('unitless', 'math', 'is-unitless', [('number', 'number')]),
    F('comparable', 'math', 'compatible', [('number1', 'number2'), ('number2', 'number2')]),
    # sass:color (legacy functions that exist under both names with the same meaning)
    F('red', 'color', 'red', [('color', 'color')]),
    F('green', 'color', 'green', [('color', 'color')]),
    F('blue', 'color', 'blue', [('color', 'color')]),
    F('hue', 'color', 'hue', [('color', 'color')]),
    F('saturation', 'color', 'saturation', [('color', 'color')]),
    F('lightness', 'color', 'lightness', [('color', 'color')]),
    F('alpha', 'color', 'alpha', [('color', 'color')], safe_only=True),
    F('opacity', 'color', 'opacity', [('color', 'color')], safe_only=True),
    F('mix', 'color', 'mix', [('color1', 'color'), ('color2', 'color'), ('weight', 'weight', O)]),
    F('invert', 'color', 'invert', [('color', 'color'), ('weight', 'weight', O)], safe_only=True),
    F('grayscale', 'color', 'grayscale', [('color', 'color')], safe_only=True),
    F('complement', 'color', 'complement', [('color', 'color')]),
    F('ie-hex-str', 'color', 'ie-hex-str', [('color', 'color')]),
    F('adjust-color', 'color', 'adjust', [('color', 'color')],
      kw=[[('red', 'adj-rgb'), ('green', 'adj-rgb'), ('blue', 'adj-rgb'), ('alpha', 'adj-alpha')],
          [('hue', 'adj-deg'), ('saturation', 'adj-pct'), ('lightness', 'adj-pct'), ('alpha', 'adj-alpha')],
          [('hue', 'adj-deg'), ('whiteness', 'adj-pct'), ('blackness', 'adj-pct'), ('alpha', 'adj-alpha')]]),
    F('scale-color', 'color', 'scale', [('color', 'color')],
      kw=[[('red', 'scale-pct'), ('green', 'scale-pct'), ('blue', 'scale-pct'), ('alpha', 'scale-pct')],
          [('saturation', 'scale-pct'), ('lightness', 'scale-pct'), ('alpha', 'scale-pct')],
          [('whiteness', 'scale-pct'), ('blackness', 'scale-pct'), ('alpha', 'scale-pct')]]),
    F('change-color', 'color', 'change', [('color', 'color')],
      kw=[[('red', 'chg-rgb'), ('green', 'chg-rgb'), ('blue', 'chg-rgb'), ('alpha', 'chg-alpha')],
          [('hue', 'adj-deg'), ('saturation', 'chg-pct'), ('lightness', 'chg-pct'), ('alpha', 'chg-alpha')],
          [('hue', 'adj-deg'), ('whiteness', 'chg-pct'), ('blackness', 'chg-pct'), ('alpha', 'chg-alpha')]]),
    # sass:selector
    F('is-superselector', 'selector', 'is-superselector', [('super', 'selector'), ('sub', 'selector')]),
    F('selector-append', 'selector', 'append', [], rest=('selectors', 'selector', 1, 3)),
    F('selector-nest', 'selector', 'nest', [], rest=('selectors', 'selector', 1, 3)),
    F('selector-extend', 'selector', 'extend', [('selector', 'selector'), ('extendee', 'selector'), ('extender', 'selector')]),
    F('selector-replace', 'selector', 'replace', [('selector', 'selector'), ('original', 'selector'), ('replacement', 'selector')]),
    F('selector-parse', 'selector', 'parse', [('selector', 'selector')]),
    F('selector-unify', 'selector', 'unify', [('selector1', 'selector'), ('selector2', 'selector')]),
    F('simple-selectors', 'selector', 'simple-selectors', [('selector', 'selector')]),
    # sass:meta
    F('feature-exists', 'meta', 'feature-exists', [('feature', 'feature')]),
    F('inspect', 'meta', 'inspect', [('value', 'any')]),
    F('type-of', 'meta', 'type-of', [('value', 'any')]),
    F('function-exists', 'meta', 'function-exists', [('name', 'name'), ('module', 'modname', O)]),
    F('mixin-exists', 'meta', 'mixin-exists', [('name', 'name')]),
    F('variable-exists', 'meta', 'variable-exists', [('name', 'name')]),
    F('global-variable-exists', 'meta', 'global-variable-exists', [('name', 'name')]),
]
BY_ID = {}
for _e in TABLE:
    _e['id'] = '%s~%s.%s' % (_e['g'], _e['mod'], _e['m']) + ('+keys' if _e['special'] else '')
    BY_ID[_e['id']] = _e


# ------------------------------------------------------------------ generation

def _rand_number(rng):
    v = rng.choice([rng.randint(-50, 50), round(rng.uniform(-20, 20), rng.randint(1, 4)), rng.randint(0, 9) + 0.5, round(rng.uniform(0, 1), 3)])
    return '%s%s' % (v, rng.choice(['', '', 'px', '%', 'em', 'deg', 's', 'in', 'rem']))


def _rand_string(rng):
    n = rng.randint(0, 9)
    if rng.random() < 0.3:
        return 'q' + ''.join(rng.choice('abcxyz019-') for _ in range(n))          # unquoted identifier
    return '"%s"' % ''.join(rng.choice('abcXYZ åéß€-_ 09.,:') for _ in range(n))


def _rand_color(rng):
    r = rng.random()
    if r < 0.3:
        return '#%06x' % rng.randrange(1 << 24)
    if r < 0.55:
        return 'rgb(%d, %d, %d)' % (rng.randint(0, 255), rng.randint(0, 255), rng.randint(0, 255))
    if r < 0.7:
        return 'rgba(%d, %d, %d, %s)' % (rng.randint(0, 255), rng.randint(0, 255), rng.randint(0, 255), round(rng.random(), 2))
    if r < 0.9:
        return 'hsl(%d, %d%%, %d%%)' % (rng.randint(0, 359), rng.randint(0, 100), rng.randint(0, 100))
    return 'hsla(%d, %d%%, %d%%, %s)' % (rng.randint(0, 359), rng.randint(0, 100), rng.randint(0, 100), round(rng.random(), 2))


RANDOM_GEN = {'number': _rand_number, 'number2': _rand_number, 'string': _rand_string, 'substring': _rand_string, 'color': _rand_color,
              'index': lambda rng: str(rng.randint(-9, 9)), 'nth': lambda rng: str(rng.randint(-4, 4)),
              'weight': lambda rng: '%s%%' % rng.choice([rng.randint(0, 100), round(rng.uniform(0, 100), 2)]),
              'unitless': lambda rng: str(round(rng.uniform(-2, 2), rng.randint(1, 4)))}


def draw(rng, typ, bad_ok):
    if typ == 'same-unit':
        raise ValueError
    if typ in RANDOM_GEN and rng.random() < 0.4:
        return RANDOM_GEN[typ](rng)
    good, bad = POOL[typ]
    if bad and bad_ok and rng.random() < 0.08:
        return rng.choice(bad)
    return rng.choice(good)


def gen_case(rng, e=None):
    e = e or rng.choice(TABLE)
    bad_ok = not e['safe_only']
    args = []
    for p in e['params']:
        if len(p) > 2 and rng.random() < 0.45:
            break
        args.append(draw(rng, p[1], bad_ok))
    rest = []
    full = len(args) == len(e['params'])
    if e['rest'] and full:
        name, typ, lo, hi = e['rest']
        k = rng.randint(lo, hi)
        if typ == 'same-unit':
            u = rng.choice(['', '', 'px', '%', 'em', 'len'])
            if u == 'len':       # comparable lengths, no two of the same size
                rest = rng.sample(['1in', '50px', '2cm', '100px', '10mm', '3pt', '-1pc'], k)
            else:
                rest = ['%s%s' % (rng.choice(['1', '2.5', '-3', '0', '10', '0.1', '7', '-0.5', '2']), u) for _ in range(k)]
        else:
            rest = [draw(rng, typ, bad_ok) for _ in range(k)]
    if e['special'] == 'merge-keys':
        # map.merge($map1, $keys..., $map2): nested merge
        rest = [draw(rng, 'key', False) for _ in range(rng.randint(1, 2))] + [draw(rng, 'map', False)]
    if full and bad_ok and not e['rest'] and not e['kw'] and not e['special'] and rng.random() < 0.03:
        rest = ['1']             # one argument too many: every shape must fail
    kw = []
    if e['kw']:
        fam = rng.choice(e['kw'])
        if rng.random() < 0.08:
            fam = fam + rng.choice(e['kw'])         # mixed families: an error in every shape
        names = []
        for n, t in rng.sample(fam, rng.randint(0, min(3, len(fam)))):
            if n not in names:
                names.append(n)
                kw.append([n, draw(rng, t, True)])
    split = rng.randint(1, len(args) - 1) if len(args) >= 2 else None
    return {'fn': e['id'], 'args': args, 'rest': rest, 'kw': kw, 'split': split}


SHAPES = ['global-positional', 'module-positional', 'call-global', 'call-module', 'call-global-plain-names',
          'global-named', 'module-named', 'call-global-named', 'call-module-named', 'global-mixed', 'module-mixed', 'call-module-mixed']
POSITIONAL = SHAPES[:5]


def shapes(case):
    e = BY_ID[case['fn']]
    args, rest, kw, split = case['args'], case.get('rest') or [], case.get('kw') or [], case.get('split')
    kws = ['$%s: %s' % (n, v) for n, v in kw]
    pos = ', '.join(args + rest + kws)
    G, M = e['g'], '%s.%s' % (e['mod'], e['m'])
    gf = 'meta.get-function("%s")' % e['g']
    mf = 'meta.get-function("%s", $module: "%s")' % (e['m'], e['mod'])

    def call(f, a):
        return 'meta.call(%s%s)' % (f, ', ' + a if a else '')

    out = {'global-positional': '%s(%s)' % (G, pos), 'module-positional': '%s(%s)' % (M, pos),
           'call-global': call(gf, pos), 'call-module': call(mf, pos),
           'call-global-plain-names': 'call(get-function("%s")%s)' % (e['g'], ', ' + pos if pos else '')}
    if not rest and args:
        names = [p[0] for p in e['params']]
        named = ', '.join(['$%s: %s' % (names[i], a) for i, a in enumerate(args)] + kws)
        out['global-named'] = '%s(%s)' % (G, named)
        out['module-named'] = '%s(%s)' % (M, named)
        out['call-global-named'] = call(gf, named)
        out['call-module-named'] = call(mf, named)
        if split:
            mixed = ', '.join(args[:split] + ['$%s: %s' % (names[i], a) for i, a in enumerate(args) if i >= split] + kws)
            out['global-mixed'] = '%s(%s)' % (G, mixed)
            out['module-mixed'] = '%s(%s)' % (M, mixed)
            out['call-module-mixed'] = call(mf, mixed)
    return out


# ------------------------------------------------------------------ evaluation (one stylesheet per case)

_MARK = re.compile(r'\n  p(\d+): ')


def run_cases(ctx, cases):
    sh = [shapes(c) for c in cases]
    keys = [[k for k in SHAPES if k in s] for s in sh]
    pre = gen.USE_ALL + DEFS
    jobs = [{'src': pre + 'a{' + ''.join('p%d:meta.inspect(%s);' % (i, s[k]) for i, k in enumerate(ks)) + '}', 'precision': 10, 'style': 'expanded'}
            for s, ks in zip(sh, keys)]
    res = ctx.batch(jobs)
    out = [None] * len(cases)
    single, where = [], []
    for ci, (r, ks) in enumerate(zip(res, keys)):
        vals = None
        if r.get('status') == 'ok':
            t = css.strip_header(r.get('out', ''))
            if t.startswith('a {') and t.endswith(';\n}\n'):
                parts = _MARK.split(t[3:-4])
                if parts and parts[0] == '' and len(parts) == 2 * len(ks) + 1 and all(parts[2 * k + 1] == str(k) for k in range(len(ks))):
                    vals = {k: ('ok', parts[2 * i + 2][:-1] if parts[2 * i + 2].endswith(';') else parts[2 * i + 2]) for i, k in enumerate(ks)}
        if vals is None:
            for k in ks:
                single.append({'src': pre + 'a{b:meta.inspect(%s)}' % sh[ci][k], 'precision': 10, 'style': 'expanded'})
                where.append((ci, k))
            out[ci] = {}
        else:
            out[ci] = vals
    if single:
        rs = ctx.batch(single)
        for (ci, k), r in zip(where, rs):
            st = r.get('status')
            if st == 'ok':
                t = css.strip_header(r.get('out', ''))
                if t.startswith('a {\n  b: ') and t.endswith(';\n}\n'):
                    out[ci][k] = ('ok', t[9:-4])
                elif t == '':
                    out[ci][k] = ('ok', '')        # an empty unquoted string: the declaration is not printed at all
                else:
                    out[ci][k] = ('ok-unparsed', t)
            elif st == 'err':
                out[ci][k] = ('err', r.get('err', ''))
            else:
                out[ci][k] = ('other', st)
    return sh, out


_NUM = re.compile(r'-?\d+(?:\.\d+)?(?:e[-+]?\d+)?')


def same_text(a, b):
    """Equal texts, or texts that differ only in the last digits of a number (never reported)."""
    if a == b:
        return True
    if _NUM.sub('#', a) != _NUM.sub('#', b):
        return False
    for x, y in zip(_NUM.findall(a), _NUM.findall(b)):
        x, y = float(x), float(y)
        if abs(x - y) > 1e-9 * max(1.0, abs(x), abs(y)):
            return False
    return True


def labels(vals, keys):
    """shape -> 'err' | 'v1' | 'v2' ... (values numbered in the fixed shape order)"""
    seen, lab = [], {}
    for k in keys:
        st, v = vals[k]
        if st == 'err':
            lab[k] = 'err'
            continue
        for i, s in enumerate(seen):
            if same_text(s, v):
                lab[k] = 'v%d' % (i + 1)
                break
        else:
            seen.append(v)
            lab[k] = 'v%d' % len(seen)
    return lab


def merge_equal_values(ctx, sh, lab, keys):
    """Two shapes whose texts differ may still have produced the same value (a color kept in hsl form by one path and in rgb form by
    the other, ...).  The statement speaks of the same result, so such shapes agree: the real `==` decides, and the case is recorded."""
    rep = {}
    for k in keys:
        if lab[k] != 'err':
            rep.setdefault(lab[k], k)
    others = [l for l in rep if l != 'v1']
    jobs = [{'src': gen.USE_ALL + DEFS + 'a{b:meta.inspect((%s) == (%s))}' % (sh[rep['v1']], sh[rep[l]]), 'precision': 10, 'style': 'expanded'}
            for l in others]
    res = ctx.batch(jobs)
    same = set()
    for l, r in zip(others, res):
        if r.get('status') == 'ok' and css.strip_header(r.get('out', '')) == 'a {\n  b: true;\n}\n':
            same.add(l)
    if same:
        ctx.stat('equal_values_printed_differently')
        lab = {k: ('v1' if v in same else v) for k, v in lab.items()}
    return lab


def judge(ctx, case, sh, vals):
    e = BY_ID[case['fn']]
    keys = [k for k in SHAPES if k in sh]
    ctx.ran(len(keys))
    if any(vals[k][0] not in ('ok', 'err') for k in keys):
        ctx.undecided('driver-trouble-or-unparsed-output', [vals[k] for k in keys if vals[k][0] not in ('ok', 'err')][0][1])
        return
    lab = labels(vals, keys)
    if len({l for l in lab.values() if l != 'err'}) > 1:
        lab = merge_equal_values(ctx, sh, lab, keys)
    anyval = any(l != 'err' for l in lab.values())
    if anyval:
        ctx.nontrivial((case['fn'], case['args'], case.get('rest'), case.get('kw')))
    ctx.seen('functions', case['fn'])
    if ctx.stats.get('equal_values_printed_differently') and len({vals[k][1] for k in keys if lab[k] == 'v1'}) > 1:
        ctx.seen('equal_values_printed_differently', case['fn'])
    ctx.seen('outcomes', '%s:%s' % (e['mod'], 'value' if anyval else 'all-shapes-fail'))
    for k in keys:
        ctx.seen('shapes', k)
    posk = [k for k in keys if k in POSITIONAL]
    namk = [k for k in keys if k not in POSITIONAL]
    if len(set(lab.values())) == 1:
        if namk:
            ctx.seen('named_forms_agree', case['fn'])
        return
    if namk and all(lab[k] == 'err' for k in namk) and len({lab[k] for k in posk}) == 1:
        # the documented names are rejected by every named shape alike while the positional shapes agree: the forms agree with each other
        ctx.seen('documented_name_rejected_by_every_named_shape', '%s(%s)' % (case['fn'], ','.join(p[0] for p in e['params'][:len(case['args'])])))
        return
    # signature: what the majority of the shapes gives, and which shapes deviate how.  A deviation of meta.call shapes only is a
    # property of the call path, not of the function, so the function name is not part of that signature.
    count = {}
    for k in keys:
        count[lab[k]] = count.get(lab[k], 0) + 1
    top = max(count.values())
    ref = lab['global-positional'] if count[lab['global-positional']] == top else [l for l in count if count[l] == top][0]
    dev = [k for k in keys if lab[k] != ref]
    others = []
    for k in dev:
        if lab[k] != 'err' and lab[k] not in others:
            others.append(lab[k])

    def word(l):
        if l == 'err':
            return 'err'
        if ref == 'err' and len(others) == 1:
            return 'value'
        return 'other-value' if others.index(l) == 0 else 'other-value-%d' % (others.index(l) + 1)

    scope = 'meta.call' if all(k.startswith('call-') for k in dev) else case['fn']
    detail = {'expressions': {k: sh[k] for k in keys},
              'observed': {k: (vals[k][1] if vals[k][0] == 'ok' else 'ERROR ' + vals[k][1].strip().split('\n')[0][:160]) for k in keys}}
    ctx.violation('%s|majority=%s|%s' % (scope, 'err' if ref == 'err' else 'value', ' '.join('%s=%s' % (k, word(lab[k])) for k in dev)), case, detail)


def check_case(ctx, case):
    sh, out = run_cases(ctx, [case])
    judge(ctx, case, sh[0], out[0])


def worker(ctx):
    rng = ctx.rng
    first = True
    # every table entry is visited in turn (so no pair is left out by chance), arguments are random
    order = list(TABLE)
    rng.shuffle(order)
    i = 0
    while not ctx.expired():
        cases = []
        for _ in range(30):
            cases.append(gen_case(rng, order[i % len(order)]))
            i += 1
        sh, out = run_cases(ctx, cases)
        for c, s, o in zip(cases, sh, out):
            judge(ctx, c, s, o)
        if first:
            ctx.sample({'case': cases[0], 'expressions': sh[0]}, limit=2)
            first = False
