"""C15 - operators follow Sass precedence and associativity (reference-model monitor, bounded-exhaustive)."""
import itertools
from .lib import ev

PROP = 'C15'
LEVEL = 'exploration'
BUDGET = {'quick': 35, 'thorough': 900}
FLOOR = {'quick': 20000, 'thorough': 200000}
EXHAUSTIVE = {'quick': True, 'thorough': True}
RULE = ('well-typed expression trees over the operators * % + - < <= > >= == != and or with unary - and not: every tree '
        'with up to 2 binary operators over operands {0,1,2,3,true,false} (quick and thorough), every tree with 3 binary '
        'operators over {1,2,true,false} (thorough), plus random trees with 3..6 operators and unary operators.  Each tree is '
        'printed with the minimal parentheses the Sass grammar needs (binary operators always spaced, unary minus '
        'attached, operands of not always parenthesized unless literal).  Distinct by printed text; non-trivial = at least '
        'two binary operators.  Oracle: a Python evaluator over the tree (floored modulo, Sass truthiness).')
LEVEL_TEXT = ('Reference-model monitor, bounded-exhaustive: every small tree is evaluated by a 30-line reference evaluator '
              'and by the real parser+evaluator from its minimally parenthesized text; a difference means the real grammar '
              'groups the operators differently.')
LEVEL_NOTE = 'Trusted: the reference evaluator and the minimal-parenthesization printer (precedence table from the property statement).'
TECHNIQUE = 'runtime monitoring: bounded-exhaustive expression trees against a reference evaluator'

PREC = {'or': 1, 'and': 2, '==': 3, '!=': 3, '<': 4, '<=': 4, '>': 4, '>=': 4, '+': 5, '-': 5, '*': 6, '%': 6}
ARITH = ['*', '%', '+', '-']
REL = ['<', '<=', '>', '>=']
EQ = ['==', '!=']
LOGIC = ['and', 'or']
OPS = ARITH + REL + EQ + LOGIC


class Skip(Exception):
    pass


def typ(t):
    """'num' | 'bool' | 'any' (and/or of mixed types) ; raises Skip for ill-typed trees"""
    if t[0] == 'lit':
        return 'num' if isinstance(t[1], int) and not isinstance(t[1], bool) else 'bool'
    if t[0] == 'neg':
        if typ(t[1]) != 'num':
            raise Skip()
        return 'num'
    if t[0] == 'not':
        typ(t[1])
        return 'bool'
    op, a, b = t[1], t[2], t[3]
    ta, tb = typ(a), typ(b)
    if op in ARITH:
        if ta != 'num' or tb != 'num':
            raise Skip()
        return 'num'
    if op in REL:
        if ta != 'num' or tb != 'num':
            raise Skip()
        return 'bool'
    if op in EQ:
        return 'bool'
    return ta if ta == tb else 'any'


def evaluate(t):
    if t[0] == 'lit':
        return t[1]
    if t[0] == 'neg':
        return -evaluate(t[1])
    if t[0] == 'not':
        v = evaluate(t[1])
        return v is False
    op, a, b = t[1], t[2], t[3]
    if op == 'and':
        x = evaluate(a)
        return x if x is False else evaluate(b)
    if op == 'or':
        x = evaluate(a)
        return evaluate(b) if x is False else x
    x, y = evaluate(a), evaluate(b)
    if op == '*': return x * y
    if op == '+': return x + y
    if op == '-': return x - y
    if op == '%':
        if y == 0:
            raise Skip()
        return x % y
    if op == '<': return x < y
    if op == '<=': return x <= y
    if op == '>': return x > y
    if op == '>=': return x >= y
    same = (type(x) is type(y)) and x == y
    return same if op == '==' else not same


def show(t):
    if t[0] == 'lit':
        v = t[1]
        return ('true' if v else 'false') if isinstance(v, bool) else str(v)
    if t[0] == 'neg':
        a = t[1]
        s = show(a)
        return '-' + s if a[0] == 'lit' and a[1] >= 0 else '-(%s)' % s
    if t[0] == 'not':
        a = t[1]
        return 'not ' + (show(a) if a[0] == 'lit' else '(%s)' % show(a))
    op, a, b = t[1], t[2], t[3]
    p = PREC[op]

    def side(x, right):
        s = show(x)
        if x[0] in ('neg', 'not'):
            # a unary expression as an operand: parenthesize 'not' (its reach is not fixed by the statement);
            # unary minus binds tightest but `a - -b` style is kept unambiguous with parentheses on the right
            return '(%s)' % s if x[0] == 'not' or right else s
        if x[0] == 'bin':
            q = PREC[x[1]]
            if q < p or (right and q == p):
                return '(%s)' % s
        if x[0] == 'lit' and not isinstance(x[1], bool) and x[1] < 0:
            return '(%s)' % s
        return s
    return '%s %s %s' % (side(a, False), op, side(b, True))


def fmt(v):
    if isinstance(v, bool):
        return 'true' if v else 'false'
    return str(v)


def trees(n, leaves, ops=OPS):
    """all binary trees with n operators"""
    if n == 0:
        for l in leaves:
            yield ('lit', l)
        return
    for k in range(n):
        for a in trees(k, leaves, ops):
            for b in trees(n - 1 - k, leaves, ops):
                for op in ops:
                    yield ('bin', op, a, b)


def count_bin(t):
    if t[0] == 'lit':
        return 0
    if t[0] in ('neg', 'not'):
        return count_bin(t[1])
    return 1 + count_bin(t[2]) + count_bin(t[3])


def rand_tree(rng, n, want=None):
    if n == 0:
        if want == 'num' or (want is None and rng.random() < 0.7):
            t = ('lit', rng.choice([0, 1, 2, 3]))
            if rng.random() < 0.1:
                t = ('neg', t)
            return t
        t = ('lit', rng.choice([True, False]))
        if rng.random() < 0.15:
            t = ('not', t)
        return t
    if want == 'num':
        op = rng.choice(ARITH)
    elif want == 'bool':
        op = rng.choice(REL + EQ + LOGIC + EQ)
    else:
        op = rng.choice(OPS)
    k = rng.randint(0, n - 1)
    if op in ARITH or op in REL:
        a, b = rand_tree(rng, k, 'num'), rand_tree(rng, n - 1 - k, 'num')
    elif op in LOGIC and want == 'bool':
        a, b = rand_tree(rng, k, 'bool'), rand_tree(rng, n - 1 - k, 'bool')
    else:
        a, b = rand_tree(rng, k, None), rand_tree(rng, n - 1 - k, None)
    t = ('bin', op, a, b)
    r = rng.random()
    if r < 0.06 and op in ARITH:
        t = ('neg', t)
    elif r < 0.12:
        t = ('not', t)
    return t


def classify(t, got, want):
    """which adjacent operator pair the tree exercises (for the signature)"""
    pairs = set()

    def walk(x):
        if x[0] in ('neg', 'not'):
            walk(x[1]); return
        if x[0] != 'bin':
            return
        for side, c in (('L', x[2]), ('R', x[3])):
            c2 = c
            if c2[0] == 'bin':
                pairs.add((level(x[1]), level(c2[1]), side))
            walk(c)
    walk(t)
    return pairs


def level(op):
    return {1: 'or', 2: 'and', 3: 'equality', 4: 'relational', 5: 'additive', 6: 'multiplicative'}[PREC[op]]


def signature(t, st):
    ps = classify(t, None, None)
    if len(ps) == 1:
        a, b, side = next(iter(ps))
        return 'misgrouped|%s-with-%s-child-on-%s|observed=%s' % (a, b, 'left' if side == 'L' else 'right', st)
    if not ps:
        return 'single-operator-wrong|observed=%s' % st
    lv = sorted(set(x for p in ps for x in p[:2]))
    return 'misgrouped|levels=%s|observed=%s' % ('+'.join(lv), st)


def check_trees(ctx, ts):
    good = []
    for t in ts:
        try:
            typ(t)
            v = evaluate(t)
        except (Skip, ZeroDivisionError):
            continue
        good.append((t, v))
    if not good:
        return
    exprs = [show(t) for t, _ in good]
    res = ev.evaluate_many(ctx, exprs, prelude='@use "sass:meta";', chunk=25)
    for (t, v), e, r in zip(good, exprs, res):
        ctx.ran()
        if count_bin(t) >= 2:
            ctx.nontrivial(e)
        want = fmt(v)
        if r == ('ok', want):
            continue
        if r[0] == 'other':
            ctx.undecided('status-' + str(r[1]))
            continue
        st = 'error' if r[0] == 'err' else 'different-value'
        ctx.violation(signature(t, st), {'tree': t, 'expr': e}, {'expected': want, 'observed': r[1][:200] if r[0] == 'ok' else r[1].split('\n')[0][:200]})


def to_tuple(x):
    if isinstance(x, list):
        return tuple(to_tuple(y) for y in x)
    return x


def check_case(ctx, case):
    check_trees(ctx, [to_tuple(case['tree'])])


def worker(ctx):
    rng = ctx.rng
    full = [0, 1, 2, 3, True, False]
    small = [1, 2, True, False]
    spaces = [(1, full), (2, full)] + ([] if ctx.quick else [(3, small)])
    completed = True
    first = True
    for n, leaves in spaces:
        batch = []
        for i, t in enumerate(trees(n, leaves)):
            if i % ctx.nshards != ctx.shard:
                continue
            batch.append(t)
            if len(batch) >= 400:
                check_trees(ctx, batch)
                if first:
                    ctx.sample({'expr': show(batch[0])}); first = False
                batch = []
                if ctx.expired() and n >= 3:
                    completed = False
                    break
        check_trees(ctx, batch)
    if completed:
        ctx.stat('space_completed')
    while not ctx.expired():
        batch = [rand_tree(rng, rng.randint(3, 6)) for _ in range(300)]
        check_trees(ctx, batch)
        ctx.sample({'expr': show(batch[0])}, 3)
