"""C26 - string functions follow the Unicode code-point model (reference-model monitor)."""
from .lib import ev

PROP = 'C26'
LEVEL = 'exploration'
BUDGET = {'quick': 30, 'thorough': 400}
FLOOR = {'quick': 10000, 'thorough': 150000}
RULE = ('strings of 0..12 code points (a fixed table of edge strings, then seeded random ones) over ASCII letters and digits, '
        '2/3-byte characters (e-acute, u-umlaut, sharp s, long s, CJK, euro, Kelvin sign), astral characters (U+1F600, U+1D49C, '
        'U+10437), combining marks (U+0301, U+0308) and inner space/hyphen/underscore; written as "..", \'..\', a bare '
        'identifier or string.unquote(".."); for each string: length, to-upper-case, to-lower-case, slice with one and with '
        'two bounds for EVERY index (pair) in [-len-2, len+2], insert at every index in [-len-2, len+2] of quoted and '
        'unquoted insertions (also empty), index of present / absent / empty / case-changed / overlapping substrings; module '
        'names, global aliases and named arguments.  Distinct by expression text; non-trivial = the subject string is not '
        'empty.  Oracle: Python model on code-point sequences (Python str), including the quotedness of the result; no '
        'error is admitted anywhere in this space.')
LEVEL_TEXT = ('Reference-model monitor: every observed result of the real functions is compared with an independent '
              'code-point model written from the Sass function reference; all indices in the stated range are enumerated '
              'for every generated string.')
LEVEL_NOTE = ('Trusted: meta.inspect and `+` on unquoted strings as the observation channel (the result is printed as '
              '[inspect-text]); contents never contain quotes, backslashes, #, controls or whitespace at the ends, so the '
              'printed text is the content itself.')
TECHNIQUE = 'runtime monitoring: generated strings x all indices against a code-point reference model'
ASSUMPTIONS = ['dart-sass semantics of insert/slice index normalization as documented in the Sass function reference and sass-spec']

DEFS = '@function o($v){@return string.unquote("[") + meta.inspect($v) + string.unquote("]")}'

LOWER = 'abcdefghijklmnopqrstuvwxyz'
UPPER = LOWER.upper()
DIGIT = '0123456789'
MB2 = '\u00e9\u00fc\u00df\u00f1\u017f\u00c9'            # e-acute u-umlaut sharp-s n-tilde long-s E-acute
MB3 = '\u65e5\u672c\u20ac\u212a'                         # CJK CJK euro Kelvin-sign
ASTRAL = '\U0001F600\U0001D49C\U00010437'
COMB = '\u0301\u0308'
INNER = ' -_'

GLOBAL = {'length': 'str-length', 'index': 'str-index', 'insert': 'str-insert', 'slice': 'str-slice',
          'to-upper-case': 'to-upper-case', 'to-lower-case': 'to-lower-case'}
PARAMS = {'length': ['string'], 'index': ['string', 'substring'], 'insert': ['string', 'insert', 'index'],
          'slice': ['string', 'start-at', 'end-at'], 'to-upper-case': ['string'], 'to-lower-case': ['string']}

TABLE = ['', 'a', 'abc', 'AbC', 'z9', '\u00e9', '\U0001F600', 'e\u0301', 'a\U0001F600b', '\u65e5\u672c', 'aaa', 'abab',
         '\u00df\u017f\u212a', 'a\u0308\u0301b', '\U0001F600\U0001F600', 'a b', 'x-y_z', '\U00010437A', 'abcdefghijkl',
         '\u00e9\u00e9a\u00e9\u00e9a', 'aA\u00e9\u00c9']


# ---------------------------------------------------------------- model (from the Sass function reference)

def m_insert(s, x, i):
    n = len(s)
    if i < 0:
        pos = max(n + i + 1, 0)          # -1 inserts at the end; below -n-1 clamps to the start
        br = 'negative-in-range' if i >= -(n + 1) else 'negative-clamped-to-start'
    elif i == 0:
        pos, br = 0, 'zero'
    else:
        pos = min(i - 1, n)
        br = 'positive-in-range' if i <= n + 1 else 'positive-clamped-to-end'
    return s[:pos] + x + s[pos:], br


def m_slice(s, a, b):
    """-> (text, why): why names the reason of an empty result (None for a non-empty one)."""
    n = len(s)
    if b == 0:
        return '', 'end-zero'
    st = 0 if a == 0 else (min(a - 1, n) if a > 0 else max(n + a, 0))
    en = min(b - 1, n) if b > 0 else n + b
    if en == n:
        en -= 1
    if st >= n:
        return '', 'start-past-string'
    if en < st:
        return '', 'end-before-start'
    return s[st:en + 1], None


def ascii_upper(s):
    return ''.join(chr(ord(c) - 32) if 'a' <= c <= 'z' else c for c in s)


def ascii_lower(s):
    return ''.join(chr(ord(c) + 32) if 'A' <= c <= 'Z' else c for c in s)


def expected(case):
    """-> (kind, value, branch): kind 'str' (value = (text, quoted)), 'num', 'null'."""
    f, s, q = case['fn'], case['s'], case['form'] in ('dq', 'sq')
    if f == 'length':
        return 'num', len(s), 'length'
    if f == 'to-upper-case':
        return 'str', (ascii_upper(s), q), 'case'
    if f == 'to-lower-case':
        return 'str', (ascii_lower(s), q), 'case'
    if f == 'index':
        k = s.find(case['x'])
        if k < 0:
            return 'null', None, 'absent'
        return 'num', k + 1, ('empty-substring' if case['x'] == '' else 'present')
    if f == 'insert':
        t, br = m_insert(s, case['x'], case['i'])
        return 'str', (t, q), br
    if f == 'slice':
        t, why = m_slice(s, case['i'], case.get('j', -1))
        return 'str', (t, q), 'args=%d|expected=%s' % (3 if 'j' in case else 2, 'nonempty' if why is None else 'empty:' + why)
    raise ValueError(f)


# ---------------------------------------------------------------- expression text

def ident_ok(t):
    """May this content be written as a bare identifier without any doubt?  Starts with an ASCII letter, only
    letters/digits/non-ASCII, and has a digit or non-ASCII character (so it is no colour name or keyword)."""
    if not t or not (t[0] in LOWER or t[0] in UPPER):
        return False
    if any(c in INNER for c in t):
        return False
    return any(c in DIGIT or ord(c) > 127 for c in t)


def lit(t, form):
    if form == 'dq':
        return '"%s"' % t
    if form == 'sq':
        return "'%s'" % t
    if form == 'ident':
        return t
    return 'string.unquote("%s")' % t


def expr_of(case):
    f, style = case['fn'], case.get('style', 'module')
    args = [lit(case['s'], case['form'])]
    if f == 'index':
        args.append(lit(case['x'], case['xform']))
    elif f == 'insert':
        args += [lit(case['x'], case['xform']), str(case['i'])]
    elif f == 'slice':
        args.append(str(case['i']))
        if 'j' in case:
            args.append(str(case['j']))
    if style == 'named':
        args = ['$%s: %s' % (p, a) for p, a in zip(PARAMS[f], args)]
    name = GLOBAL[f] if style == 'global' else 'string.' + f
    return 'o(%s(%s))' % (name, ', '.join(args))


def chars_class(s):
    cl = set()
    for c in s:
        o = ord(c)
        cl.add('combining' if c in COMB else 'ascii' if o < 128 else 'two-byte' if o < 0x800 else 'three-byte' if o < 0x10000 else 'astral')
    return cl


# ---------------------------------------------------------------- judging

def judge(ctx, case, r):
    kind, val, br = expected(case)
    f = case['fn']
    ctx.ran()
    if case['s']:
        ctx.nontrivial(expr_of(case))
    ctx.seen('function:style', '%s:%s' % (f, case.get('style', 'module')))
    ctx.seen('model-branch', '%s:%s' % (f, br))
    ctx.seen('string-form', case['form'])
    if f in ('insert', 'slice'):
        n = len(case['s'])
        for key in ('i', 'j'):
            if key in case:
                v = case[key]
                ctx.seen('index-class', '0' if v == 0 else ('+' if v > 0 else '-') + ('in' if abs(v) <= n else 'edge' if abs(v) == n + 1 else 'beyond'))
    if kind == 'str':
        want = '["%s"]' % val[0] if val[1] else '[%s]' % val[0]
    elif kind == 'num':
        want = '[%d]' % val
    else:
        want = '[null]'
    if r[0] == 'ok' and r[1] == want:
        ctx.seen('outcome', kind + (':quoted' if kind == 'str' and val[1] else ':unquoted' if kind == 'str' else ''))
        if kind == 'str' and val[0] == '':
            ctx.seen('outcome', 'empty-' + ('quoted' if val[1] else 'unquoted'))
        return True
    if r[0] == 'ok':
        got = r[1]
        if not (got.startswith('[') and got.endswith(']')):
            ctx.undecided('unparsed-output', got[:80])
            return False
        body = got[1:-1]
        if kind == 'str':
            gq = len(body) >= 2 and body[0] == '"' and body[-1] == '"'
            gt = body[1:-1] if gq else body
            if gt == val[0] and gq != val[1]:
                obs = 'wrong-quotedness'
            elif gq != val[1]:
                obs = 'wrong-content-and-quotedness'
            else:
                obs = 'wrong-content'
        elif kind == 'num':
            obs = 'null' if body == 'null' else 'wrong-number' if body.lstrip('-').isdigit() else 'not-a-number'
        else:
            obs = 'number' if body.lstrip('-').isdigit() else 'not-null'
    elif r[0] == 'err':
        obs = 'error'
    elif r[0] == 'other' and r[1] == 'panic':
        obs = 'panic'
    else:
        ctx.undecided('harness-%s' % (r[1] if r[0] == 'other' else r[0]))
        return False
    sig = '%s|%s|observed=%s' % (f, br, obs)
    ctx.violation(sig, case, {'expr': expr_of(case), 'expected': want, 'observed': r[1][:300] if isinstance(r[1], str) else r[1],
                              'code_points': ['U+%04X' % ord(c) for c in case['s']], 'chars': sorted(chars_class(case['s']))})
    return False


def check_cases(ctx, cases, chunk=25):
    # Expressions whose model result is the empty string go into chunks of their own: an error in one
    # expression makes its whole chunk fall back to one job per expression.
    groups = {}
    for k, c in enumerate(cases):
        kind, val, br = expected(c)
        groups.setdefault('expected=empty' in br, []).append(k)
    for _, idx in sorted(groups.items()):
        res = ev.evaluate_many(ctx, [expr_of(cases[k]) for k in idx], defs=DEFS, inspect=False, chunk=chunk)
        for k, r in zip(idx, res):
            judge(ctx, cases[k], r)


def check_case(ctx, case):
    check_cases(ctx, [case], chunk=1)


# ---------------------------------------------------------------- workload

def gen_string(rng):
    n = rng.randint(0, 12)
    mode = rng.random()
    if mode < 0.15:
        alpha = [rng.choice(LOWER + UPPER + MB2 + MB3 + ASTRAL) for _ in range(rng.randint(1, 2))]
        return ''.join(rng.choice(alpha) for _ in range(n))        # repeats: first-occurrence matters
    if mode < 0.3:
        return ''.join(rng.choice(LOWER + UPPER + DIGIT) for _ in range(n))
    out = []
    for k in range(n):
        r = rng.random()
        if r < 0.35:
            out.append(rng.choice(LOWER + UPPER))
        elif r < 0.42:
            out.append(rng.choice(DIGIT))
        elif r < 0.6:
            out.append(rng.choice(MB2))
        elif r < 0.72:
            out.append(rng.choice(MB3))
        elif r < 0.85:
            out.append(rng.choice(ASTRAL))
        elif r < 0.95 and out and out[-1] not in INNER:
            out.append(rng.choice(COMB))
        elif 0 < k < n - 1 and out[-1] not in INNER:
            out.append(rng.choice(INNER))
        else:
            out.append(rng.choice(LOWER))
    return ''.join(out)


def pick_form(rng, t, prefer=None):
    forms = ['dq', 'sq', 'unq', 'dq', 'unq'] + (['ident'] * 3 if ident_ok(t) else [])
    if prefer in forms:
        return prefer
    return rng.choice(forms)


def gen_piece(rng):
    n = rng.choice([0, 1, 1, 1, 2, 3])
    return ''.join(rng.choice(LOWER + UPPER + MB2 + MB3 + ASTRAL) for _ in range(n))


def cases_for(rng, s, form, style):
    n = len(s)
    base = {'s': s, 'form': form, 'style': style}
    out = [dict(base, fn='length'), dict(base, fn='to-upper-case'), dict(base, fn='to-lower-case')]
    rng_i = range(-n - 2, n + 3)
    for i in rng_i:
        out.append(dict(base, fn='slice', i=i))
        for j in rng_i:
            out.append(dict(base, fn='slice', i=i, j=j))
    for x in {gen_piece(rng), gen_piece(rng), rng.choice(['', 'X', '\u00e9\U0001F600'])}:
        xform = pick_form(rng, x)
        for i in rng_i:
            out.append(dict(base, fn='insert', x=x, xform=xform, i=i))
    subs = {'', s}
    subs.update(s)                                           # every single code point of s
    if n <= 6:
        subs.update(s[a:b] for a in range(n) for b in range(a + 1, n + 1))
    else:
        for _ in range(12):
            a = rng.randrange(n)
            subs.add(s[a:rng.randint(a + 1, min(n, a + 4))])
    for t in list(subs):
        if t:
            subs.add(t + rng.choice('qQ7\u00e9\U0001F600'))   # mostly absent
            subs.add(t.swapcase() if t.isascii() else ascii_upper(t))
            subs.add(t[1:] + t[:1])
    subs.update([s + 'a', 'a' + s, '\u0301', 'e', '\U0001F600'])
    for x in sorted(subs):
        if len(x) > 14 or (x and (x[0] in INNER or x[-1] in INNER)):
            continue
        out.append(dict(base, fn='index', x=x, xform=pick_form(rng, x)))
    return out


def worker(ctx):
    rng = ctx.rng
    k = 0
    sampled = False
    while not ctx.expired():
        if k < len(TABLE) * 4:
            # fixed edge strings, each in every form that can spell it; shared out over the workers
            t, form = TABLE[k // 4], ['dq', 'sq', 'unq', 'ident'][k % 4]
            k += 1
            if (k - 1) % ctx.nshards != ctx.shard or (form == 'ident' and not ident_ok(t)):
                continue
            style = 'module'
        else:
            t = gen_string(rng)
            form = pick_form(rng, t)
            style = rng.choice(['module'] * 6 + ['global', 'named'])
        ctx.seen('length', len(t))
        for cl in chars_class(t):
            ctx.seen('char-class', cl)
        ctx.stat('strings')
        if not t.isascii():
            ctx.stat('strings_non_ascii')
        cs = cases_for(rng, t, form, style)
        check_cases(ctx, cs)
        if not sampled and len(t) > 3:
            ctx.sample({'case': cs[len(cs) // 2], 'expr': expr_of(cs[len(cs) // 2])})
            sampled = True
