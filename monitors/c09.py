"""C09 - rsass's own expanded output reads back as the same stylesheet (relational round-trip monitor)."""
import re
import unicodedata
from .lib import css

PROP = 'C09'
LEVEL = 'exploration'
BUDGET = {'quick': 30, 'thorough': 400}
FLOOR = {'quick': 2000, 'thorough': 30000}
RULE = ('generated SCSS stylesheets inside the construct subset of the statement: rules with type/universal/class/id/attribute/'
        'pseudo selectors joined by descendant, >, + and ~ combinators and commas; declarations whose values are space and comma '
        'lists of identifiers, numbers with units (integers, decimals, many digits, exponents, signs), hex colors of 3/4/6/8 digits, '
        'quoted strings, url() (unquoted, quoted, with escapes) and CSS-only function calls (translate, cubic-bezier, local, format, '
        'linear-gradient, counter, attr, ...); @media, @supports, @font-face, @keyframes; comments.  Strings, identifiers (class, id, '
        'attribute value, value word, keyframes name), attribute-value strings, url strings and comments draw their characters from '
        'every Unicode general category (representatives of all 29 categories plus astral planes, C0/C1 controls, DEL, NUL, BOM, '
        'line separators, noncharacters), both quote characters, backslash and CSS punctuation, written literally or as hex / '
        'backslash escapes (also \\31 x and \\. in identifiers).  Each stylesheet is compiled (expanded) and the output is compiled '
        'again as plain CSS.  Distinct by source text; non-trivial = the first compile succeeded, its output is well framed by an '
        'independent scanner and holds a character outside [A-Za-z0-9 ] inside a string, identifier, url or comment.  Oracle: the '
        'second compile succeeds and prints the same text up to blank lines.  A failing stylesheet is taken apart: every construct '
        '(and for strings/identifiers every character and pair of characters) is sent through the round trip on its own to name '
        'the smallest failing part.')
LEVEL_TEXT = ('Relational monitor: the printer and the plain-CSS reader of the real library are composed and must be inverse to '
              'each other on the output; no model of either is needed.  Held = every generated stylesheet of this run came back '
              'unchanged.')
LEVEL_NOTE = ('Trusted: text comparison after dropping blank lines; the independent scanner that decides whether the first output is '
              'well framed (if it is not, that is C07\'s subject and the case is only counted).  What the first compile prints is '
              'not judged (C25/C27/C10 do that): only whether it survives being read back.')
TECHNIQUE = 'runtime monitoring: round trip printer -> plain-CSS reader over generated stylesheets, with isolation of the failing construct'
ASSUMPTIONS = ['The first compile starts from SCSS; inputs that rsass rejects as SCSS are not cases (counted as first_compile_fails).']

# ------------------------------------------------------------------ characters
_REPS = None


def reps():
    """Representatives of every general category above ASCII: the first 25 code points of each and a sparse sample."""
    global _REPS
    if _REPS is None:
        d = {}
        for cp in range(0x80, 0x110000):
            if 0xd800 <= cp <= 0xdfff:
                continue
            cat = unicodedata.category(chr(cp))
            lst = d.setdefault(cat, [])
            if len(lst) < 25 or (cp % 499 == 0 and len(lst) < 160):
                lst.append(chr(cp))
        _REPS = d
    return _REPS


SPECIAL = ['\u00a0', '\u00ad', '\u200b', '\u200d', '\u200e', '\u2028', '\u2029', '\ufeff', '\ufffd', '\ufffe', '\uffff', '\U0001F600',
           '\U00010000', '\U0010ffff', '\U000e0001', '\U0001d11e', '\u0300', '\u0085', '\u0080', '\u009f', '\u00a1', '\u2003', '\u3000',
           '\u00e9', '\u00df', '\u03a9', '\u65e5', '\u0661', '\u2160', '\u00b2', '\u1680', '\u180e', '\u061c', '\ud7ff', '\ue000', '\uf8ff']
ASCII_PUNCT = '!#$%&()*+,-./:;<=>?@[]^_`{|}~'


def cclass(c):
    o = ord(c)
    named = {'"': 'dquote', "'": 'squote', '\\': 'backslash', ' ': 'space', '\t': 'tab', '\n': 'lf', '\r': 'cr', '\f': 'ff', '\0': 'nul',
             '\x7f': 'del', '\ufeff': 'bom', '\u2028': 'line-sep', '\u2029': 'line-sep', '\ufffd': 'replacement-char'}
    if c in named:
        return named[c]
    if o < 0x20:
        return 'c0-control'
    if o < 0x80:
        return 'ascii-letter' if c.isalpha() else ('ascii-digit' if c.isdigit() else 'ascii(%s)' % c)
    if o < 0xa0:
        return 'c1-control'
    return ('astral-' if o > 0xffff else '') + unicodedata.category(c)


WHITE = set('\u0085\u00a0\u1680\u2028\u2029\u202f\u205f\u3000') | set(chr(x) for x in range(0x2000, 0x200b))


def sclass(c):
    """The class of a character as it goes into a signature (coarser than cclass: what matters to a printer/reader)."""
    if c in WHITE:
        return 'unicode-white-space'
    if c in '(){}[]':
        return 'bracket'
    k = cclass(c)
    if k == 'ascii-letter':
        return 'hex-digit' if c in 'abcdefABCDEF' else 'letter'
    if k == 'ascii-digit':
        return 'hex-digit'
    if k in ('c0-control', 'tab', 'lf', 'cr', 'ff', 'del', 'c1-control', 'nul'):
        return 'control'
    if k.startswith('astral-'):
        k = k[7:]
    if len(k) == 2 and k[0].isupper():
        return {'Co': 'private-use', 'Cn': 'unassigned', 'Cf': 'format-char', 'Zs': 'space-separator'}.get(k, 'non-ascii-printable')
    return k


def rand_char(rng, where):
    """where: 'string' | 'ident' | 'comment'"""
    k = rng.random()
    if where == 'ident':
        if k < 0.35:
            return rng.choice('abcdefghijklmnopqrstuvwxyzABCXYZ')
        if k < 0.45:
            return rng.choice('0123456789-_')
        if k < 0.55:
            return rng.choice(ASCII_PUNCT + ' "\'\\')
        if k < 0.6:
            return chr(rng.choice([1, 2, 7, 8, 9, 10, 11, 12, 13, 14, 27, 31, 127]))
    else:
        if k < 0.25:
            return rng.choice('abcdefghijklmnopqrstuvwxyzABCXYZ0123456789')
        if k < 0.35:
            return ' '
        if k < 0.45:
            return rng.choice('"\'\\')
        if k < 0.6:
            return rng.choice(ASCII_PUNCT)
        if k < 0.68:
            return chr(rng.choice([0, 1, 2, 7, 8, 9, 10, 11, 12, 13, 14, 27, 31, 127]))
    if k < 0.8:
        return rng.choice(SPECIAL)
    r = reps()
    return rng.choice(r[rng.choice(sorted(r))])


HEXD = '0123456789abcdefABCDEF'


def enc(c, mode):
    if mode == 'lit':
        return c
    if mode == 'bs':
        return '\\' + c
    if mode == 'hex6':
        return '\\%06x' % ord(c)
    return '\\%x ' % ord(c)


def string_modes(rng, chars, q):
    """Pick a way to write every character inside a quoted SCSS string."""
    out = []
    for i, c in enumerate(chars):
        o = ord(c)
        must = c == q or c in '\\\n\r\f\0' or (c == '#' and i + 1 < len(chars) and chars[i + 1] == '{')
        k = rng.random()
        if c == ' ':
            mode = 'lit'        # an escaped space in a string is C27's subject (the first compile loses it)
        elif must or k < 0.2:
            if c not in HEXD and c not in '\n\r\f\0' and (c in (q, '\\') or k < 0.07) and rng.random() < 0.7:
                mode = 'bs'
            else:
                mode = rng.choice(['hex', 'hex', 'hex6'])
        else:
            mode = 'lit'
        out.append(mode)
    return out


def is_name_char(c):
    return c.isascii() and (c.isalnum() or c in '-_') or ord(c) >= 0x80


def ident_modes(rng, chars):
    out = []
    for i, c in enumerate(chars):
        plain = (is_name_char(c) and not (i == 0 and (c.isdigit() or (c == '-' and len(chars) == 1)))
                 and not (i == 1 and chars[0] == '-' and c.isdigit()))
        if plain and rng.random() < 0.9:
            out.append('lit')
        elif c not in HEXD and c not in '\n\r\f\0' and rng.random() < 0.5:
            out.append('bs')
        else:
            out.append(rng.choice(['hex', 'hex', 'hex6']))
    return out


def write(chars, modes):
    return ''.join(enc(c, m) for c, m in zip(chars, modes))


def settle(chars, modes, ident):
    """`\\00007e` also swallows one following white space: use the short form (which brings its own) at the end of an
    identifier and in front of a literal white space."""
    for i, m in enumerate(modes):
        if m == 'hex6' and ((ident and i == len(chars) - 1) or (i + 1 < len(chars) and modes[i + 1] == 'lit' and chars[i + 1] in ' \t')):
            modes[i] = 'hex'
    return modes


RESERVED = {'not', 'and', 'or', 'null', 'true', 'false', 'from', 'through', 'to', 'in', 'if', 'else', 'url', 'calc', 'min', 'max', 'clamp',
            'var', 'env', 'element', 'expression', 'progid', 'important', 'default', 'global'}
WORDS = ['solid', 'auto', 'none', 'inherit', 'block', 'serif', 'bold', 'x', 'ab', 'foo-bar', 'red', 'Blue', 'ease-in', 'a1', '-webkit-box',
         '_u', 'A', 'item', 'k-1', 'nowrap']


class Gen:
    def __init__(self, rng):
        self.rng = rng
        self.atoms = []      # {'kind', 'alone', 'chars'?, 'modes'?, 'carrier'?}
        self.interesting = False
        self.outer = []             # at-rules around the statement being generated
        self.no_hyphen = False      # set for the second and later items of a space list: `a -b` is where Sass sees a minus

    # ---------------- atoms with characters
    def note_chars(self, chars):
        if any(not (c.isascii() and (c.isalnum() or c == ' ')) for c in chars):
            self.interesting = True

    def string(self, carrier, kind='quoted-string'):
        """carrier: minimal stylesheet with %s where the quoted string goes"""
        r = self.rng
        q = r.choice('"\'')
        n = r.choice([0, 1, 1, 2, 3, 4, 6, 9])
        chars = [rand_char(r, 'string') for _ in range(n)]
        modes = settle(chars, string_modes(r, chars, q), False)
        src = q + write(chars, modes) + q
        self.note_chars(chars)
        self.atoms.append({'kind': kind, 'q': q, 'chars': chars, 'modes': modes, 'carrier': carrier, 'alone': carrier % src})
        return src

    def ident(self, carrier, kind='value-identifier', plain=0.5):
        r = self.rng
        if r.random() < plain:
            w = r.choice(WORDS)
            while self.no_hyphen and w.startswith('-'):
                w = r.choice(WORDS)
            return w
        while True:
            n = r.choice([1, 1, 2, 3, 4, 6])
            chars = [rand_char(r, 'ident') for _ in range(n)]
            if r.random() < 0.5:
                chars.insert(0, r.choice('abcxyz_'))
            if r.random() < 0.15 and not self.no_hyphen:
                if chars[0].isdigit():
                    chars[0] = 'n'      # `-` + digit is a number, however the digit is written
                chars.insert(0, '-')
                if r.random() < 0.2:
                    chars.insert(0, '-')
            if self.no_hyphen and chars[0] == '-':
                chars.insert(0, 'h')
            if chars == ['-'] or ''.join(chars).lower() in RESERVED or (chars[0] == '-' and len(chars) == 1):
                continue
            break
        for i in range(1, len(chars)):
            if chars[i - 1] == '-' and chars[i].isdigit():
                chars[i] = 'n'          # hyphen + digit, however the digit is written, is where a number starts: not this property's subject
        modes = ident_modes(r, chars)
        if chars[0] == '-' and modes[0] == 'lit' and len(chars) == 2 and chars[1] == '-' and modes[1] == 'lit':
            chars.append('a')
            modes.append('lit')
        modes = settle(chars, modes, True)
        src = write(chars, modes)
        self.note_chars(chars)
        self.atoms.append({'kind': kind, 'chars': chars, 'modes': modes, 'carrier': carrier, 'alone': carrier % src})
        if kind == 'value-identifier':
            # the same word followed by another value: shows an escape that swallows or loses its separator
            c2 = carrier.replace('%s', '%s z9', 1)
            self.atoms.append({'kind': 'value-identifier-before-another-value', 'chars': chars, 'modes': modes, 'carrier': c2, 'alone': c2 % src})
        return src

    # ---------------- values
    def number(self):
        r = self.rng
        k = r.random()
        if k < 0.3:
            v = str(r.randint(0, 1000))
        elif k < 0.6:
            v = '%d.%s' % (r.randint(0, 99), ''.join(r.choice('0123456789') for _ in range(r.randint(1, 14))))
        elif k < 0.7:
            v = '.' + ''.join(r.choice('0123456789') for _ in range(r.randint(1, 8)))
        elif k < 0.8:
            v = r.choice(['0', '0.0', '1.0', '10.50', '0.1', '0.30000000000000004', '123456789012', '12345678901234567890', '0.00000000001',
                          '0.99999999999', '1e3', '1.5e-3', '2E2', '1e-12', '1e21', '0.5', '100', '007'])
        else:
            v = str(r.randint(0, 10 ** r.randint(1, 15)))
        if r.random() < 0.2 and not self.no_hyphen:
            v = '-' + v
        u = r.choice(['', '', 'px', 'em', 'rem', '%', '%', 'vh', 'vw', 'deg', 'rad', 'turn', 's', 'ms', 'Hz', 'dpi', 'dppx', 'fr', 'ch', 'ex',
                      'cm', 'mm', 'in', 'pt', 'pc', 'Q', 'x', 'foo', 'PX', 'vmin'])
        if 'e' in v.lower():
            u = r.choice(['', 'px', '%'])
        return v + u

    def color(self):
        r = self.rng
        n = r.choice([3, 4, 6, 8])
        digits = r.choice(['0123456789abcdef', '0123456789ABCDEF', '0123456789abcdefABCDEF', 'abcdef', '0123456789'])
        return '#' + ''.join(r.choice(digits) for _ in range(n))

    def url(self, carrier):
        r = self.rng
        k = r.random()
        if k < 0.35:
            return 'url(%s)' % self.string(carrier % 'url(%s)', 'url-string')
        if k < 0.85:
            feat, u = r.choice(self.URLS)
            src = 'url(%s)' % u
        else:
            feat, u = r.choice([('spaces-inside', ' x.png '), ('spaces-around-quoted', ' "y.png" '), ('spaces-inside-non-ascii', ' z/\u00e9.png ')])
            src = 'url(%s)' % u
        if not src.isascii() or '\\' in src:
            self.interesting = True
        group = ('escape' if feat.startswith('escaped') else
                 'value-punctuation' if feat in ('comma', 'data', 'query-and-fragment', 'brackets', 'exclamation') else 'simple')
        self.atoms.append({'kind': 'url|unquoted:' + group, 'alone': carrier % src, 'feature': feat,
                           'must_contain': 'url(%s)' % u.strip()})
        return src

    URLS = [('plain', 'x.png'), ('query-and-fragment', '/a/b.png?x=1;y=2#frag'), ('scheme', 'http://h.example/a.png'),
            ('data', 'data:image/png;base64,iVBORw0KGgo='), ('percent', 'a%20b.png'), ('non-ascii', '../up/\u00e9.svg'), ('non-ascii', 'img/\u65e5\u672c.png'),
            ('escaped-space', 'a\\ b.png'), ('escaped-parens', 'a\\(b\\).png'), ('fragment-only', '#frag'), ('comma', 'x.png?a=1,b=2'),
            ('escaped-quote', "a\\'b.png"), ('tilde', '~/x'), ('plus', 'a+b'), ('star', 'a*b.png'), ('escaped-backslash', 'a\\\\b.png'),
            ('uppercase', 'A.PNG'), ('scheme-relative', '//h.example/x'), ('equals', 'x?a=b'), ('at-sign', 'u@h/x'), ('exclamation', 'x!y'),
            ('brackets', 'x[1]')]

    CALLS = ['translate', 'translateX', 'rotate', 'scale3d', 'skew', 'matrix', 'perspective', 'attr', 'counter', 'counters', 'cubic-bezier',
             'steps', 'local', 'format', 'linear-gradient', 'radial-gradient', 'repeat', 'minmax', 'fit-content', 'drop-shadow', 'image-set',
             'symbols', 'Translate', 'my-fn', '-webkit-gradient', 'theme']

    def call(self, carrier, depth):
        r = self.rng
        name = r.choice(self.CALLS)
        while self.no_hyphen and name.startswith('-'):
            name = r.choice(self.CALLS)
        args = []
        saved = self.no_hyphen
        for _ in range(r.choice([1, 1, 2, 3, 4])):
            args.append(self.space_list(None, depth + 1, r.choice([1, 1, 1, 2, 3])))
        self.no_hyphen = saved
        src = '%s(%s)' % (name, r.choice([', ', ', ', ',']).join(args))
        if carrier:
            self.atoms.append({'kind': 'call', 'alone': carrier % src})
        return src

    def space_list(self, carrier, depth, n):
        items = []
        for i in range(n):
            self.no_hyphen = i > 0
            items.append(self.single(carrier, depth))
        self.no_hyphen = False
        return ' '.join(items)

    def single(self, carrier, depth=0):
        """one value; carrier None inside a call (the call is the atom then, its strings/identifiers are atoms of their own)"""
        r = self.rng
        c2 = carrier or 'a { p: f(%s) }'
        k = r.random()
        if k < 0.25:
            src = self.number()
            kind = 'number'
        elif k < 0.35:
            src = self.color()
            kind = 'color'
        elif k < 0.6:
            return self.string(c2, 'quoted-string')
        elif k < 0.8:
            return self.ident(c2, 'value-identifier')
        elif k < 0.88:
            return self.url(c2)
        elif depth < 2:
            return self.call(carrier, depth)
        else:
            src = self.number()
            kind = 'number'
        if carrier:
            self.atoms.append({'kind': kind, 'alone': carrier % src})
        return src

    def value(self):
        r = self.rng
        car = 'a { p: %s }'
        groups = []
        for _ in range(r.choice([1, 1, 1, 2, 3])):
            groups.append(self.space_list(car, 0, r.choice([1, 1, 2, 3, 4])))
        src = ', '.join(groups)
        if len(groups) > 1 or ' ' in src:
            self.atoms.append({'kind': 'value-list', 'alone': car % src})
        return src

    PROPS = ['color', 'margin', 'font-family', 'content', 'background', 'transform', 'transition', 'grid-template-columns', 'src', 'quotes',
             '-webkit-x', 'p', 'border-top-left-radius', 'animation-name', 'filter', 'x-y_z']

    def decl(self):
        r = self.rng
        if r.random() < 0.06:
            self.no_hyphen = True       # `--x` would be a custom property, which is outside the subset
            name = self.ident('a { %s: v }', 'property-name', plain=0.3)
            self.no_hyphen = False
        else:
            name = r.choice(self.PROPS)
        return '%s: %s;' % (name, self.value())

    # ---------------- selectors
    TYPES = ['a', 'p', 'div', 'h1', 'ul', 'li', 'svg', 'custom-el', 'A', 'x_y']
    ATTRS = ['href', 'lang', 'data-x', 'type', 'x', 'aria-label', 'DATA-Y']
    PSEUDO = [':hover', ':focus', ':first-child', ':last-of-type', '::before', '::after', '::first-line', ':nth-child(2n+1)', ':nth-child(odd)',
              ':nth-last-of-type(-n+3)', ':nth-child(3)', ':not(.x)', ':not(a)', ':lang(fr)', ':focus-within', '::selection', ':root', ':empty',
              ':not([x])', ':nth-of-type(even)', ':checked', ':Hover', '::-webkit-scrollbar']

    def simple(self):
        r = self.rng
        k = r.random()
        car = '%s { p: v }'
        if k < 0.3:
            return '.' + self.ident('.%s { p: v }', 'class-name')
        if k < 0.45:
            return '#' + self.ident('#%s { p: v }', 'id-name')
        if k < 0.75:
            name = r.choice(self.ATTRS)
            j = r.random()
            if j < 0.2:
                src = '[%s]' % name
            else:
                op = r.choice(['=', '=', '~=', '|=', '^=', '$=', '*='])
                if r.random() < 0.6:
                    v = self.string('[%s%s%%s] { p: v }' % (name, op), 'quoted-string')
                    mod = r.choice(['', '', '', ' i', ' s'])
                else:
                    v = self.ident('[%s%s%%s] { p: v }' % (name, op), 'attribute-ident')
                    mod = ''
                src = '[%s%s%s%s]' % (name, op, v, mod)
            self.atoms.append({'kind': 'attribute-selector', 'alone': car % src})
            return src
        src = r.choice(self.PSEUDO)
        self.atoms.append({'kind': 'pseudo', 'alone': car % ('a' + src)})
        return src

    def compound(self):
        r = self.rng
        parts = []
        k = r.random()
        if k < 0.5:
            parts.append(r.choice(self.TYPES))
        elif k < 0.58:
            parts.append('*')
        elif k < 0.62:
            parts.append(self.ident('%s { p: v }', 'type-name', plain=0.2))
        n = r.choice([0, 1, 1, 2, 3]) if parts else r.choice([1, 1, 2, 3])
        pe = None
        for _ in range(n):
            s = self.simple()
            if s.startswith('::'):
                pe = s
            else:
                parts.append(s)
        if pe:
            parts.append(pe)
        return ''.join(parts)

    def selector(self):
        r = self.rng
        cs = []
        for _ in range(r.choice([1, 1, 1, 2, 3])):
            s = self.compound()
            for _ in range(r.choice([0, 0, 1, 1, 2])):
                s += r.choice([' ', ' ', ' > ', ' + ', ' ~ ', '>', '+', '~']) + self.compound()
            cs.append(s)
        src = r.choice([', ', ', ', ',', ',\n']).join(cs)
        self.atoms.append({'kind': 'selector', 'alone': '%s { p: v }' % src})
        return src

    # ---------------- statements
    def comment(self):
        r = self.rng
        n = r.choice([0, 1, 3, 6, 12])
        chars = [rand_char(r, 'comment') for _ in range(n)]
        text = ''.join(chars).replace('*/', '* /').replace('#{', '# {').replace('\0', '0')
        if text.endswith('*'):
            text += ' '
        if r.random() < 0.3:
            text += '\n   second line\n * third '
        self.note_chars(text.replace('\n', ''))
        if text.startswith('#'):
            text = ' ' + text           # `/*#` is C36's subject
        src = '/*%s%s*/' % (r.choice(['', ' ', '! ']), text)
        lines = 'multi-line' if '\n' in text or '\r' in text or '\f' in text else 'one-line'
        self.atoms.append({'kind': 'comment|%s|at-top-level' % lines, 'alone': src})
        self.atoms.append({'kind': 'comment|%s|inside-a-block' % lines, 'alone': 'a {\n  %s\n  p: v;\n}' % src})
        self.atoms.append({'kind': 'comment|%s|inside-a-block' % lines, 'alone': '@media print {\n  a {\n    %s\n    p: v;\n  }\n}' % src})
        return src

    def rule(self, ind):
        r = self.rng
        body = []
        for _ in range(r.choice([1, 1, 2, 3])):
            body.append(self.comment() if r.random() < 0.12 else self.decl())
        return '%s%s {\n%s%s\n%s}' % (ind, self.selector(), ind + '  ', ('\n' + ind + '  ').join(body), ind)

    MEDIA = ['print', 'screen', 'screen and (min-width: 100px)', '(max-width: 50em)', 'not all and (monochrome)',
             'only screen and (orientation: landscape)', 'screen, print', '(min-width: 10px) and (max-width: 20.5px)', '(min-resolution: 2dppx)',
             'screen and (-webkit-min-device-pixel-ratio: 2)', 'PRINT', '(min-aspect-ratio: 16/9)', 'all and (color)']
    SUPPORTS = [('declaration', '(display: grid)'), ('not', 'not (display: grid)'), ('and', '(display: grid) and (gap: 1px)'),
                ('or', '(a: b) or (c: d)'), ('call-in-value', '(transform: rotate(45deg))'), ('string-in-value', '(font-family: "x y")'),
                ('nested-parentheses', 'not ((a: b) and (c: d))'), ('nested-parentheses', '((a: b) or (c: d)) and (e: f)')]

    def statement(self, depth):
        r = self.rng
        ind = '  ' * depth
        k = r.random()
        if self.outer and 0.65 <= k < 0.85 and depth < 2:
            inner = 'media' if k < 0.77 else 'supports'
            kind = 'nested-at-rule|inside-%s' % self.outer[-1]
            wrap = {'media': '@media print { %s }', 'supports': '@supports (a: b) { %s }'}
            self.atoms.append({'kind': kind, 'alone': wrap[self.outer[-1]] % (wrap[inner] % 'a { p: v }')})
        if k < 0.55 or depth >= 2:
            return self.rule(ind)
        if k < 0.65:
            return ind + self.comment()
        if k < 0.77:
            q = r.choice(self.MEDIA)
            self.atoms.append({'kind': 'media-query', 'alone': '@media %s { a { p: v } }' % q})
            self.outer.append('media')
            body = '\n'.join(self.statement(depth + 1) for _ in range(r.choice([1, 1, 2])))
            self.outer.pop()
            return '%s@media %s {\n%s\n%s}' % (ind, q, body, ind)
        if k < 0.85:
            feat, q = r.choice(self.SUPPORTS)
            self.atoms.append({'kind': 'supports-condition|form=' + feat, 'alone': '@supports %s { a { p: v } }' % q})
            self.outer.append('supports')
            body = '\n'.join(self.statement(depth + 1) for _ in range(r.choice([1, 1, 2])))
            self.outer.pop()
            return '%s@supports %s {\n%s\n%s}' % (ind, q, body, ind)
        if depth > 0:
            return self.rule(ind)
        if k < 0.92:
            body = ['font-family: %s;' % (self.string('@font-face { font-family: %s }', 'quoted-string') if r.random() < 0.6
                                          else self.ident('@font-face { font-family: %s }', 'value-identifier'))]
            if r.random() < 0.7:
                body.append('src: %s format(%s), local(%s);' % (self.url('@font-face { src: %s }'), self.string('@font-face { src: format(%s) }', 'quoted-string'),
                                                               self.string('@font-face { src: local(%s) }', 'quoted-string')))
            if r.random() < 0.4:
                body.append('font-weight: %s;' % r.choice(['400', 'bold', '100 900']))
            if r.random() < 0.2:
                body.insert(r.randint(0, len(body)), self.comment())
            self.atoms.append({'kind': 'font-face', 'alone': '@font-face { font-family: x; }'})
            return '@font-face {\n  %s\n}' % '\n  '.join(body)
        name = self.ident('@keyframes %s { from { p: v } }', 'keyframes-name', plain=0.4)
        frames = []
        for sel in r.choice([['from', 'to'], ['0%', '50%', '100%'], ['from', '33.3333%', 'to'], ['0%, 50%', 'to'], ['12.5%']]):
            frames.append('  %s {\n    %s\n  }' % (sel, self.decl()))
        self.atoms.append({'kind': 'keyframes', 'alone': '@keyframes k {\n%s\n}' % '\n'.join(re.sub(r'\{\n.*\n', '{ p: v;\n', f) for f in frames)})
        return '@keyframes %s {\n%s\n}' % (name, '\n'.join(frames))

    def stylesheet(self):
        r = self.rng
        return '\n'.join(self.statement(0) for _ in range(r.choice([1, 1, 2, 2, 3]))) + '\n'


def gen_case(rng):
    g = Gen(rng)
    src = g.stylesheet()
    return {'src': src, 'atoms': g.atoms, 'interesting': g.interesting}


# ------------------------------------------------------------------ oracle
def noblank(t):
    return '\n'.join(ln for ln in t.split('\n') if ln.strip(' \t\r') != '')


def first_line(msg):
    ln = (msg or '').strip().split('\n')[0]
    return re.sub(r'[0-9]+', 'N', ln)[:70]


def well_framed(out1):
    """The first output is balanced CSS and has the shape of what was generated: declarations only inside style rules,
    @font-face and keyframe blocks (if the first compile read a rule as something else, that is not about reading back)."""
    try:
        if css.balance(out1) is not None:
            return False
        for path, nd in css.walk(css.parse(css.strip_header(out1))):
            if nd['t'] == 'junk':
                return False
            if nd['t'] == 'decl' and (not path or path[-1].lower().startswith(('@media', '@supports'))):
                return False
        return True
    except Exception:
        return False


def decode(t):
    """The characters a CSS token stands for (escapes resolved as CSS Syntax says)."""
    out = []
    i, n = 0, len(t)
    while i < n:
        c = t[i]
        if c == '\\' and i + 1 < n:
            j = i + 1
            if t[j] in HEXD:
                k = j
                while k < n and k < j + 6 and t[k] in HEXD:
                    k += 1
                cp = int(t[j:k], 16)
                out.append('\ufffd' if cp == 0 or cp > 0x10ffff or 0xd800 <= cp <= 0xdfff else chr(cp))
                if k < n and t[k] in ' \t\n\r\f':
                    k += 1
                i = k
            elif t[j] == '\n':
                i = j + 1
            else:
                out.append(t[j])
                i = j + 1
        else:
            out.append(c)
            i += 1
    return ''.join(out)


def meaning(text):
    """Token stream of emitted CSS with every escape resolved and quote marks dropped: what the text says, not how."""
    out = []
    glue = False
    for kind, t in css.scan(noblank(css.strip_header(text))):
        if kind == 'ws':
            glue = False
            continue
        if kind == 'string':
            out.append(('s', decode(t[1:-1])))
        elif kind == 'other':
            if glue and out and out[-1][0] == 'o':
                out[-1] = ('o', out[-1][1] + t)
            else:
                out.append(('o', t))
        else:
            out.append((kind, t))
        glue = kind == 'other'
    return [(k, decode(t)) if k in ('o', 'url') else (k, t) for k, t in out]


def diff_kind(a, b):
    """respelled: the same tokens once escapes are resolved (other quote marks, other escapes, an escape's terminating
    space); differs-only-in-whitespace: equal once all whitespace is removed; else differs"""
    try:
        if meaning(a) == meaning(b):
            return 'respelled'
    except Exception:
        pass
    if ''.join(a.split()) == ''.join(b.split()):
        return 'differs-only-in-whitespace'
    return 'differs'


def round_trip(ctx, srcs):
    """-> per source: ('skip', why) | ('ok',) | ('bad', observed-class, detail)"""
    r1 = ctx.batch([{'src': s, 'style': 'expanded', 'precision': 10} for s in srcs])
    res = [None] * len(srcs)
    second = []
    for i, r in enumerate(r1):
        st = r.get('status')
        if st != 'ok':
            res[i] = ('skip', 'first_compile_' + ('fails' if st == 'err' else str(st)))
        elif 'out_hex' in r:
            res[i] = ('skip', 'first_output_not_utf8')
        elif not well_framed(r.get('out', '')):
            res[i] = ('skip', 'first_output_not_well_framed')
        else:
            second.append(i)
    r2 = ctx.batch([{'src': r1[i]['out'], 'syntax': 'css', 'style': 'expanded', 'precision': 10} for i in second])
    for i, r in zip(second, r2):
        st = r.get('status')
        out1 = r1[i]['out']
        if st in ('timeout', 'crash', 'harness-error'):
            res[i] = ('skip', 'second_compile_' + st)
        elif st == 'panic':
            res[i] = ('bad', 'panic', {'out1': out1[:600], 'panic': str(r.get('panic') or r.get('msg') or '')[:300]}, out1)
        elif st == 'err':
            res[i] = ('bad', 'rejected', {'out1': out1[:600], 'err': (r.get('err') or '')[:400]}, out1)
        elif noblank(r.get('out', '')) == noblank(out1) and 'out_hex' not in r:
            res[i] = ('ok',)
        else:
            res[i] = ('bad', diff_kind(out1, r.get('out', '')), {'out1': out1[:600], 'out2': r.get('out', '')[:600]}, out1)
    return res


def with_chars(atom, idx):
    """The atom's minimal stylesheet with only the characters at positions idx (in order)."""
    cs = [atom['chars'][i] for i in idx]
    ms = [atom['modes'][i] for i in idx]
    q = atom.get('q', '')
    body = write(cs, ms)
    if not q and (not cs or ms[0] == 'lit' and (cs[0].isdigit() or cs[0] == '-')):
        body = 'a' + body           # an identifier must stay one
    return atom['carrier'] % (q + body + q)


def candidates(atom, idx):
    cands = [idx[:k] + idx[k + 1:] for k in range(len(idx))]
    if not atom.get('q'):
        # dropping a character must not put a digit right after a hyphen: that is a number, not an identifier
        ch = atom['chars']
        cands = [c for c in cands if not any(ch[c[j]] == '-' and ch[c[j + 1]].isdigit() for j in range(len(c) - 1))]
    return cands


def cached_round_trip(ctx, srcs):
    cache = ctx.__dict__.setdefault('_c09_cache', {})
    if len(cache) > 50000:
        cache.clear()
    todo = [s for s in dict.fromkeys(srcs) if s not in cache]
    if todo:
        for s, r in zip(todo, round_trip(ctx, todo)):
            cache[s] = r
    return [cache[s] for s in srcs]


def isolate_many(ctx, failing):
    """failing: [(case, result)] of stylesheets that did not come back unchanged.  Finds for each the smallest parts that
    fail on their own: first every construct alone, then (strings, identifiers) delta debugging over the characters:
    drop characters while it still fails.  All of it in lockstep, so that the driver sees few, large batches."""
    srcs = []
    for case, res in failing:
        srcs += [a['alone'] for a in case['atoms']]
    rs = cached_round_trip(ctx, srcs)
    todo, seen = [], set()
    k = 0
    for case, res in failing:
        atoms = case['atoms']
        r = list(rs[k:k + len(atoms)])
        k += len(atoms)
        for i, a in enumerate(atoms):
            # Sass passes an unquoted url() through as written; if the first compile did not, the case is not about reading back
            if r[i][0] == 'bad' and 'must_contain' in a and a['must_contain'] not in r[i][3]:
                ctx.stat('first_output_changed_the_url')
                r[i] = ('skip', 'first_output_changed_the_url')
        bad = [(a, x) for a, x in zip(atoms, r) if x[0] == 'bad']
        if not bad:
            kinds = sorted(set(a['kind'] for a in atoms))
            ctx.violation('combination|no-part-fails-alone|observed=%s' % res[1], {'src': case['src'], 'part': 'combination|no-part-fails-alone'},
                          dict(res[2], parts=kinds[:20]))
            continue
        # a failing container (selector, value list, call) is only news if none of its own parts fails
        leaf = [(a, x) for a, x in bad if a['kind'] not in ('selector', 'value-list', 'call', 'attribute-selector')]
        for a, x in (leaf or bad):
            if a['alone'] in seen:
                continue
            seen.add(a['alone'])
            if not a.get('chars'):
                ctx.violation('%s|observed=%s' % (a['kind'], x[1]), {'src': a['alone'], 'part': a['kind']}, x[2])
            else:
                todo.append({'atom': a, 'idx': list(range(len(a['chars']))), 'res': x, 'done': False})
    while True:
        jobs = []
        for st in todo:
            if st['done'] or len(st['idx']) <= 1:
                st['done'] = True
                continue
            st['cands'] = candidates(st['atom'], st['idx'])
            jobs += [with_chars(st['atom'], c) for c in st['cands']]
        if not jobs:
            break
        rs = cached_round_trip(ctx, jobs)
        pos = 0
        for st in todo:
            if st['done']:
                continue
            n = len(st['cands'])
            sub = rs[pos:pos + n]
            pos += n
            for c, x in zip(st['cands'], sub):
                if x[0] == 'bad':
                    st['idx'], st['res'] = c, x
                    break
            else:
                st['done'] = True
    for st in todo:
        a, x = st['atom'], st['res']
        seq = []
        for c in (a['chars'][i] for i in st['idx']):
            kk = sclass(c)
            if not seq or seq[-1] != kk:
                seq.append(kk)
        if 'string' in a['kind']:
            seq = sorted(set(seq))  # inside quotes the order of the characters does not matter
        part = '%s|chars=%s' % (a['kind'], ','.join(seq))
        if x[1] == 'differs' and {'private-use', 'hex-digit'} <= set(seq) <= {'private-use', 'hex-digit', 'space'}:
            # one printer defect wherever the word or string stands: the escape of a private-use character is not terminated
            part = 'private-use-character-before-hex-digit'
        if x[1] == 'respelled':
            part = a['kind']        # the characters only matter through the escape that writes them
        ctx.violation('%s|observed=%s' % (part, x[1]), {'src': with_chars(a, st['idx']), 'part': part}, x[2])


def judge(ctx, case, res):
    ctx.ran(2)
    if res[0] == 'skip':
        ctx.stat(res[1])
        if res[1].startswith('second_compile_'):
            ctx.undecided(res[1])
        return
    if case.get('interesting', True):
        ctx.nontrivial(case['src'])
    for a in case.get('atoms', []):
        ctx.seen('constructs', a['kind'].split('|chars')[0])
        for c in a.get('chars', []):
            ctx.seen('character_classes_in_' + ('strings' if 'string' in a['kind'] else 'identifiers'), cclass(c))
    if res[0] == 'ok':
        ctx.stat('round_trips_equal')
        return
    if any('must_contain' in a and a['must_contain'] not in res[3] for a in case.get('atoms', [])):
        # Sass passes an unquoted url() through as written; the first compile did not: not a question of reading back
        ctx.stat('first_output_changed_the_url')
        return
    ctx.stat('round_trips_failing')
    return True


def check_case(ctx, case):
    # a replayed case is the smallest failing stylesheet itself
    res = round_trip(ctx, [case['src']])[0]
    ctx.ran(2)
    if res[0] == 'bad':
        part = case.get('part', 'stylesheet')
        if res[1] == 'respelled':
            part = part.split('|chars=')[0]
        ctx.violation('%s|observed=%s' % (part, res[1]), case, res[2])
    elif res[0] == 'skip':
        ctx.undecided(res[1])


def worker(ctx):
    first = True
    while not ctx.expired():
        cs = [gen_case(ctx.rng) for _ in range(60)]
        if first:
            ctx.sample({'src': cs[0]['src']})
            first = False
        res = round_trip(ctx, [c['src'] for c in cs])
        failing = [(c, r) for c, r in zip(cs, res) if judge(ctx, c, r)]
        if failing:
            isolate_many(ctx, failing)
