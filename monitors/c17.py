"""C17 - control-flow directives run the specified iterations (reference-model monitor).

A case is a small tree of @if / @for / @each / @while directives inside one style rule.  Every body emits
declarations `p<emit id>-<variable>: meta.inspect($variable)`, so the sequence of emitted declarations is the trace of
the iterations and of the values bound in each.  A Python interpreter of the tree (written from the property text)
predicts the exact sequence, or "must be an error".  Values bound by @each are compared with what the real compiler
itself prints for the same literal in a flat declaration (so the formatting of meta.inspect is not part of the
oracle); @for / @while counters are integers and are compared as text.

The programs do not depend on the scoping of assignments inside flow control (C16's subject): every loop variable has
a unique name, nothing is accumulated into outer variables, @while counters are globals written with !global.
"""
import copy
from fractions import Fraction

from .lib import css

PROP = 'C17'
LEVEL = 'exploration'
BUDGET = {'quick': 28, 'thorough': 300}
FLOOR = {'quick': 3000, 'thorough': 30000}
RULE = ('random trees (nesting depth 1..3) of @if/@else if/@else chains of 1..4 branches with conditions of every '
        'truthiness kind (literals, variables, comparisons on loop variables), @for from/through/to with integer bounds in '
        '[-6, 6] written as literals, variables or sums, with no unit, equal units, a unit on one side only, convertible '
        'units (in/px/pc/pt/cm/mm, s/ms, turn/deg, kHz/Hz, dppx/dpi) and - expected errors - non-integer bounds, '
        'non-integer converted bounds and incompatible units, @each over space/comma/bracketed lists of 0..6 items, single '
        'values, maps and empty maps, with nested lists and maps as items and 1..3 variables, and @while with a global '
        'counter (comparison or truthiness condition); the tree is the body of a style rule, of a mixin the rule includes, '
        'or of a function the rule calls (there the trace is appended to a global list with !global and printed by the '
        'caller).  Distinct by source text; every case contains at least one '
        'directive and is non-trivial.  Oracle: a Python interpreter of the tree predicts the exact sequence of emitted '
        'declarations; the values bound by @each are rendered by the real compiler from the same literal; an expected '
        'error only asserts that compilation fails.')
LEVEL_TEXT = ('Reference-model monitor over generated programs: which bodies run, how often, in which order and with '
              'which bound values is predicted by an independent interpreter and compared with the emitted declarations.')
LEVEL_NOTE = ('Trusted: the interpreter in this file (truthiness, range direction/inclusion/unit conversion from the CSS '
              'fixed-ratio table, destructuring with null padding), meta.inspect of the real compiler as the printer of a '
              'bound value and of the same literal, and the CSS scanner that reads the declarations back.')
TECHNIQUE = 'runtime monitoring: generated control-flow programs judged by a reference interpreter on the emitted declaration sequence'
ASSUMPTIONS = ['number bounds are integers or exact decimal fractions; "is an integer" is decided exactly on rationals, and every '
               'generated convertible bound converts to an integer exactly (so a fuzzy integer test accepts it too)']

HEADER = '@use "sass:meta";@use "sass:list";@use "sass:map";'

# ------------------------------------------------------------------ values (JSON-able)
#   ['a', text]                      atom: source text == what it denotes (numbers >= 0, identifiers, strings, null, true, false)
#   ['l', [items], 'space'|'comma', bracketed]
#   ['m', [[key, value], ...]]


def vsrc(v):
    """Source text of a value; unbracketed lists are always parenthesized."""
    if v[0] == 'a':
        return v[1]
    if v[0] == 'm':
        if not v[1]:
            return 'map.remove((k1: 1), k1)'
        return '(' + ', '.join('%s: %s' % (vsrc(k), vsrc(x)) for k, x in v[1]) + ')'
    items, sep, br = v[1], v[2], v[3]
    inner = (', ' if sep == 'comma' else ' ').join(vsrc(x) for x in items)
    if br:
        return '[' + inner + (',' if sep == 'comma' and len(items) == 1 else '') + ']'
    if not items:
        return '()'
    if len(items) == 1:
        return '(%s,)' % inner          # only comma lists of one element can be written
    return '(' + inner + ')'


def as_list(v):
    if v[0] == 'l':
        return v[1]
    if v[0] == 'm':
        return [['l', [k, x], 'space', False] for k, x in v[1]]
    return [v]


def truthy(v):
    return not (v is None or (v[0] == 'a' and v[1] in ('null', 'false')))


def has_nested(v):
    return any(x[0] != 'a' for x in as_list(v))


# ------------------------------------------------------------------ units
DIMS = [
    {'px': Fraction(1), 'in': Fraction(96), 'pc': Fraction(16), 'pt': Fraction(4, 3), 'cm': Fraction(9600, 254),
     'mm': Fraction(960, 254)},
    {'ms': Fraction(1), 's': Fraction(1000)},
    {'deg': Fraction(1), 'turn': Fraction(360)},
    {'Hz': Fraction(1), 'kHz': Fraction(1000)},
    {'dpi': Fraction(1), 'dppx': Fraction(96)},
]
LONERS = ['em', 'rem', '%', 'vw', 'x']


def ratio(ub, ua):
    """How many `ua` one `ub` is, or None when the units are not convertible."""
    if ua == ub:
        return Fraction(1)
    for d in DIMS:
        if ua in d and ub in d:
            return d[ub] / d[ua]
    return None


def dec(fr):
    """Exact decimal text of a fraction, or None if it has none with <= 8 fractional digits."""
    for digits in range(0, 9):
        s = fr * 10 ** digits
        if s.denominator == 1:
            n = int(s)
            sign = '-' if n < 0 else ''
            t = str(abs(n))
            if digits:
                t = t.rjust(digits + 1, '0')
                t = t[:-digits] + '.' + t[-digits:]
            return sign + t
    return None


# ------------------------------------------------------------------ the reference interpreter
class SassError(Exception):
    pass


class TooBig(Exception):
    pass


MAX_DECLS = 70


# Named deviations of the real compiler that are listed as known findings (DESIGN 2.7): a failing case is a known
# finding only if the real output equals the model's output with the deviation switched on.
DEVIATIONS = {
    'parenthesized-null-counts-as-truthy':
        "a condition written (null), or a variable assigned (null), keeps its parentheses as a value and counts as truthy",
}


class Model:
    def __init__(self, dev=(), limit=None):
        self.limit = MAX_DECLS if limit is None else limit
        self.out = []        # [(name, ('text', t) | ('ref', literal source)), path]
        self.glob = {}
        self.events = set()
        self.dev = set(dev)
        self.entered = set()     # (node id, branch index | 'else' | 'body'): bodies the model ran at least once
        self.desc = {}           # node id -> description of the directive as the model saw it last

    def run(self, nodes, env, path):
        for nd in nodes:
            getattr(self, 'do_' + nd['k'])(nd, env, path)

    def do_emit(self, nd, env, path):
        if not nd['vars']:
            self.push('p%d' % nd['id'], ('text', 'm'), path)
        for name in nd['vars']:
            b = self.glob[name] if name in self.glob else env[name]
            if b[0] == 'n':
                exp = ('text', '%d%s' % (b[1], b[2]))
            else:
                exp = ('ref', 'null' if b[1] is None else vsrc(b[1]))
            self.push('p%d-%s' % (nd['id'], name), exp, path)

    def push(self, name, exp, path):
        self.out.append((name, exp, path))
        if len(self.out) > self.limit:
            raise TooBig()

    def cond(self, c, env):
        k = c['c']
        if k in ('lit', 'gvar'):
            if c['kind'] == 'parenthesized-null' and 'parenthesized-null-counts-as-truthy' in self.dev:
                return True, c['kind']
            return c['t'], c['kind']
        b = self.glob[c['name']] if c['name'] in self.glob else env[c['name']]
        if k == 'var':
            if b[0] == 'n':
                return True, 'var-number'
            t = truthy(b[1])
            return t, 'var-' + ('truthy' if t else ('padded-null' if b[1] is None else b[1][1]))
        if k == 'cmp':
            assert b[0] == 'n' and b[2] == c['u']
            i, r = b[1], c['n']
            t = {'==': i == r, '!=': i != r, '<': i < r, '>': i > r, '<=': i <= r, '>=': i >= r}[c['op']]
            return t, 'cmp' + c['op']
        if k == 'eq':
            v = b[1]
            t = v is not None and v[0] == 'a' and v[1] == str(c['n'])
            return t, 'eq-' + ('hit' if t else 'miss')
        raise AssertionError(k)

    def do_if(self, nd, env, path):
        n = len(nd['branches']) + (1 if nd['else'] is not None else 0)
        for i, br in enumerate(nd['branches']):
            t, kind = self.cond(br['cond'], env)
            self.events.add(('cond', kind, t))
            if t:
                self.events.add(('if', n, 'taken=%d' % i))
                self.entered.add((nd['id'], i))
                self.run(br['body'], env, path + ['%d#if:%dbr:taken=%d:by=%s' % (nd['id'], n, i, kind)])
                return
        if nd['else'] is not None:
            self.events.add(('if', n, 'taken=else'))
            self.entered.add((nd['id'], 'else'))
            self.run(nd['else'], env, path + ['%d#if:%dbr:taken=else' % (nd['id'], n)])
        else:
            self.events.add(('if', n, 'taken=none'))

    def do_for(self, nd, env, path):
        a, b = nd['a'], nd['b']
        fa, fb = Fraction(a['n']), Fraction(b['n'])
        ua, ub = a['u'], b['u']
        if fa.denominator != 1:
            self.events.add(('for-error', 'nonint-from'))
            raise SassError('for:nonint-from')
        if ua == '' or ub == '':
            ucls = 'none' if ua == ub else ('from-only' if ua else 'to-only')
        else:
            r = ratio(ub, ua)
            if r is None:
                self.events.add(('for-error', 'incompatible'))
                raise SassError('for:incompatible-units')
            fb = fb * r
            ucls = 'same' if ua == ub else 'converted'
        if fb.denominator != 1:
            self.events.add(('for-error', 'nonint-to' if ucls != 'converted' else 'nonint-after-conversion'))
            raise SassError('for:nonint-to' if ucls != 'converted' else 'for:nonint-after-conversion')
        lo, hi = int(fa), int(fb)
        step = -1 if lo > hi else 1
        if nd['incl']:
            hi += step
        vals = list(range(lo, hi, step))
        dirn = 'empty' if not vals else ('single' if len(vals) == 1 else ('down' if step < 0 else 'up'))
        desc = 'for:%s:%s:units=%s' % ('through' if nd['incl'] else 'to', dirn, ucls)
        self.events.add(('for', 'through' if nd['incl'] else 'to', dirn, ucls))
        if ucls == 'converted':
            self.events.add(('for-conv', ua, ub))
        var = 'i%d' % nd['id']
        self.desc[nd['id']] = desc
        for i in vals:
            self.entered.add((nd['id'], 'body'))
            e = dict(env)
            e[var] = ('n', i, ua)
            self.run(nd['body'], e, path + ['%d#%s' % (nd['id'], desc)])

    def do_each(self, nd, env, path):
        src = nd['src']
        items = as_list(src)
        nv = nd['nvars']
        if src[0] == 'm':
            kind = 'map' if src[1] else 'empty-map'
        elif src[0] == 'a':
            kind = 'single-value'
        elif not items:
            kind = 'empty-list'
        else:
            kind = ('bracketed-' if src[3] else '') + src[2] + '-list'
        pad = trunc = False
        vid = nd['id']
        self.desc[vid] = 'each:%s:%dvars%s' % (kind, nv, ':nested' if has_nested(src) else '')
        for it in items:
            self.entered.add((vid, 'body'))
            e = dict(env)
            if nv == 1:
                e['e%da' % vid] = ('v', it)
            else:
                sub = as_list(it)
                pad = pad or len(sub) < nv
                trunc = trunc or len(sub) > nv
                for j in range(nv):
                    e['e%d%s' % (vid, 'abc'[j])] = ('v', sub[j] if j < len(sub) else None)
            desc = self.desc[vid]
            self.run(nd['body'], e, path + ['%d#%s' % (nd['id'], desc)])
        self.events.add(('each', kind, nv, 'nested' if has_nested(src) else 'flat',
                         'pad' if pad else '', 'trunc' if trunc else ''))
        self.events.add(('each-source-written-as', nd['via']))

    def do_while(self, nd, env, path):
        g = 'w%d' % nd['id']
        mode = nd['mode']
        self.glob[g] = ('n', nd['s'], '')
        step = -1 if mode == 'gt' or (mode == 'ne' and nd['s'] > nd['e']) else 1
        n = 0

        def test():
            w = self.glob[g][1]
            if mode == 'lt':
                return w < nd['e']
            if mode == 'le':
                return w <= nd['e']
            if mode == 'gt':
                return w > nd['e']
            if mode == 'ne':
                return w != nd['e']
            seq = nd['seq']
            assert 1 <= w <= len(seq)
            return truthy(seq[w - 1])
        desc = 'while:%s%s' % (mode, ':inc-first' if nd['inc_first'] else '')
        self.desc[nd['id']] = desc
        while test():
            self.entered.add((nd['id'], 'body'))
            n += 1
            assert n < 30
            if nd['inc_first']:
                self.glob[g] = ('n', self.glob[g][1] + step, '')
            self.run(nd['body'], env, path + ['%d#%s' % (nd['id'], desc)])
            if not nd['inc_first']:
                self.glob[g] = ('n', self.glob[g][1] + step, '')
        self.events.add(('while', mode, 'iterations=%s' % ('0' if n == 0 else ('1' if n == 1 else 'many'))))


def predict(tree, dev=()):
    """-> ('ok', [(name, exp, path)], events, model) | ('err', tag, events, model).  Raises TooBig."""
    m = Model(dev, limit=4000 if dev else None)
    try:
        m.run(tree, {}, [])
    except SassError as e:
        return ('err', str(e), m.events, m)
    return ('ok', m.out, m.events, m)


# ------------------------------------------------------------------ rendering to SCSS
def bound_src(b, pre, k, uid, which):
    n, u = b['n'], b['u']
    if b['via'] == 'var':
        name = '$b%sx%d%s' % (k, uid, which)
        pre.append('%s: %s%s;' % (name, n, u))
        return name
    if b['via'] == 'sum':
        return '(%d%s + 1%s)' % (int(n) - 1, u, u)
    return n + u


def cond_src(c, pre, k):
    if c['c'] == 'lit':
        return c['src']
    if c['c'] == 'gvar':
        name = '$c%sx%d' % (k, c['id'])
        pre.append('%s: %s;' % (name, c['src']))
        return name
    if c['c'] == 'var':
        return '$' + vname(c['name'], k)
    if c['c'] == 'cmp':
        return '$%s %s %d%s' % (vname(c['name'], k), c['op'], c['n'], c['u'])
    if c['c'] == 'eq':
        return '$%s == %d' % (vname(c['name'], k), c['n'])
    raise AssertionError(c)


def vname(name, k):
    # @while counters are globals: they carry the case tag so that bundled cases cannot collide
    return 'w%sx%s' % (k, name[1:]) if name.startswith('w') else name


def render_nodes(nodes, pre, k, ind, fn=False):
    out = []
    sp = '  ' * ind
    for nd in nodes:
        kd = nd['k']
        if kd == 'emit':
            # in a function body nothing can be emitted: the trace is appended to a global list (flagged !global, so it
            # does not depend on how plain assignments are scoped) and printed by the caller
            if not nd['vars']:
                out.append(('%s$a%s: list.append($a%s, p%d m, comma) !global;' % (sp, k, k, nd['id'])) if fn else
                           ('%sp%d: m;' % (sp, nd['id'])))
            for v in nd['vars']:
                if fn:
                    out.append('%s$a%s: list.append($a%s, p%d-%s meta.inspect($%s), comma) !global;' % (sp, k, k, nd['id'], v, vname(v, k)))
                else:
                    out.append('%sp%d-%s: meta.inspect($%s);' % (sp, nd['id'], v, vname(v, k)))
        elif kd == 'if':
            for i, br in enumerate(nd['branches']):
                out.append('%s%s %s {' % (sp, '@if' if i == 0 else '} @else if', cond_src(br['cond'], pre, k)))
                out += render_nodes(br['body'], pre, k, ind + 1, fn)
            if nd['else'] is not None:
                out.append('%s} @else {' % sp)
                out += render_nodes(nd['else'], pre, k, ind + 1, fn)
            out.append(sp + '}')
        elif kd == 'for':
            out.append('%s@for $i%d from %s %s %s {' % (sp, nd['id'], bound_src(nd['a'], pre, k, nd['id'], 'a'),
                                                      'through' if nd['incl'] else 'to',
                                                      bound_src(nd['b'], pre, k, nd['id'], 'b')))
            out += render_nodes(nd['body'], pre, k, ind + 1, fn)
            out.append(sp + '}')
        elif kd == 'each':
            vs = ', '.join('$e%d%s' % (nd['id'], 'abc'[j]) for j in range(nd['nvars']))
            s = vsrc(nd['src'])
            if nd['via'] == 'var':
                name = '$l%sx%d' % (k, nd['id'])
                pre.append('%s: %s;' % (name, s))
                s = name
            elif nd['via'] == 'bare':
                assert s[0] == '(' and s[-1] == ')'
                s = s[1:-1]
            out.append('%s@each %s in %s {' % (sp, vs, s))
            out += render_nodes(nd['body'], pre, k, ind + 1, fn)
            out.append(sp + '}')
        elif kd == 'while':
            g = '$' + vname('w%d' % nd['id'], k)
            pre.append('%s: 0;' % g)
            if nd['mode'] == 'truthy':
                seq = '$s%sx%d' % (k, nd['id'])
                pre.append('%s: (%s%s);' % (seq, ', '.join(vsrc(x) for x in nd['seq']), ',' if len(nd['seq']) == 1 else ''))
                test = 'list.nth(%s, %s)' % (seq, g)
                step = '+ 1'
            else:
                op = {'lt': '<', 'le': '<=', 'gt': '>', 'ne': '!='}[nd['mode']]
                test = '%s %s %d' % (g, op, nd['e'])
                step = '- 1' if nd['mode'] == 'gt' or (nd['mode'] == 'ne' and nd['s'] > nd['e']) else '+ 1'
            inc = '%s  %s: %s %s !global;' % (sp, g, g, step)
            out.append('%s%s: %d !global;' % (sp, g, nd['s']))
            out.append('%s@while %s {' % (sp, test))
            if nd['inc_first']:
                out.append(inc)
            out += render_nodes(nd['body'], pre, k, ind + 1, fn)
            if not nd['inc_first']:
                out.append(inc)
            out.append(sp + '}')
    return out


def render(tree, k, refs, where='rule'):
    """-> (prelude text, rule text, reference rule text).  where: the tree is the body of the rule itself, of a mixin
    included by the rule, or of a function called by the rule (functions run control flow through their own evaluator)."""
    pre = []
    body = '\n'.join(render_nodes(tree, pre, k, 1, where == 'function'))
    if where == 'rule':
        rule = '.c%s {\n%s\n}\n' % (k, body)
    elif where == 'mixin':
        rule = '@mixin m%s {\n%s\n}\n.c%s {\n  @include m%s;\n}\n' % (k, body, k, k)
    else:
        rule = ('$a%s: ();\n@function f%s() {\n%s\n  @return 0;\n}\n.c%s {\n  $r: f%s();\n  @each $n, $v in $a%s {\n    #{$n}: $v;\n  }\n}\n'
                % (k, k, body, k, k, k))
    ref = ''
    if refs:
        ref = '.r%s {\n%s\n}\n' % (k, '\n'.join('  r%d: meta.inspect(%s);' % (j, lit) for j, lit in enumerate(refs)))
    return ''.join(p + '\n' for p in pre), rule, ref


# ------------------------------------------------------------------ generation
ATOMS = ['0', '1', '2', '3', '4', '5', '6', '2px', '3em', '50%', 'a', 'b', 'foo', 'bar', 'k1', '"s"', '""', '"t u"', 'null',
         'true', 'false']
KEYS = ['a', 'b', 'c', 'foo', 'k1', '1', '2', '"s"', '3px']
TRUTHY_LITS = [('true', 'true'), ('0', 'zero'), ('1', 'number'), ('0px', 'zero'), ('""', 'empty-string'), ('"a"', 'string'),
               ('a', 'string'), ('"false"', 'string-false'), ('()', 'empty-list'), ('(a b)', 'list'), ('[]', 'empty-list'),
               ('(false,)', 'list-of-false'), ('(a: 1)', 'map'), ('map.remove((a: 1), a)', 'empty-map'),
               ('rgba(0, 0, 0, 0)', 'color'), ('(1 == 1)', 'true'), ('"null"', 'string-null'), ('(null,)', 'list-of-null')]
FALSEY_LITS = [('false', 'false'), ('null', 'null'), ('(1 == 2)', 'false'), ('map.get((a: 1), b)', 'null'),
               ('(false)', 'parenthesized-false'), ('list.nth(1 null, 2)', 'null'), ('list.nth(1 false, 2)', 'false')]
PAREN_NULL = ('(null)', 'parenthesized-null')      # a listed deviation of rsass (see DEVIATIONS): generated rarely


class Gen:
    def __init__(self, rng):
        self.rng = rng
        self.uid = 0
        self.maxdepth = rng.choice([1, 1, 1, 1, 2, 2, 2, 2, 3])

    def nid(self):
        self.uid += 1
        return self.uid

    # ---- values
    def atom(self):
        return ['a', self.rng.choice(ATOMS)]

    def value(self, depth):
        r = self.rng
        x = r.random()
        if depth >= 2 or x < 0.55:
            return self.atom()
        if x < 0.65:
            return ['m', self.pairs(r.randint(1, 3), depth + 1)]
        br = r.random() < 0.2
        n = r.choice([2, 2, 3, 4]) if not br else r.choice([0, 1, 2, 3])
        if not br and r.random() < 0.08:
            n = 0
        items = [self.value(depth + 1) for _ in range(n)]
        if br and n == 1 and items[0][0] == 'l' and not items[0][1] and not items[0][3]:
            items = [self.atom()]       # `[()]`: not a subject here (rsass reads it as `[]`, a list-literal matter)
        return ['l', items, r.choice(['space', 'comma']), br]

    def pairs(self, n, depth):
        keys = self.rng.sample(KEYS, n)
        out = []
        for k in keys:
            v = self.value(depth)
            if v[0] == 'l' and not v[3] and v[2] == 'comma' and len(v[1]) == 1:
                v = v[1][0]
            out.append([['a', k], v])
        return out

    def each_source(self):
        r = self.rng
        x = r.random()
        if x < 0.08:
            return self.atom()
        if x < 0.30:
            n = r.choice([0, 1, 2, 3, 4, 5, 6]) if r.random() < 0.9 else 0
            return ['m', self.pairs(n, 1)]
        n = r.choice([0, 1, 2, 2, 3, 3, 4, 5, 6])
        br = r.random() < 0.15
        sep = r.choice(['space', 'comma'])
        if n == 1 and not br:
            sep = 'comma'
        flat = r.random() < 0.35
        items = [self.atom() if flat else self.value(1) for _ in range(n)]
        if br and n == 1 and items[0][0] == 'l' and not items[0][1] and not items[0][3]:
            items = [self.atom()]       # `[()]`: see value()
        return ['l', items, sep, br]

    # ---- statements
    def emit(self, scope):
        r = self.rng
        if not scope:
            return {'k': 'emit', 'id': self.nid(), 'vars': []}
        inner = scope[-1][2]
        vs = [s[0] for s in scope if s[2] == inner]
        outer = [s[0] for s in scope if s[2] != inner]
        if outer and r.random() < 0.5:
            vs = r.sample(outer, min(len(outer), r.randint(1, 2))) + vs
        return {'k': 'emit', 'id': self.nid(), 'vars': vs}

    def body(self, depth, scope):
        r = self.rng
        out = [self.emit(scope)]
        if depth < self.maxdepth and r.random() < 0.8:
            out.append(self.directive(depth, scope))
            if r.random() < 0.3:
                out.append(self.emit(scope))
        elif scope and r.random() < 0.1:
            out.append({'k': 'emit', 'id': self.nid(), 'vars': []})
        return out

    def directive(self, depth, scope):
        k = self.rng.choice(['if', 'for', 'for', 'each', 'each', 'while'])
        return getattr(self, 'g_' + k)(depth + 1, scope)

    def cond(self, scope):
        r = self.rng
        x = r.random()
        nums = [s for s in scope if s[1][0] == 'n']
        vals = [s for s in scope if s[1][0] == 'v']
        if nums and x < 0.35:
            s = r.choice(nums)
            return {'c': 'cmp', 'name': s[0], 'op': r.choice(['==', '!=', '<', '>', '<=', '>=']), 'n': r.randint(-4, 4), 'u': s[1][1]}
        if vals and x < 0.6:
            s = r.choice(vals)
            if r.random() < 0.3:
                return {'c': 'eq', 'name': s[0], 'n': r.randint(0, 3)}
            return {'c': 'var', 'name': s[0]}
        t = r.random() < 0.45
        src, kind = r.choice(TRUTHY_LITS if t else FALSEY_LITS)
        if not t and r.random() < 0.04:
            src, kind = PAREN_NULL
        if r.random() < 0.2:
            return {'c': 'gvar', 'id': self.nid(), 'src': src, 't': t, 'kind': kind}
        return {'c': 'lit', 'src': src, 't': t, 'kind': kind}

    def g_if(self, depth, scope):
        r = self.rng
        n = r.choice([1, 2, 2, 3, 3, 4, 4])
        has_else = n > 1 and r.random() < 0.5
        nb = n - 1 if has_else else n
        return {'k': 'if', 'id': self.nid(),
                'branches': [{'cond': self.cond(scope), 'body': self.body(depth, scope)} for _ in range(nb)],
                'else': self.body(depth, scope) if has_else else None}

    def g_for(self, depth, scope):
        r = self.rng
        uid = self.nid()
        a = r.randint(-6, 6)
        k = r.randint(-6, 6)
        if r.random() < 0.25:
            k = max(-6, min(6, a + r.choice([-1, 0, 0, 1])))
        x = r.random()
        na, nb = str(a), str(k)
        err = None
        if x < 0.25:
            ua = ub = ''
        elif x < 0.40:
            ua = ub = r.choice(['px', 'em', '%', 's', 'deg', 'in', 'x'])
        elif x < 0.50:
            ua, ub = r.choice(['px', 'em', '%', 's']), ''
        elif x < 0.58:
            ua, ub = '', r.choice(['px', 'em', '%', 's'])
        elif x < 0.86:
            d = r.choice(DIMS)
            ua, ub = r.sample(sorted(d), 2)
            nb = None
            # every k in range (nearest first) that has an exact short decimal in ub
            for kk in sorted(range(-6, 7), key=lambda q: (abs(q - k), q)):
                t = dec(Fraction(kk) * d[ua] / d[ub])
                if t is not None:
                    nb = t
                    break
        else:
            err = r.choice(['nonint-from', 'nonint-to', 'incompatible', 'nonint-after-conversion'])
            ua = ub = r.choice(['', '', 'px'])
            if err == 'nonint-from':
                na = dec(Fraction(a) + r.choice([Fraction(1, 2), Fraction(1, 4), Fraction(1, 10)]))
            elif err == 'nonint-to':
                nb = dec(Fraction(k) + r.choice([Fraction(1, 2), Fraction(1, 4), Fraction(1, 10)]))
            elif err == 'incompatible':
                ua, ub = r.choice([('px', 's'), ('px', 'em'), ('px', '%'), ('deg', 'px'), ('em', 'rem'), ('s', 'Hz'), ('x', 'px'),
                                   ('%', 'em'), ('in', 'deg')])
            else:
                ua, ub, nb = r.choice([('px', 'pt', '1'), ('px', 'in', '0.02'), ('in', 'px', '100'), ('s', 'ms', '1500'),
                                       ('pc', 'px', '8'), ('turn', 'deg', '180'), ('px', 'cm', '1')])
        va = r.choice(['lit', 'lit', 'lit', 'var', 'sum'])
        vb = r.choice(['lit', 'lit', 'lit', 'var', 'sum'])
        if '.' in na and va == 'sum':
            va = 'lit'
        if '.' in nb and vb == 'sum':
            vb = 'lit'
        var = 'i%d' % uid
        nd = {'k': 'for', 'id': uid, 'a': {'n': na, 'u': ua, 'via': va}, 'b': {'n': nb, 'u': ub, 'via': vb},
              'incl': r.random() < 0.5}
        nd['body'] = self.body(depth, scope + [(var, ('n', ua), uid)])
        return nd

    def g_each(self, depth, scope):
        r = self.rng
        uid = self.nid()
        src = self.each_source()
        nv = r.choice([1, 1, 2, 2, 3])
        via = r.choice(['lit', 'lit', 'var', 'bare'])
        if via == 'bare' and not (src[0] == 'l' and not src[3] and len(src[1]) >= 2):
            via = 'lit'
        nd = {'k': 'each', 'id': uid, 'nvars': nv, 'src': src, 'via': via}
        sc = scope + [('e%d%s' % (uid, 'abc'[j]), ('v',), uid) for j in range(nv)]
        nd['body'] = self.body(depth, sc)
        return nd

    def g_while(self, depth, scope):
        r = self.rng
        uid = self.nid()
        mode = r.choice(['lt', 'le', 'gt', 'ne', 'truthy'])
        nd = {'k': 'while', 'id': uid, 'mode': mode, 'inc_first': r.random() < 0.3, 's': 0, 'e': 0}
        if mode == 'truthy':
            n = r.randint(0, 5)
            seq = [['a', r.choice(['0', '1', '""', '"a"', 'a', '()', 'true', '(a b)', '0px', '"false"'])] for _ in range(n)]
            seq.append(['a', r.choice(['null', 'false'])])
            seq += [['a', r.choice(['1', 'null', 'true'])] for _ in range(r.randint(0, 2))]
            nd['seq'] = seq
            nd['s'] = 1
        else:
            s = r.randint(-6, 6)
            d = r.choice([0, 0, 1, 1, 2, 3, 4, 5])
            if mode in ('lt', 'le'):
                e = s + d - (1 if r.random() < 0.2 else 0)
            elif mode == 'gt':
                e = s - d + (1 if r.random() < 0.2 else 0)
            else:
                e = s + r.choice([-1, 1]) * d
            nd['s'], nd['e'] = s, e
        nd['body'] = self.body(depth, scope + [('w%d' % uid, ('n', ''), uid)])
        return nd

    def case(self):
        r = self.rng
        n = r.choice([1, 1, 1, 2])
        tree = []
        if r.random() < 0.3:
            tree.append({'k': 'emit', 'id': self.nid(), 'vars': []})
        for _ in range(n):
            tree.append(self.directive(0, []))
            if r.random() < 0.3:
                tree.append({'k': 'emit', 'id': self.nid(), 'vars': []})
        return tree


def gen_case(rng):
    for _ in range(50):
        tree = Gen(rng).case()
        try:
            predict(tree)
        except TooBig:
            continue
        return {'tree': tree, 'where': rng.choice(['rule', 'rule', 'mixin', 'function', 'function'])}
    raise RuntimeError('generator cannot produce a small case')


# ------------------------------------------------------------------ judging
def kinds_in(nodes, acc=None):
    acc = [] if acc is None else acc
    for nd in nodes:
        if nd['k'] == 'emit':
            continue
        acc.append(nd['k'])
        if nd['k'] == 'if':
            for br in nd['branches']:
                kinds_in(br['body'], acc)
            if nd['else'] is not None:
                kinds_in(nd['else'], acc)
        else:
            kinds_in(nd['body'], acc)
    return acc


def conds_in(nodes, acc=None):
    acc = [] if acc is None else acc
    for nd in nodes:
        if nd['k'] == 'emit':
            continue
        if nd['k'] == 'if':
            for br in nd['branches']:
                acc.append(br['cond'])
                conds_in(br['body'], acc)
            if nd['else'] is not None:
                conds_in(nd['else'], acc)
        else:
            conds_in(nd['body'], acc)
    return acc


def build_case(case, k, dev=()):
    """-> dict with source pieces and the prediction."""
    pred = predict(case['tree'], dev)
    refs = []
    if pred[0] == 'ok':
        for _, exp, _ in pred[1]:
            if exp[0] == 'ref' and exp[1] not in refs:
                refs.append(exp[1])
    pre, rule, ref = render(case['tree'], k, refs, case.get('where', 'rule'))
    return {'k': k, 'pred': pred, 'refs': refs, 'pre': pre, 'rule': rule, 'ref': ref, 'src': pre + rule + ref,
            'static': static_paths(case['tree'])}


def rules_of(out):
    """Emitted CSS -> {rule prelude: [(name, value), ...]} (top-level rules only), or None if it does not scan."""
    try:
        nodes = css.parse(css.strip_header(out))
    except css.ParseProblem:
        return None
    d = {}
    for p, n, v in css.declarations(nodes):
        if len(p) != 1:
            return None
        d.setdefault(p[0], []).append((n, v))
    return d


def cond_kind(c):
    if c['c'] == 'lit':
        return c['kind']
    if c['c'] == 'gvar':
        return c['kind'] + '-in-variable'
    if c['c'] == 'cmp':
        return 'cmp' + c['op']
    return c['c']


def static_paths(nodes, path=(), acc=None):
    """emit id -> where it stands: [(node id, branch index | 'else' | 'body', static description), ...] outermost first."""
    acc = {} if acc is None else acc
    for nd in nodes:
        k = nd['k']
        if k == 'emit':
            acc[nd['id']] = list(path)
        elif k == 'if':
            for i, br in enumerate(nd['branches']):
                static_paths(br['body'], path + ((nd['id'], i, 'if-branch:cond=%s' % cond_kind(br['cond'])),), acc)
            if nd['else'] is not None:
                after = '+'.join(sorted(set(cond_kind(b['cond']) for b in nd['branches'])))
                static_paths(nd['else'], path + ((nd['id'], 'else', 'else-branch:after=%s' % after),), acc)
        else:
            static_paths(nd['body'], path + ((nd['id'], 'body', k + '-body'),), acc)
    return acc


def culprit(p, name):
    """For a declaration that the model never emits: the outermost body on its static path that the model never ran."""
    try:
        eid = int(name[1:].split('-')[0])
    except ValueError:
        return 'unknown-declaration'
    path = p['static'].get(eid)
    if path is None:
        return 'unknown-declaration'
    m = p['pred'][3]
    for nid, which, text in path:
        if (nid, which) not in m.entered:
            if which == 'body':
                return 'loop-body-of:' + m.desc.get(nid, text)     # a loop the model runs zero times (or never reaches)
            return text
    return 'top'


def binder(name, path):
    """Description of the directive that binds the variable a declaration `p<emit>-<var>` prints (the variable name
    carries the id of its directive)."""
    var = name.split('-', 1)[1] if '-' in name else ''
    digits = ''.join(ch for ch in var[1:] if ch.isdigit())
    for x in path:
        i, d = x.split('#', 1)
        if i == digits:
            return d
    return path[-1].split('#', 1)[1] if path else 'top'


def compare(p, rules):
    """rules: rules_of(output).  -> None | ('violation', sig, detail) | ('undecided', reason)"""
    k = p['k']
    exp = p['pred'][1]
    if rules is None:
        return ('undecided', 'output-does-not-scan')
    got = rules.get('.c%s' % k, [])
    refd = dict(rules.get('.r%s' % k, []))
    want = []
    for name, e, path in exp:
        if e[0] == 'text':
            want.append((name, e[1], path))
        else:
            key = 'r%d' % p['refs'].index(e[1])
            if key not in refd:
                return ('undecided', 'reference-rendering-missing')
            want.append((name, refd[key], path))
    names_w = [w[0] for w in want]
    names_g = [g[0] for g in got]
    if names_w == names_g:
        for (n, v, path), (_, gv) in zip(want, got):
            if v != gv:
                null = 'expected-null' if v == 'null' else ('observed-null' if gv == 'null' else 'other')
                return ('violation', 'wrong-value|%s|bound-by=%s' % (null, binder(n, path)),
                        {'declaration': n, 'expected': v, 'observed': gv})
        return None
    # the sequence of bodies differs: classify at the first difference
    i = 0
    while i < len(names_w) and i < len(names_g) and names_w[i] == names_g[i]:
        i += 1

    def at(path):
        return 'in=' + (path[-1].split('#', 1)[1] if path else 'top')
    if i < len(names_g) and names_g[i] not in names_w:
        sig = 'body-ran-that-must-not|' + culprit(p, names_g[i])
    elif i == len(names_g) or names_g[i] in names_w[i:]:
        sig = 'missing-iterations-or-body|' + at(want[i][2])
    elif i == len(names_w) or names_w[i] in names_g[i:]:
        sig = 'extra-iterations|' + at(next(w[2] for w in want if w[0] == names_g[i]))
    else:
        sig = 'bodies-in-other-order|' + at(want[i][2])
    return ('violation', sig,
            {'first_difference_at': i, 'expected': [(n, v) for n, v, _ in want][max(0, i - 2):i + 4],
             'observed': got[max(0, i - 2):i + 4], 'expected_count': len(want), 'observed_count': len(got)})


def err_where(case, tag):
    ks = kinds_in(case['tree'])
    return '%s|directives=%s%s' % (tag, '+'.join(sorted(set(ks))), fn_tag(case))


def fn_tag(case):
    return '|in-function-body' if case.get('where') == 'function' else ''


def judge_single(ctx, case, p=None, dev=()):
    """Compile one case on its own and judge it."""
    p = p or build_case(case, 'k', dev)
    r = ctx.compile(src=HEADER + p['src'], style='expanded', precision=10)
    return judge_result(ctx, case, p, r)


def judge_result(ctx, case, p, r):
    st = r.get('status')
    if st not in ('ok', 'err'):
        if st == 'panic':
            return ('violation', 'panic|' + err_where(case, p['pred'][1] if p['pred'][0] == 'err' else 'ok-expected'),
                    {'panic': str(r.get('err', r))[:300]})
        return ('undecided', 'driver-' + str(st))
    if p['pred'][0] == 'err':
        if st == 'ok':
            return ('violation', 'missing-error|' + err_where(case, p['pred'][1]), {'output': r.get('out', '')[:400]})
        return None
    if st == 'err':
        # is it the harness part (prelude / reference literals) that fails?
        c = ctx.compile(src=HEADER + p['pre'] + p['ref'], style='expanded', precision=10)
        if c.get('status') != 'ok':
            return ('undecided', 'reference-part-does-not-compile')
        return ('violation', 'unexpected-error|' + err_where(case, 'ok-expected'), {'error': r.get('err', '')[:400]})
    return tagged(compare(p, rules_of(r.get('out', ''))), case)


def tagged(v, case):
    if v is not None and v[0] == 'violation':
        return (v[0], v[1] + fn_tag(case), v[2])
    return v


def known_deviation(ctx, case):
    """The name of a listed deviation that explains the real behaviour of this case completely, or None."""
    if not any(c.get('kind') == 'parenthesized-null' for c in conds_in(case['tree'])):
        return None
    dev = ('parenthesized-null-counts-as-truthy',)
    try:
        v = judge_single(ctx, case, dev=dev)
    except TooBig:
        return None
    return dev[0] if v is None else None


def subtrees(tree):
    """Smaller variants of a tree (for narrowing a failing case): one top-level statement only; one statement of a body
    removed; one branch of an @if removed."""
    out = []
    if len(tree) > 1:
        for i in range(len(tree)):
            out.append([copy.deepcopy(tree[i])])

    def bodies(nd):
        if nd['k'] == 'if':
            return [br['body'] for br in nd['branches']] + ([nd['else']] if nd['else'] is not None else [])
        if nd['k'] == 'emit':
            return []
        return [nd['body']]

    def walk(nodes, rebuild):
        for i, nd in enumerate(nodes):
            if len(nodes) > 1:
                out.append(rebuild(nodes[:i] + nodes[i + 1:]))
            if nd['k'] == 'if' and len(nd['branches']) > 1:
                for j in range(len(nd['branches'])):
                    nn = copy.deepcopy(nd)
                    del nn['branches'][j]
                    out.append(rebuild(nodes[:i] + [nn] + nodes[i + 1:]))
            if nd['k'] == 'if' and nd['else'] is not None:
                nn = copy.deepcopy(nd)
                nn['else'] = None
                out.append(rebuild(nodes[:i] + [nn] + nodes[i + 1:]))
            for bi, b in enumerate(bodies(nd)):
                def rb(newbody, nd=nd, bi=bi, i=i, nodes=nodes, rebuild=rebuild):
                    nn = copy.deepcopy(nd)
                    if nn['k'] == 'if':
                        if bi < len(nn['branches']):
                            nn['branches'][bi]['body'] = newbody
                        else:
                            nn['else'] = newbody
                    else:
                        nn['body'] = newbody
                    return rebuild(nodes[:i] + [nn] + nodes[i + 1:])
                walk(b, rb)
    walk(tree, lambda nodes: copy.deepcopy(nodes))
    return out


def family(sig):
    c = sig.split('|')[0]
    return c if c in ('wrong-value', 'unexpected-error', 'missing-error', 'panic') else 'sequence'


def narrow(ctx, case, verdict):
    """Greedy reduction of a failing case to a smaller one failing in the same family and not explained by a listed
    deviation; returns (case, verdict)."""
    cls = family(verdict[1])
    budget = 60
    progress = True
    while progress and budget > 0:
        progress = False
        for t in subtrees(case['tree']):
            budget -= 1
            if budget <= 0:
                break
            cand = {'tree': t, 'where': case.get('where', 'rule')}
            try:
                v = judge_single(ctx, cand)
            except (TooBig, KeyError, AssertionError):
                continue        # the variant is not a well-formed program of the model (e.g. uses a removed variable)
            if v and v[0] == 'violation' and family(v[1]) == cls and known_deviation(ctx, cand) is None:
                case, verdict, progress = cand, v, True
                break
    return case, verdict


def record(ctx, case, p):
    pred = p['pred']
    ctx.ran()
    ctx.nontrivial(p['rule'] + p['pre'])
    for e in pred[2]:
        ctx.seen(e[0], '/'.join(str(x) for x in e[1:] if x != ''))
    ks = kinds_in(case['tree'])
    for kd in ks:
        ctx.seen('directive', kd)
    ctx.seen('expected-outcome', 'error' if pred[0] == 'err' else 'css')
    ctx.seen('context', case.get('where', 'rule'))
    if pred[0] == 'ok':
        ctx.stat('declarations_compared', len(pred[1]))
        for _, _, path in pred[1]:
            if len(path) > 1:
                ctx.seen('nesting', '>'.join(x.split('#', 1)[1].split(':')[0] for x in path))


def settle(ctx, case, verdict, reduce=True):
    if verdict is None:
        return
    if verdict[0] == 'undecided':
        ctx.undecided(verdict[1])
        return
    p = build_case(case, 'k')
    dev = known_deviation(ctx, case)
    if dev is not None:
        ctx.violation('known-deviation|' + dev, case, dict(verdict[2], source=p['src'], explained_by=DEVIATIONS[dev]))
        return
    small, v = case, verdict
    if reduce and ctx.vcount[verdict[1]] < 2:
        small, v = narrow(ctx, case, verdict)
        p = build_case(small, 'k')
    ctx.violation(v[1], small, dict(v[2], source=p['src'], found_in=case if small is not case else None))


def check_bundle(ctx, cases):
    ok_cases, err_cases = [], []
    for i, c in enumerate(cases):
        p = build_case(c, str(i))
        record(ctx, c, p)
        (ok_cases if p['pred'][0] == 'ok' else err_cases).append((c, p))
    jobs = []
    if ok_cases:
        jobs.append({'src': HEADER + ''.join(p['src'] for _, p in ok_cases), 'style': 'expanded', 'precision': 10})
    jobs += [{'src': HEADER + p['src'], 'style': 'expanded', 'precision': 10} for _, p in err_cases]
    res = ctx.batch(jobs)
    if ok_cases:
        r = res[0]
        if r.get('status') == 'ok':
            rules = rules_of(r.get('out', ''))
            for c, p in ok_cases:
                v = tagged(compare(p, rules), c)
                if v is not None and v[0] == 'violation':
                    v = judge_single(ctx, c)       # confirm on its own before anything is reported
                settle(ctx, c, v)
        else:
            for c, p in ok_cases:
                settle(ctx, c, judge_single(ctx, c))
    for (c, p), r in zip(err_cases, res[1 if ok_cases else 0:]):
        settle(ctx, c, judge_result(ctx, c, p, r))


def check_case(ctx, case):
    p = build_case(case, 'k')
    record(ctx, case, p)
    settle(ctx, case, judge_single(ctx, case, p), reduce=False)


def worker(ctx):
    rng = ctx.rng
    first = True
    while not ctx.expired():
        cases = [gen_case(rng) for _ in range(12)]
        check_bundle(ctx, cases)
        if first:
            first = False
            p = build_case(cases[0], 'k')
            ctx.sample({'source': p['src'], 'expected': [(n, e[1]) for n, e, _ in p['pred'][1]] if p['pred'][0] == 'ok' else p['pred'][1]})
