import importlib, os, sys
from .lib import runner


def main(argv):
    if len(argv) < 2:
        print('usage: check <Cnn> <quick|thorough> | check <Cnn> --replay <file>')
        return 2
    prop = argv[0].upper()
    mod = importlib.import_module('monitors.%s' % prop.lower())
    if argv[1] == '--replay':
        return runner.replay(mod, argv[2])
    tier = os.environ.get('VERIF_TIER') if argv[1] not in ('quick', 'thorough') else argv[1]
    seed = int(os.environ.get('VERIF_SEED', '1') or 1)
    return runner.run_monitor(mod, tier, seed)


if __name__ == '__main__':
    sys.exit(main(sys.argv[1:]))
