"""C36 - comments are preserved as Sass specifies (reference model over generated programs)."""
import re
from .lib import css

PROP = 'C36'
LEVEL = 'exploration'
BUDGET = {'quick': 30, 'thorough': 400}
FLOOR = {'quick': 2000, 'thorough': 30000}
RULE = ('generated SCSS programs (nesting depth <= 4) with uniquely numbered loud comments `/* cmtNx .. */` (also `/*! .. */`, '
        '`/*# .. */`, `/** .. */`, without inner spaces, spanning several lines with arbitrary inner indentation, tabs and blank '
        'lines, with interpolation of constants, globals, mixin arguments and loop variables, with text that looks like syntax: '
        'braces, quotes, `;`, `//`, `$var`, `@media`, backslash, non-ASCII) and silent comments `// silNx ..` (also `///`, `//` '
        'without a space, text containing `/*`, `*/`, `{`, `"`) in every statement position: top level, before/between/after '
        'declarations, on the line of a declaration, nested rules, @media, @supports, @font-face, @keyframes and their frames, '
        'nested property blocks, mixin bodies (once per include), @content blocks (once per @content), taken and not-taken '
        '@if/@else if/@else branches, @each/@for/@while bodies (once per iteration, also zero iterations), imported partials (top '
        'level and inside a rule), between top-level rules, before @use, last in the file with and without a final newline.  The '
        'model executes the program and lists the loud comments reached, in order, with interpolation evaluated.  Distinct by '
        'source text; non-trivial = at least two loud comments are reached, one of them inside a container, and the program has a '
        'silent comment or a not-reached loud comment.  Oracle: the comments found in the expanded output by an independent CSS '
        'scanner are exactly the model list, in order, text compared per line modulo leading/trailing whitespace; the comments '
        'in the compressed output are exactly the `/*!` ones; no silNx token occurs anywhere in either output.')
LEVEL_TEXT = ('Reference-model monitor: a small interpreter for the generated programs (constant conditions, fixed loop counts, '
              'mixin arguments, content blocks) predicts the sequence of emitted comments; both output styles of the real compiler '
              'are scanned for comments and compared with it.')
LEVEL_NOTE = ('Trusted: the program interpreter (reachability, multiplicities, interpolated values), the CSS comment scanner.  Comments '
              'are only placed in statement positions; positions where Sass reads a comment as whitespace (inside values, selectors, '
              'between `}` and `@else`, in @function bodies, before `{`) are not generated.  Where a comment lands in the output '
              '(which block, which line) is not judged, only sequence and text.  `/*# sourceMappingURL=` comments are not generated.')
TECHNIQUE = 'runtime monitoring: reference model of comment emission over generated programs, both output styles'
ASSUMPTIONS = ['dart-sass is the reference: loud comments in statement position are emitted once per evaluation; only '
               '`/*# sourceMappingURL=`/`/*# sourceURL=` comments are removed, any other `/*#` comment is an ordinary loud comment.']

WORDS = ['note', 'x y z', 'é', '日本', 'a{b}', '}', '{', '"', "it's", ';', '$v0 literal', '@media print', 'http://h.example/p',
         '// not silent', '*', '* *', '# hash', '\\', 'a:b', 'url(x)', '100%', '!important', '', 'TODO: fix', '<b>&amp;</b>',
         '@else', '@include m0', '$', '#', '/', '[x]', '(']
SILENT_WORDS = ['note', 'x y', '{', '}', '"', "it's", '/* looks loud */', '/* unterminated', '*/', ';', 'a: b;', '@media print {',
                'é', '', '$v0', '// again', 'http://h.example', '\\', '#']
LITS = [('1 + 1', '2'), ('"lit"', 'lit'), ('3 * 2', '6'), ('if(true, yes, no)', 'yes'), ('(a b)', 'a b'), ('7', '7'), ('word', 'word')]
VALS = [('foo', 'foo'), ('12', '12'), ('3px', '3px'), ('"q s"', 'q s'), ('bar-baz', 'bar-baz'), ('#abc', '#abc')]
TRUE = ['true', '1 < 2', 'not false', '1 == 1', 'a != b']
FALSE = ['false', '1 > 2', 'null', '1 == 2', 'not true']


class G:
    """Generates a program as a tree, renders it and executes it on the model side."""

    def __init__(self, rng):
        self.rng = rng
        self.n = 0
        self.mixins = []        # dicts: name, param, body, has_content, ctx ('any' | 'rule')
        self.files = {}
        self.globals = []       # (name, src, value)
        self.silent = []
        self.noimp = 0          # > 0 inside mixins, control flow and content blocks: @import is not allowed there

    def nid(self):
        self.n += 1
        return self.n

    # ------------------------------------------------------------ generation
    def comment(self, site, vis):
        r = self.rng
        if r.random() < 0.3:
            i = self.nid()
            form = r.choice(['space', 'space', 'tight', 'triple', 'loudlike', 'word'])
            tok = 'sil%dx' % i
            if form == 'tight':
                text = '//' + tok
            elif form == 'triple':
                text = '/// ' + tok + ' ' + r.choice(SILENT_WORDS)
            elif form == 'loudlike':
                text = '// ' + tok + ' ' + r.choice(['/* sil%dx looks loud */' % i, '/* unterminated', '*/ sil%dx' % i, '/*! sil%dx */' % i])
            else:
                text = '// ' + tok + ' ' + r.choice(SILENT_WORDS)
            self.silent.append([tok, form])
            return {'t': 'silent', 'text': text.rstrip(), 'tok': tok, 'form': form}
        i = self.nid()
        tok = 'cmt%dx' % i
        k = r.random()
        opener = '!' if k < 0.22 else ('#' if k < 0.27 else ('*' if k < 0.32 else ''))
        feats = []
        parts = []          # strings and ('lit', src, val) / ('var', name)
        tight = r.random() < 0.12
        parts.append(('' if tight or opener == '*' and r.random() < 0.5 else ' ') + tok)

        def words():
            w = r.choice(WORDS)
            if w:
                parts.append(' ' + w)
                if not w.isascii():
                    feats.append('nonascii')
                elif not re.match(r'^[a-zA-Z ]*$', w):
                    feats.append('punct')

        def interp():
            if vis and r.random() < 0.6:
                parts.append(' ')
                parts.append(('var', r.choice(vis)))
            else:
                parts.append(' ')
                parts.append(('lit',) + r.choice(LITS))
            if 'interp' not in feats:
                feats.append('interp')
        if not tight:
            for _ in range(r.choice([0, 1, 1, 2])):
                words()
            if r.random() < 0.3:
                interp()
                if r.random() < 0.4:
                    parts.append(r.choice(['', '-', 'px', ' ']))
                    interp()
            if r.random() < 0.25:
                feats.append('multiline')
                for _ in range(r.choice([1, 1, 2, 3])):
                    lead = r.choice(['', ' ', '  ', '   ', '    ', '      ', '\t', '\t\t', ' * ', '   * ', '  *'])
                    if r.random() < 0.1:
                        parts.append('\n')          # a blank line inside the comment
                    parts.append('\n' + lead + r.choice(['more', 'line', 'é', 'x: y;', '}', 'deeper text', tok + 'b']))
                    if r.random() < 0.25:
                        interp()
                if r.random() < 0.3:
                    parts.append('\n' + r.choice(['', ' ', '   ', '\t']))
            if not parts[-1] == '' and not (isinstance(parts[-1], str) and parts[-1].endswith(('\n', ' ', '\t'))):
                parts.append(' ')
        if opener == '' and r.random() < 0.08:
            # the `!` that marks a preserved comment may come from interpolation: the evaluated text decides
            parts.insert(0, ('lit', r.choice(['"!"', 'unquote("!")', '"!" + ""']), '!'))
            feats.append('interp-bang')
        # `/*/` would not be an opened-and-closed comment: never end the text with a slash right after the opener
        node = {'t': 'loud', 'opener': opener, 'parts': parts, 'tok': tok, 'site': site,
                'kind': '+'.join([{'': 'plain', '!': 'preserved', '#': 'hash', '*': 'doc'}[opener]] + sorted(set(feats))),
                'sameline': r.random() < 0.25}
        return node

    def decl(self):
        i = self.nid()
        return {'t': 'decl', 'text': 'p%d: v%d;' % (i, i)}

    def body(self, ctx, site, vis, depth):
        """ctx: root | rule | ns | font;  vis: names of visible variables"""
        r = self.rng
        out = []
        vis = list(vis)
        for _ in range(r.choice([1, 2, 2, 3, 3, 4])):
            k = r.random()
            if k < 0.42:
                out.append(self.comment(site, vis))
            elif k < 0.6 and ctx != 'root':
                out.append(self.decl())
            elif k < 0.66 and ctx in ('root', 'rule'):
                i = self.nid()
                src, val = r.choice(VALS)
                out.append({'t': 'var', 'name': 'l%d' % i, 'src': src, 'val': val})
                vis.append('l%d' % i)
            elif depth < 4 and ctx in ('root', 'rule'):
                out.append(self.container(ctx, site, vis, depth))
            else:
                out.append(self.comment(site, vis))
        return out

    def container(self, ctx, site, vis, depth):
        r = self.rng
        opts = ['rule', 'rule', 'rule', 'media', 'supports', 'if', 'if', 'each', 'for', 'while', 'include', 'include', 'import']
        if ctx == 'rule':
            opts += ['ns']
        if ctx == 'root' and site in ('root', 'import'):
            opts += ['fontface', 'keyframes']
        k = r.choice(opts)
        if k == 'import' and self.noimp:
            k = 'rule'
        d = depth + 1
        i = self.nid()
        if k in ('if', 'each', 'for', 'while', 'include'):
            self.noimp += 1
            try:
                return self.container2(k, i, ctx, site, vis, d)
            finally:
                self.noimp -= 1
        return self.container2(k, i, ctx, site, vis, d)

    def need_decl(self, b):
        if not any(s['t'] == 'decl' for s in b):
            b.insert(self.rng.randint(0, len(b)), self.decl())
        return b

    def container2(self, k, i, ctx, site, vis, d):
        r = self.rng
        if k == 'rule':
            if ctx == 'rule':
                sel = r.choice(['.r%d' % i, '&.r%d' % i, '> .r%d' % i, 'b.r%d, i.r%d' % (i, i), '&:hover'])
                return {'t': 'block', 'head': sel, 'body': self.body('rule', 'nested-rule', vis, d)}
            sel = r.choice(['.r%d' % i, 'a.r%d' % i, 'a.r%d, b.r%d' % (i, i), '#r%d > p' % i])
            return {'t': 'block', 'head': sel, 'body': self.body('rule', 'rule', vis, d)}
        if k == 'media':
            q = r.choice(['print', 'screen and (min-width: %dpx)' % i, '(max-width: 50em)'])
            return {'t': 'block', 'head': '@media ' + q, 'body': self.body(ctx, 'media', vis, d)}
        if k == 'supports':
            return {'t': 'block', 'head': '@supports (display: grid)', 'body': self.body(ctx, 'supports', vis, d)}
        if k == 'ns':
            return {'t': 'block', 'head': 'n%d:' % i, 'body': self.need_decl(self.body('ns', 'nsprop', vis, d))}
        if k == 'fontface':
            return {'t': 'block', 'head': '@font-face', 'body': self.need_decl(self.body('font', 'fontface', vis, d))}
        if k == 'keyframes':
            frames = []
            for sel in r.choice([['from', 'to'], ['0%', '50%', '100%'], ['from']]):
                if r.random() < 0.4:
                    frames.append(self.comment('keyframes', vis))
                frames.append({'t': 'block', 'head': sel, 'body': self.body('font', 'frame', vis, 4)})
            if r.random() < 0.4:
                frames.append(self.comment('keyframes', vis))
            return {'t': 'block', 'head': '@keyframes k%d' % i, 'body': frames}
        if k == 'if':
            clauses = []
            taken = False
            n = r.choice([1, 1, 2, 3])
            for j in range(n):
                last_else = j == n - 1 and j > 0 and r.random() < 0.6
                if last_else:
                    truth = not taken
                    cond = None
                else:
                    t = r.random() < 0.5
                    cond = r.choice(TRUE if t else FALSE)
                    truth = t and not taken
                site2 = ('if' if j == 0 else ('else' if cond is None else 'elseif')) + ('' if truth else '-not-taken')
                clauses.append({'cond': cond, 'run': truth, 'body': self.body(ctx, site2, vis, d)})
                taken = taken or truth
            return {'t': 'if', 'clauses': clauses}
        if k == 'each':
            items = r.choice([[], ['p'], ['p', 'q'], ['1px', '2px', '3px'], ['"s t"', 'u']])
            var = 'e%d' % i
            return {'t': 'each', 'var': var, 'items': items, 'body': self.body(ctx, 'each' if items else 'each-zero', vis + [var], d)}
        if k == 'for':
            a = r.randint(0, 3)
            n = r.choice([0, 1, 2, 3])
            through = r.random() < 0.5
            down = r.random() < 0.2
            var = 'f%d' % i
            return {'t': 'for', 'var': var, 'a': a, 'n': n, 'through': through, 'down': down,
                    'body': self.body(ctx, 'for' if n else 'for-zero', vis + [var], d)}
        if k == 'while':
            var = 'w%d' % i
            n = r.choice([0, 1, 2])
            return {'t': 'while', 'var': var, 'n': n, 'body': self.body(ctx, 'while' if n else 'while-zero', vis + [var], d)}
        if k == 'include':
            usable = [m for m in self.mixins if m['ctx'] == 'any' or ctx == 'rule']
            if not usable:
                return self.comment(site, vis)
            m = r.choice(usable)
            src, val = r.choice(VALS)
            block = None
            if m['has_content'] and r.random() < 0.8:
                block = self.body(ctx, 'content', vis, d)
            return {'t': 'include', 'mixin': m['name'], 'src': src, 'val': val, 'block': block}
        # import of a partial that holds comments
        name = 'p%d' % i
        self.files['_%s.scss' % name] = None        # reserved
        saved = self.cur_file
        self.cur_file = name
        # a partial is a stylesheet of its own: root-level statements only, whatever the importing position
        b = self.body('root', 'import' if ctx == 'root' and d == 1 else 'import-nested', [g[0] for g in self.globals], d)
        self.cur_file = saved
        node = {'t': 'import', 'name': name, 'body': b}
        return node

    def mixin(self):
        r = self.rng
        i = len(self.mixins)
        ctx = r.choice(['any', 'rule'])
        param = 'a%d' % i
        vis = [g[0] for g in self.globals] + [param]
        self.noimp += 1
        b = self.body('root' if ctx == 'any' else 'rule', 'mixin', vis, 2)
        self.noimp -= 1
        has_content = r.random() < 0.6
        if has_content:
            pos = r.randint(0, len(b))
            c = {'t': 'content'}
            k = r.random()
            if k < 0.2:
                b.insert(pos, c)
                b.insert(r.randint(0, len(b)), {'t': 'content'})
            elif k < 0.4:
                b.insert(pos, {'t': 'each', 'var': 'ce%d' % i, 'items': ['p', 'q'], 'body': [c]})
            elif k < 0.55:
                b.insert(pos, {'t': 'block', 'head': '.mc%d' % i, 'body': [c]})
            else:
                b.insert(pos, c)
        self.mixins.append({'name': 'm%d' % i, 'param': param, 'body': b, 'has_content': has_content, 'ctx': ctx})

    def program(self):
        r = self.rng
        self.cur_file = None
        for j in range(r.choice([0, 1, 2, 3])):
            src, val = r.choice(VALS)
            self.globals.append(('v%d' % j, src, val))
        for _ in range(r.choice([0, 1, 1, 2, 3])):
            self.mixin()
        gl = [g[0] for g in self.globals]
        top = []
        for _ in range(r.choice([1, 2, 3, 4, 5])):
            k = r.random()
            if k < 0.35:
                top.append(self.comment('root', gl))
            else:
                top.append(self.container('root', 'root', gl, 0))
        if r.random() < 0.5:
            top.append(self.comment('root-last', gl))
        return top

    # ------------------------------------------------------------ rendering
    def r_comment(self, c):
        if c['t'] == 'silent':
            return c['text']
        s = '/*' + c['opener']
        for p in c['parts']:
            if isinstance(p, str):
                s += p
            elif p[0] == 'var':
                s += '#{$%s}' % p[1]
            else:
                s += '#{%s}' % p[1]
        return s + '*/'

    def render_body(self, stmts, ind, inline=False):
        """-> text of the statements; a silent comment is always followed by a newline"""
        out = ''
        for idx, s in enumerate(stmts):
            txt = self.render(s, ind)
            if idx == 0:
                out += txt
            else:
                if out.endswith('\n'):
                    sep = ind if not inline else ''
                elif s['t'] == 'loud' and s.get('sameline'):
                    sep = ' '
                elif inline:
                    sep = ' '
                else:
                    sep = '\n' + ind
                out += sep + txt
            if s['t'] == 'silent':
                out += '\n'
        return out

    def block(self, head, body, ind):
        r = self.rng
        inline = r.random() < 0.25
        inner = ind + '  '
        txt = self.render_body(body, inner, inline)
        if inline:
            return '%s {%s%s%s}' % (head, r.choice([' ', '']), txt, '' if txt.endswith('\n') else r.choice([' ', '']))
        return '%s {\n%s%s%s}' % (head, inner, txt, ('' if txt.endswith('\n') else '\n') + ind)

    def render(self, s, ind):
        t = s['t']
        if t in ('loud', 'silent'):
            return self.r_comment(s)
        if t == 'decl':
            return s['text']
        if t == 'var':
            return '$%s: %s;' % (s['name'], s['src'])
        if t == 'content':
            return '@content;'
        if t == 'block':
            return self.block(s['head'], s['body'], ind)
        if t == 'if':
            out = ''
            for j, c in enumerate(s['clauses']):
                head = ('@if ' if j == 0 else '@else if ') + c['cond'] if c['cond'] is not None else '@else'
                out += ('' if j == 0 else ' ') + self.block(head, c['body'], ind)
            return out
        if t == 'each':
            lst = ', '.join(s['items']) if s['items'] else '()'
            return self.block('@each $%s in %s' % (s['var'], lst), s['body'], ind)
        if t == 'for':
            a, n = s['a'], s['n']
            if s['through']:
                lo, hi = a, a + n - 1
                if n == 0:
                    # `through` always runs at least once: an empty range needs `to`
                    return self.block('@for $%s from %d to %d' % (s['var'], a, a), s['body'], ind)
                frm, to = (hi, lo) if s['down'] else (lo, hi)
                return self.block('@for $%s from %d through %d' % (s['var'], frm, to), s['body'], ind)
            if s['down']:
                return self.block('@for $%s from %d to %d' % (s['var'], a + n, a), s['body'], ind)
            return self.block('@for $%s from %d to %d' % (s['var'], a, a + n), s['body'], ind)
        if t == 'while':
            v = s['var']
            body = s['body'] + [{'t': 'raw', 'text': '$%s: $%s + 1;' % (v, v)}]
            return '$%s: 0;\n%s%s' % (v, ind, self.block('@while $%s < %d' % (v, s['n']), body, ind))
        if t == 'raw':
            return s['text']
        if t == 'include':
            head = '@include %s(%s)' % (s['mixin'], s['src'])
            if s['block'] is None:
                return head + ';'
            return self.block(head, s['block'], ind)
        if t == 'import':
            text = self.render_body(s['body'], '')
            if not text.endswith('\n') and self.rng.random() < 0.7:
                text += '\n'
            self.files['_%s.scss' % s['name']] = text
            return '@import "%s";' % s['name']
        raise ValueError(t)

    def source(self, top):
        r = self.rng
        head = []
        pre = None
        if r.random() < 0.2:
            pre = self.comment('before-use', [])
            if pre['t'] == 'loud':
                pre['sameline'] = False
            head.append(self.r_comment(pre))
            head.append('@use "sass:math";')
        for name, src, val in self.globals:
            head.append('$%s: %s;' % (name, src))
        for m in self.mixins:
            head.append(self.block('@mixin %s($%s)' % (m['name'], m['param']), m['body'], ''))
        body = self.render_body(top, '')
        src = '\n'.join(head + [body])
        if not src.endswith('\n') and r.random() < 0.6:
            src += '\n'
        elif src.endswith('\n') and top and top[-1]['t'] == 'silent' and r.random() < 0.5:
            src = src[:-1]          # a silent comment that ends the file without a newline
        return src, pre

    # ------------------------------------------------------------ the model
    def execute(self, stmts, env, out, content=None, in_rule=False):
        """out: the item list of the current destination block; items are comment entries [tok, text, kind, site] and
        nested destination blocks {'hoist': bool, 'items': [...]} (hoist marks an @media/@supports block evaluated
        inside a style rule, the subject of one documented deviation)."""
        for s in stmts:
            t = s['t']
            if t == 'loud':
                text = '/*' + s['opener']
                for p in s['parts']:
                    if isinstance(p, str):
                        text += p
                    elif p[0] == 'var':
                        text += env[p[1]]
                    else:
                        text += p[2]
                out.append([s['tok'], text + '*/', s['kind'], s['site']])
            elif t == 'var':
                env[s['name']] = s['val']
            elif t == 'block':
                head = s['head']
                if head.endswith(':'):
                    # a nested property block is not a block of the output: its comments go to the enclosing rule
                    self.execute(s['body'], env, out, content, in_rule)
                else:
                    is_at = head.startswith('@')
                    child = {'hoist': in_rule and head.startswith(('@media', '@supports')), 'items': []}
                    out.append(child)
                    self.execute(s['body'], env, child['items'], content, in_rule or not is_at)
            elif t == 'if':
                for c in s['clauses']:
                    if c['run']:
                        self.execute(c['body'], env, out, content, in_rule)
            elif t == 'each':
                for it in s['items']:
                    env[s['var']] = it[1:-1] if it.startswith('"') else it
                    self.execute(s['body'], env, out, content, in_rule)
            elif t == 'for':
                a, n = s['a'], s['n']
                seq = list(range(a, a + n))
                if s['down']:
                    # from hi down: `through` counts hi..lo, `to` counts a+n .. a+1
                    seq = list(range(a + n - 1, a - 1, -1)) if s['through'] else list(range(a + n, a, -1))
                for v in seq:
                    env[s['var']] = str(v)
                    self.execute(s['body'], env, out, content, in_rule)
            elif t == 'while':
                for v in range(s['n']):
                    env[s['var']] = str(v)
                    self.execute(s['body'], env, out, content, in_rule)
            elif t == 'include':
                m = next(x for x in self.mixins if x['name'] == s['mixin'])
                saved = env.get(m['param'])
                env[m['param']] = s['val']
                self.execute(m['body'], env, out, (s['block'], content), in_rule)
                if saved is not None:
                    env[m['param']] = saved
            elif t == 'content':
                if content is not None and content[0] is not None:
                    self.execute(content[0], env, out, content[1], in_rule)
            elif t == 'import':
                # in output order an import is transparent; under the hoisting deviation the imported comments count as nested
                child = {'hoist': False, 'items': []}
                out.append(child)
                self.execute(s['body'], env, child['items'], content, in_rule)


def flatten(items, hoist=False):
    """The comment entries of a destination tree in output order.  hoist=True is the documented deviation: an
    @media/@supports block evaluated inside a style rule puts its own comments before everything nested in it."""
    out = []
    for it in items:
        if not isinstance(it, dict):
            out.append(it)
        elif hoist and it['hoist']:
            out += [x for x in it['items'] if not isinstance(x, dict)]
            out += flatten([x for x in it['items'] if isinstance(x, dict)], hoist)
        else:
            out += flatten(it['items'], hoist)
    return out


def count_loud(stmts, mixins=None):
    n = 0
    for s in stmts:
        if s['t'] == 'loud':
            n += 1
        for key in ('body', 'block'):
            if isinstance(s.get(key), list):
                n += count_loud(s[key])
        for c in s.get('clauses', []):
            n += count_loud(c['body'])
    return n


def gen_case(rng):
    g = G(rng)
    top = g.program()
    src, pre = g.source(top)
    env = {name: val for name, src_, val in g.globals}
    out = []
    if pre is not None and pre['t'] == 'loud':
        g.execute([pre], env, out)
    g.execute(top, env, out)
    files = {k: v for k, v in g.files.items() if v is not None}
    files['main.scss'] = src
    written = count_loud(top) + sum(count_loud(m['body']) for m in g.mixins)
    loud = flatten(out)
    hoisted = flatten(out, True)
    reached_toks = set(x[0] for x in loud)
    case = {'files': files, 'loud': loud, 'silent': g.silent, 'written': written, 'unreached': max(0, written - len(reached_toks))}
    if hoisted != loud:
        case['loud_if_hoisted'] = hoisted
    return case


# ---------------------------------------------------------------- the oracle
def norm(text, style='expanded'):
    """Comment text modulo indentation of its lines and whitespace next to the delimiters.  In compressed style every
    run of whitespace counts as one space (the statement only says such comments are kept)."""
    inner = text[2:-2] if text.endswith('*/') and len(text) >= 4 else text[2:]
    inner = inner.replace('\r\n', '\n').replace('\r', '\n').replace('\f', '\n')
    if style == 'compressed':
        return ' '.join(inner.split())
    lines = [ln.strip(' \t') for ln in inner.split('\n')]
    while lines and lines[-1] == '':
        lines.pop()
    return '\n'.join(lines).strip()


def sig_kind(kind):
    """The part of a comment's kind that goes into a signature: opener, multi-line or not, interpolated or not."""
    parts = kind.split('+')
    return '+'.join([parts[0]] + [f for f in parts[1:] if f in ('multiline', 'interp')])


_TOK = re.compile(r'cmt\d+x')
_SIL = re.compile(r'sil\d+x')


def site_of(e):
    return e[3]


def diff_signature(style, exp, obs):
    """exp: [[tok, text, kind, site]], obs: [comment text].  None when they agree."""
    ne = [(norm(e[1], style), e[1].startswith('/*!')) for e in exp]
    no = [(norm(o, style), o.startswith('/*!')) for o in obs]
    if ne == no:
        return None
    i = 0
    while i < len(ne) and i < len(no) and ne[i] == no[i]:
        i += 1
    e = exp[i] if i < len(exp) else None
    o = obs[i] if i < len(obs) else None
    det = {'index': i, 'expected': e[1] if e else None, 'observed': o, 'expected_count': len(exp), 'observed_count': len(obs)}

    def tok_of(text):
        m = _TOK.search(text)
        return m.group(0) if m else None

    def classify_extra(text):
        t = tok_of(text)
        if _SIL.search(text):
            return 'holds-silent-comment-text'
        if t is None:
            return 'unknown-comment'
        if not any(x[0] == t for x in exp):
            return 'comment-that-is-not-reached' if style == 'expanded' else 'comment-that-is-not-preserved'
        return 'comment-repeated'
    if o is None:
        return '%s|missing|kind=%s|site=%s' % (style, sig_kind(e[2]), site_of(e)), det
    if e is None:
        return '%s|extra|%s' % (style, classify_extra(o)), det
    to = tok_of(o)
    if to == e[0]:
        if '#{' in o:
            how = 'interpolation-left-unevaluated'
        elif ''.join(o.split()) == ''.join(e[1].split()):
            how = 'whitespace-or-line-structure'
        elif o.startswith('/*!') != e[1].startswith('/*!'):
            how = 'opener'
        else:
            how = 'text'
        return '%s|text-differs|kind=%s|how=%s' % (style, sig_kind(e[2]), how), det
    n_exp = sum(1 for x in exp if x[0] == e[0])
    n_obs = sum(1 for x in obs if tok_of(x) == e[0])
    if n_obs < n_exp:
        return '%s|missing|kind=%s|site=%s' % (style, sig_kind(e[2]), site_of(e)), det
    if to is None or sum(1 for x in obs if tok_of(x) == to) > sum(1 for x in exp if x[0] == to):
        return '%s|extra|%s' % (style, classify_extra(o)), det
    return '%s|order|kind=%s|site=%s' % (style, sig_kind(e[2]), site_of(e)), det


# Named deviations of the model (each one a documented, separately listed defect of the tree).  A failing case is
# reported under a deviation's name only if the observation equals the model with exactly these switches on.
def dev_hash(exp):
    return [e for e in exp if not e[2].startswith('hash')]


def judge_style(ctx, case, style, r):
    st = r.get('status')
    if st in ('timeout', 'crash', 'harness-error', 'panic'):
        ctx.undecided(str(st))
        return
    if st != 'ok':
        msg = re.sub(r'[0-9]+', 'N', (r.get('err') or '').strip().split('\n')[0])[:60]
        ctx.violation('%s|valid-program-rejected|%s' % (style, msg), case, {'err': (r.get('err') or '')[:600]})
        return
    out = r.get('out', '')
    obs = [t for k, t in css.scan(out) if k == 'comment']
    m = _SIL.search(out)
    if m:
        form = next((f for t, f in case['silent'] if t == m.group(0)), 'unknown')
        ctx.violation('%s|silent-comment-text-in-output|form=%s' % (style, form), case, {'token': m.group(0), 'out': out[:600]})
        return
    keep = (lambda l: l) if style == 'expanded' else (lambda l: [e for e in l if e[1].startswith('/*!')])
    exp = keep(case['loud'])
    d = diff_signature(style, exp, obs)
    if d is None:
        return
    # The model with named deviations switched on (each one a separately documented defect of the tree).  The case is
    # reported under the deviations' names only if the observation equals that variant of the model exactly; any
    # other disagreement is reported by what differs from the variant that agrees longest.
    variants = []
    hoisted = keep(case['loud_if_hoisted']) if 'loud_if_hoisted' in case else None
    if hoisted is not None and hoisted != exp:
        variants.append((['at-rule-in-style-rule-hoists-own-comments'], hoisted))
    if style == 'expanded':
        for names, l in [([], exp)] + list(variants):
            if any(e[2].startswith('hash') for e in l):
                variants.append((names + ['hash-comment-not-emitted'], dev_hash(l)))
    elif exp:
        variants.append((['preserved-comments-not-emitted'], []))
    best = d
    for names, l in variants:
        dv = diff_signature(style, l, obs)
        if dv is None:
            ctx.violation('%s|deviation=%s' % (style, '+'.join(names)), case,
                          {'expected': [e[1] for e in exp][:8], 'observed': obs[:8], 'out': out[:600]})
            return
        if dv[1]["index"] >= best[1]["index"]:      # on a tie look past the documented deviations
            best = dv
    ctx.violation(best[0], case, dict(best[1], out=out[:800]))


def judge(ctx, case, re_, rc):
    ctx.ran(2)
    loud = case['loud']
    deep = [e for e in loud if e[3] not in ('root', 'root-last', 'before-use')]
    if len(loud) >= 2 and deep and (case['silent'] or case.get('unreached')):
        ctx.nontrivial(case['files'])
    for e in loud:
        ctx.seen('reached_kind_at_site', '%s @ %s' % (e[2].split('+')[0], e[3]))
        for f in e[2].split('+')[1:]:
            ctx.seen('comment_features', f)
    for t, f in case['silent']:
        ctx.seen('silent_forms', f)
    ctx.stat('loud_comments_expected', len(loud))
    ctx.stat('preserved_comments_expected', sum(1 for e in loud if e[1].startswith('/*!')))
    ctx.stat('loud_comments_not_reached', case.get('unreached', 0))
    ctx.stat('silent_comments', len(case['silent']))
    judge_style(ctx, case, 'expanded', re_)
    judge_style(ctx, case, 'compressed', rc)


def jobs_of(case):
    return [{'files': case['files'], 'entry': 'main.scss', 'style': st, 'precision': 10} for st in ('expanded', 'compressed')]


def check_case(ctx, case):
    a, b = ctx.batch(jobs_of(case))
    judge(ctx, case, a, b)


def worker(ctx):
    first = True
    while not ctx.expired():
        cs = [gen_case(ctx.rng) for _ in range(60)]
        if first:
            ctx.sample({'files': cs[0]['files'], 'loud': cs[0]['loud'][:6]})
            first = False
        jobs = []
        for c in cs:
            jobs += jobs_of(c)
        res = ctx.batch(jobs)
        for i, c in enumerate(cs):
            judge(ctx, c, res[2 * i], res[2 * i + 1])
