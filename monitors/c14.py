"""C14 - not/and/or follow Sass truthiness, with short-circuit evaluation (reference-model + relational monitor)."""
from .lib import ev

PROP = 'C14'
LEVEL = 'exploration'
BUDGET = {'quick': 25, 'thorough': 240}
FLOOR = {'quick': 1500, 'thorough': 1500}
EXHAUSTIVE = {'quick': True, 'thorough': True}
RULE = ('all operand kinds (booleans, null, numbers incl. 0 and NaN, strings incl. empty, empty and non-empty lists, maps, '
        'colors, functions, calc) in `not x`, `x and y`, `x or y`, `not (x and y)`, `not (x or y)`, with variables and '
        'literals, and with right operands that fail when evaluated (undefined variable, @error function, division '
        'misuse); enumerated exhaustively over the operand table (sharded).  Distinct by expression text; non-trivial = '
        'every case.  Oracle: truthiness model (only false and null are falsey); the value of and/or is compared with the '
        'value rsass itself prints for the selected operand; an unneeded failing operand must not fail the compilation, a '
        'needed one must.')
LEVEL_TEXT = ('Reference-model monitor, exhaustive over the operand table: which operand an and/or yields and the truth '
              'value of not are predicted by a two-line truthiness model; evaluation of an unneeded operand is made '
              'observable as a compilation failure.')
LEVEL_NOTE = 'Trusted: the operand table tags (truthy/falsey) and inspect() as the printer for both sides of the comparison.'
TECHNIQUE = 'runtime monitoring: exhaustive operand table against a truthiness model with failing right operands as side-effect probes'

# (expression, truthy?, kind)
OPERANDS = [
    ('true', True, 'bool'), ('false', False, 'bool'), ('null', False, 'null'), ('0', True, 'number'), ('1', True, 'number'),
    ('-1px', True, 'number'), ('math.div(0, 0)', True, 'number'), ('""', True, 'string'), ('"a"', True, 'string'), ('a', True, 'string'),
    ('"false"', True, 'string'), ('unquote("")', True, 'string'), ('()', True, 'list'), ('(a b)', True, 'list'), ('[]', True, 'list'),
    ('(false,)', True, 'list'), ('(a: 1)', True, 'map'), ('map.remove((a: 1), a)', True, 'map'), ('red', True, 'color'),
    ('rgba(0, 0, 0, 0)', True, 'color'), ('meta.get-function("abs")', True, 'function'), ('calc(1px + 1%)', True, 'calc'),
    ('map.get((a: 1), b)', False, 'null'), ('(1 == 2)', False, 'bool'), ('(not 1)', False, 'bool'), 
    ('$t', True, 'bool'), ('$f', False, 'bool'), ('$n', False, 'null'), ('$z', True, 'number'), ('$e', True, 'string'), ('$l', True, 'list'),
]
# A parenthesized single value is the same value: a separate small family, so that its findings have their own signatures.
PAREN = [('(null)', False, 'null'), ('(false)', False, 'bool'), ('(true)', True, 'bool'), ('(0)', True, 'number'), ('((a: 1))', True, 'map'),
         ('($n)', False, 'null'), ('("")', True, 'string')]
DEFS = ('$t: true; $f: false; $n: null; $z: 0; $e: ""; $l: ();'
        '@function boom() { @error "evaluated"; @return 1; }')
FAILING = ['$undefined', 'boom()', 'nth((), 1)', 'map.get(1, 2)']


def cases():
    out = []
    for x, tx, kx in OPERANDS:
        out.append({'form': 'not', 'x': x, 'kinds': kx})
        for y, ty, ky in OPERANDS:
            for op in ('and', 'or'):
                out.append({'form': op, 'x': x, 'y': y, 'kinds': kx + ',' + ky})
                out.append({'form': 'not-' + op, 'x': x, 'y': y, 'kinds': kx + ',' + ky})
        for f in FAILING:
            for op in ('and', 'or'):
                out.append({'form': op + '-failing', 'x': x, 'y': f, 'kinds': kx + ',failing'})
    for x, tx, kx in PAREN:
        out.append({'form': 'not', 'x': x, 'kinds': kx, 'paren': True})
        for y in ('true', '0', 'null'):
            for op in ('and', 'or'):
                out.append({'form': op, 'x': x, 'y': y, 'kinds': kx + ',' + ('null' if y == 'null' else 'other'), 'paren': True})
        for op in ('and', 'or'):
            out.append({'form': op + '-failing', 'x': x, 'y': '$undefined', 'kinds': kx + ',failing', 'paren': True})
    return out


TRUTH = {x: t for x, t, _ in OPERANDS + PAREN}


def check_cases(ctx, cs):
    exprs = []
    for c in cs:
        f = c['form']
        if f == 'not':
            exprs += ['not %s' % c['x'], 'not (%s)' % c['x']]
        elif f in ('and', 'or'):
            exprs += ['%s %s %s' % (c['x'], f, c['y']), c['x'], c['y']]
        elif f.startswith('not-'):
            exprs += ['not (%s %s %s)' % (c['x'], f[4:], c['y'])]
        else:
            exprs += ['%s %s %s' % (c['x'], f.split('-')[0], c['y']), c['x']]
    res = ev.evaluate_many(ctx, exprs, defs=DEFS, chunk=10)
    i = 0
    for c in cs:
        f = c['form']
        ctx.ran()
        ctx.nontrivial(c)
        tx = TRUTH[c['x']]
        pfx = 'parenthesized-single-value|' if c.get('paren') else ''
        if f == 'not':
            want = 'false' if tx else 'true'
            for k in range(2):
                r = res[i + k]
                if r != ('ok', want):
                    ctx.violation(pfx + 'not|form=' + ('bare' if k == 0 else 'in-parentheses') + '|operand=%s|expected=%s|observed=%s' % (c['kinds'], want, ('unevaluated-text' if r[1] not in ('true', 'false') else 'opposite') if r[0] == 'ok' else r[0]),
                                  c, {'expr': exprs[i + k], 'observed': r[1][:120]})
            i += 2
        elif f in ('and', 'or'):
            r, rx, ry = res[i:i + 3]
            i += 3
            if rx[0] != 'ok' or ry[0] != 'ok':
                ctx.undecided('operand-does-not-evaluate')
                continue
            pick = (rx if not tx else ry) if f == 'and' else (rx if tx else ry)
            if r != pick:
                ctx.violation(pfx + '%s|left=%s-%s|wrong-operand-selected' % (f, 'truthy' if tx else 'falsey', c['kinds'].split(',')[0]), c,
                              {'observed': r[1][:120], 'expected': pick[1][:120]})
        elif f.startswith('not-'):
            op = f[4:]
            ty = TRUTH[c['y']]
            val = (tx and ty) if op == 'and' else (tx or ty)
            want = 'false' if val else 'true'
            kx, ky = c['kinds'].split(',')
            sel = (kx if not tx else ky) if op == 'and' else (kx if tx else ky)
            r = res[i]
            i += 1
            if r != ('ok', want):
                ctx.violation('not-of-%s|selected-operand=%s|expected=%s|observed=%s' % (op, sel, want, ('unevaluated-text' if r[1] not in ('true', 'false') else 'opposite') if r[0] == 'ok' else r[0]), c,
                              {'observed': r[1][:120]})
        else:
            op = f.split('-')[0]
            r, rx = res[i:i + 2]
            i += 2
            needed = tx if op == 'and' else not tx
            if needed and r[0] != 'err':
                ctx.violation(pfx + '%s|left=%s|needed-failing-operand-did-not-fail' % (op, c['kinds'].split(',')[0]), c, {'observed': r[1][:120]})
            if not needed:
                if r[0] == 'err':
                    ctx.violation(pfx + '%s|left=%s|unneeded-operand-was-evaluated' % (op, c['kinds'].split(',')[0]), c, {'error': r[1][-300:]})
                elif r != rx:
                    ctx.violation(pfx + '%s|left=%s|short-circuit-value-wrong' % (op, c['kinds'].split(',')[0]), c, {'observed': r[1][:120], 'expected': rx[1][:120]})


def check_case(ctx, case):
    check_cases(ctx, [case])


def worker(ctx):
    cs = cases()
    mine = [c for i, c in enumerate(cs) if i % ctx.nshards == ctx.shard]
    done = True
    for i in range(0, len(mine), 40):
        if ctx.expired():
            done = False
            break
        check_cases(ctx, mine[i:i + 40])
    if mine:
        ctx.sample(mine[0])
    if done:
        ctx.stat('space_completed')
