"""C02 - module loading terminates; only real cycles are loop errors (graph model + lock events)."""
import itertools
from .lib import loadgraph as lg

PROP = 'C02'
LEVEL = 'exploration'
BUDGET = {'quick': 20, 'thorough': 420}
FLOOR = {'quick': 20000, 'thorough': 300000}
EXHAUSTIVE = {'quick': True, 'thorough': True}
RULE = ('load graphs over files main.scss (entry), a.scss and d/b.scss: every file has a list of load statements, each '
        '(kind in @use/@forward/@import/meta.load-css) x (target file) x (URL spelling in plain `a`, `./a`, `d/../a` and the '
        'matching forms from inside d/), compiled through the in-memory loader which resolves . and .. like a file system.  '
        'quick: ALL graphs with out-degree <= 1 per file (37^3 = 50 653), the same space again over main.scss, the directory index '
        'k/_index.scss and k/s/y.scss with the spellings `k` / `..`, `k/.` / `../.` and `k/_index`, then random graphs over 2..6 files with out-degree '
        '<= 2, more placements (partials, d/e/, directory indexes, plain .css leaves that are loaded several times) and more spellings (explicit extension, underscore, ./d/e/../../x).  thorough: '
        'additionally ALL graphs with out-degree <= 2 for the entry and <= 1 for the others (1 824 877).  Distinct by the graph; '
        'every graph with at least one edge is non-trivial.  Oracle: a cycle reachable from the entry => the result is a loop '
        'error (Error::ImportLoop or a message saying the file/module is already being loaded); no reachable cycle => the run '
        'finishes and the result is not a loop error.  A process death (stack overflow) or a timeout that persists at 60 s is '
        '"did not terminate with CSS or an error".  On successful runs the lock/unlock events must balance.')
LEVEL_TEXT = ('Reference-model monitor over a bounded-exhaustive space of load graphs: the real loader, lock table and module cache '
              'run every graph; a 20-line reachability model says whether a loop error is due.  Termination is observed as '
              'process survival under an 8 MiB stack and a wall-clock watchdog with one long retry.')
LEVEL_NOTE = ('Trusted: the in-memory loader of the harness (resolves . and .. as a file system does), the graph model.  '
              'Only unconditional top-level loads are generated.')
TECHNIQUE = 'runtime monitoring: bounded-exhaustive load graphs against a cycle-reachability model, with lock/unlock event balance'
ASSUMPTIONS = ['a file system resolves a, ./a and d/../a to one file (the in-memory loader does)',
               'files have no members, so no error other than a loop error is due in any generated graph']

BASE_FILES = ['main.scss', 'a.scss', 'd/b.scss']


def is_loop_error(r):
    if r.get('status') != 'err':
        return False
    if r.get('kind') == 'loop':
        return True
    m = r.get('err', '').lower()
    return 'already being loaded' in m or 'module loop' in m or 'import loop' in m


def job_of(graph):
    return {'files': lg.render(graph), 'entry': graph['files'][0]}


def judge(ctx, graph, r):
    ctx.ran()
    nedges = sum(len(e) for e in graph['edges'])
    if nedges:
        ctx.nontrivial(graph)
    cyc = lg.has_reachable_cycle(graph)
    st = r.get('status')
    if st == 'timeout':
        r2 = ctx.driver.call(job_of(graph), timeout=60)
        if r2.get('status') == 'timeout':
            st = 'no-termination'
        else:
            r, st = r2, r2.get('status')
    if st in ('harness-error',):
        ctx.undecided('harness-error')
        return
    kinds, nonplain, clen = lg.cycle_info(graph) if cyc else ([], False, 0)
    obs = 'loop-error' if is_loop_error(r) else ('abort' if st == 'crash' else st)
    ctx.stat(('cyclic' if cyc else 'acyclic') + ':' + obs)
    for k in set(e[0] for es in graph['edges'] for e in es):
        ctx.seen('edge_kinds', k)
    for es in graph['edges']:
        for e in es:
            ctx.seen('spellings', e[2])
    if cyc:
        ctx.seen('cycle_shapes', '%s len=%d %s' % ('+'.join(kinds), clen, 'respelled' if nonplain else 'plain'))
        if obs != 'loop-error':
            sig = 'cyclic|cycle-kinds=%s|spelling=%s|observed=%s' % ('+'.join(kinds), 'respelled' if nonplain else 'plain', obs)
            ctx.violation(sig, graph, {'observed': obs, 'signal': r.get('signal'), 'err': r.get('err', '')[:300], 'out': r.get('out', '')[:200],
                                       'files': lg.render(graph)})
        return
    if obs == 'loop-error' or obs in ('abort', 'no-termination', 'panic'):
        kk = sorted(set(e[0] for es in graph['edges'] for e in es))
        sig = 'acyclic|kinds=%s|observed=%s' % ('+'.join(kk), obs)
        ctx.violation(sig, graph, {'observed': obs, 'err': r.get('err', '')[:300], 'files': lg.render(graph)})
        return
    if obs == 'err':
        ctx.undecided('acyclic-graph-fails-with-another-error', r.get('err', '')[:160].replace('\n', ' | '))
        return
    # successful run: locks and unlocks balance, keys are released in LIFO order
    held = []
    for _seq, kind, a, b in r.get('events', []):
        if kind == 'lock':
            held.append(a)
            ctx.seen('max_locks_held', len(held))
        elif kind == 'unlock':
            if a in held:
                held.remove(a)
            else:
                ctx.violation('events|unlock-without-lock', graph, {'events': r.get('events')[:60]})
                return
    if held:
        ctx.violation('events|lock-never-released-on-success', graph, {'held': held, 'events': r.get('events')[:60]})
    # every reachable file's marker is in the output at least once
    out = r.get('out', '')
    for i in lg.reachable(graph):
        if '.f%d ' % i not in out and '.f%d{' % i not in out:
            ctx.violation('acyclic|reachable-file-missing-from-output', graph, {'missing': graph['files'][i], 'out': out[:300], 'files': lg.render(graph)})
            break


def run_graphs(ctx, graphs):
    jobs = [job_of(g) for g in graphs]
    res = ctx.batch(jobs)
    for g, r in zip(graphs, res):
        judge(ctx, g, r)


def check_case(ctx, graph):
    run_graphs(ctx, [graph])


INDEX_FILES = ['main.scss', 'k/_index.scss', 'k/s/y.scss']
INDEX_VARIANTS = ('plain', 'enddot', 'underscore')


def _exhaust(ctx, max_out, files=BASE_FILES, variants=('plain', 'dot', 'updown')):
    """This shard's slice of the exhaustive space; False when the budget ran out."""
    chunk = []
    for idx, g in enumerate(lg.enumerate_graphs(files, max_out, variants=variants)):
        if idx % ctx.nshards != ctx.shard:
            continue
        if not lg.valid(g):
            continue
        chunk.append(g)
        if not ctx.samples:
            ctx.sample({'graph': g, 'files': lg.render(g)})
        if len(chunk) >= 400:
            run_graphs(ctx, chunk)
            chunk = []
            if ctx.expired():
                return False
    if chunk:
        run_graphs(ctx, chunk)
    return True


def worker(ctx):
    ok = _exhaust(ctx, [1, 1, 1])
    if ok:
        ctx.stat('exhaustive_outdeg1_completed')
        # the same space over a directory-index module and a file below it (URLs `k`, `..`, `k/.`, `../.`, `k/_index`)
        ok = _exhaust(ctx, [1, 1, 1], INDEX_FILES, INDEX_VARIANTS)
        if ok:
            ctx.stat('exhaustive_outdeg1_index_completed')
    if ok and not ctx.quick:
        # keep a fifth of the budget for the random part
        ctx.deadline -= BUDGET['thorough'] * 0.2
        ok = _exhaust(ctx, [2, 1, 1])
        ctx.deadline += BUDGET['thorough'] * 0.2
        if ok:
            ctx.stat('exhaustive_outdeg2_entry_completed')
    if ok:
        ctx.stat('space_completed')
    first = True
    while not ctx.expired():
        gs = []
        for _ in range(200):
            n = ctx.rng.choice([2, 3, 3, 4, 4, 5, 6])
            g = lg.random_graph(ctx.rng, n, max_out=2, acyclic=ctx.rng.random() < 0.5,
                                placements=(lg.PLACEMENTS[:5] + lg.CSS_PLACEMENTS) if ctx.rng.random() < 0.4 else None)
            gs.append(g)
        if first:
            ctx.sample({'graph': gs[0], 'files': lg.render(gs[0])})
            first = False
        run_graphs(ctx, gs)
        ctx.stat('random_graphs', len(gs))
