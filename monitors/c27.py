"""C27 - strings keep their content through escaping and quoting (reference-decoder monitor)."""
import re, unicodedata
from .lib import css

PROP = 'C27'
LEVEL = 'exploration'
BUDGET = {'quick': 30, 'thorough': 400}
FLOOR = {'quick': 2000, 'thorough': 30000}
RULE = ('the DENOTED code-point sequence is chosen first (0..10 code points over ASCII letters incl. a-f/A-F, digits, punctuation, '
        '# and {, both quote characters, backslash, space, tab, LF/CR/FF, other C0 controls, DEL, C1 controls and U+00A0/U+00AD, '
        'non-ASCII letters, combining marks, format/separator characters, astral characters, private-use U+E000.. / U+F0000.. / '
        'U+100000.., noncharacters, U+FFFD; never surrogates or U+0000), then written as a quoted SCSS literal in double or single '
        'quotes with a random spelling per code point: raw where legal, backslash + character (punctuation, quotes, backslash, '
        'space, tab, non-hex letters, non-ASCII), hex escape with the minimal number up to 6 digits in either case, terminated by a '
        'space, a tab or nothing (nothing only where CSS Syntax allows it: six digits or the next source character is no hex digit, '
        'and the next source character is not white space); backslash-newline continuations (LF, CRLF, CR, FF), which denote '
        'nothing, are dropped in between.  The generator re-reads its own literal with the reference decoder and discards the case '
        '(counted) if that does not give back the chosen code points.  Per literal L (and a second literal M): token law - the '
        'value emitted for L, i(L) = "#{$s}", w(L) = "a#{$s}b", d(L) = "#{$s}#{$s}", "x#{L}y", L + M and '
        'string.quote(string.unquote(L)), in expanded and in compressed style, is exactly one CSS string token (monitors/lib/css.py) '
        'that the reference decoder (CSS Syntax 3: input preprocessing 3.3, consume a string token 4.3.5, consume an escaped code '
        'point 4.3.7) reads back as the denoted code points; length law - string.length of L, i(L), w(L), L + M is the number of '
        'denoted code points; quote-identity law - string.quote(string.unquote(L)) == L is true; unquoted law - for contents of '
        'ASCII letters and digits only, string.unquote(L) is emitted as exactly the content.  Distinct by literal text; '
        'non-trivial = the literal contains an escape sequence, a continuation or a code point outside printable ASCII.  '
        'Signatures: the unchanged tree stores quoted strings as escaped text, which breaks the property for recognisable input '
        'shapes; shapes() names them from the GENERATED case alone (spelling and denoted classes, never the output): four '
        'source-reading shapes that affect every law (hex escape terminated by a tab, continuation in double quotes, CR/FF '
        'continuations, escaped space) and law-specific ones (kept escapes for length and ==, private-use before hex/blank, lost '
        'terminators, interpolated private-use / control / non-alphanumeric characters, raw newline after the round trip), each '
        'with the coarse observed class.  A failing observation whose case exhibits none of the shapes for the law and channel '
        'that failed is reported as law|no-listed-feature|channel|observed and is never listed; a token that reads back exactly '
        'as the denoted string with its hex-spelt controls re-read in base 10 is named hex-escape-read-in-base-10 (a repaired '
        'defect, not listed).  The share of strict observations is in the stats (observations_strict:* / '
        'observations_with_listed_shape:*).')
LEVEL_TEXT = ('Reference-decoder monitor: what the source literal denotes is fixed by construction (and re-checked by decoding the '
              'literal), what the output denotes is decided by an independent CSS string-token decoder; counts and equality are '
              'observed through string.length and ==.')
LEVEL_NOTE = ('Trusted: the reference decoder below (written from CSS Syntax Level 3, which Sass follows for quoted strings; the '
              'only Sass addition, #{ , is never generated unescaped) and the framing of the emitted declaration '
              '(`a {\\n  pN: ...;\\n}` / `a{pN:...}`).  Which escape form rsass chooses to print is never judged.')
TECHNIQUE = 'runtime monitoring: generated string contents x random escape spellings, emitted tokens read back by a reference CSS decoder'
ASSUMPTIONS = ['a quoted Sass string literal denotes what the CSS Syntax string-token rules say (dart-sass: escapes are decoded when the literal is read)',
               'a hex escape of U+10FFFF is never generated (dart-sass reads it as U+FFFD, CSS Syntax as U+10FFFF)']

PRELUDE = ('@use "sass:string";@function i($s){@return "#{$s}"}@function w($s){@return "a#{$s}b"}'
           '@function d($s){@return "#{$s}#{$s}"}')
HEXDIGITS = '0123456789abcdefABCDEF'


# ---------------------------------------------------------------- reference decoder (CSS Syntax Level 3)

def preprocess(s):
    """3.3: CR LF, CR and FF become LF; U+0000 becomes U+FFFD (surrogates cannot occur in UTF-8 output)."""
    return s.replace('\r\n', '\n').replace('\r', '\n').replace('\f', '\n').replace('\0', '\ufffd')


def decode_string_token(text):
    """4.3.5 / 4.3.7 on `text`, which must be one whole string token.  -> (code point list, None) or (None, problem)."""
    s = preprocess(text)
    if not s or s[0] not in '"\'':
        return None, 'no-opening-quote'
    q, i, n, out = s[0], 1, len(s), []
    while True:
        if i >= n:
            return None, 'unterminated'                 # EOF inside the string: parse error
        c = s[i]
        if c == q:
            i += 1
            break
        if c == '\n':
            return None, 'newline-in-string'            # bad-string token
        if c != '\\':
            out.append(ord(c))
            i += 1
            continue
        if i + 1 >= n:                                   # backslash, then EOF: do nothing
            i += 1
            continue
        if s[i + 1] == '\n':                             # escaped newline: consumed, denotes nothing
            i += 2
            continue
        i += 1                                           # consume an escaped code point
        if s[i] in HEXDIGITS:
            j = i
            while j < n and j < i + 6 and s[j] in HEXDIGITS:
                j += 1
            v = int(s[i:j], 16)
            if j < n and s[j] in ' \t\n':
                j += 1
            out.append(0xfffd if v == 0 or 0xd800 <= v <= 0xdfff or v > 0x10ffff else v)
            i = j
        else:
            out.append(ord(s[i]))
            i += 1
    if i != n:
        return None, 'text-after-closing-quote'
    return out, None


# ---------------------------------------------------------------- code-point classes

C0 = [o for o in range(1, 0x20) if o not in (9, 10, 12, 13)]
PUNCT = '!$%&()*+,./:;<=>?@[]^_`|}~'
NONASCII_LETTERS = '\u00e9\u00df\u00fc\u00c9\u0101\u03a9\u0436\u4e2d\u65e5\u05d0\u0627\uac00\u212a'
COMBINING = '\u0301\u0308\u20e3\u0e31'
OTHER_NONASCII = '\u00a1\u00d7\u2013\u20ac\u200b\u200d\u200e\u2028\u2029\ufeff\u3000\u2003\u0660\u00b2'
LATIN1_EDGE = '\u0080\u0085\u009f\u00a0\u00ad'
ASTRAL = '\U0001f600\U00010437\U0001d49c\U0002f800\U000e0041\U0001f1e6'
PRIVATE_BMP = '\ue000\ue001\uf8ff\ue0ab\uf000'
PRIVATE_SUP = '\U000f0000\U000ffffd\U00100000\U0010fffd\U000fabcd'
NONCHAR = '\ufdd0\ufdef\ufffe\uffff\U0001fffe\U0010fffe\U0010ffff'


def cls(o):
    c = chr(o)
    if c in 'abcdefABCDEF':
        return 'hexletter'
    if c.isascii() and c.isalpha():
        return 'letter'
    if c in '0123456789':
        return 'digit'
    named = {'"': 'dquote', "'": 'squote', '\\': 'backslash', ' ': 'space', '\t': 'tab', '\n': 'newline', '\r': 'newline',
             '\f': 'newline', '#': 'hash', '-': 'hyphen', '{': 'lbrace', '\x7f': 'del', '\ufffd': 'replacement'}
    if c in named:
        return named[c]
    if o < 0x20:
        return 'c0'
    if o < 0x80:
        return 'punct'
    if o <= 0x9f:
        return 'c1'
    if 0xe000 <= o <= 0xf8ff or 0xf0000 <= o <= 0xffffd or 0x100000 <= o <= 0x10fffd:
        return 'private-use'
    if 0xfdd0 <= o <= 0xfdef or (o & 0xfffe) == 0xfffe:
        return 'nonchar'
    if unicodedata.combining(c):
        return 'combining'
    if o >= 0x10000:
        return 'astral'
    if unicodedata.category(c).startswith('L'):
        return 'nonascii-letter'
    return 'nonascii-other'


def gen_cps(rng):
    n = rng.choice([0, 1, 1, 2, 2, 3, 3, 4, 4, 5, 6, 7, 8, 10])
    mode = rng.random()
    if mode < 0.12:                                       # letters and digits only: also judged unquoted
        return [ord(rng.choice('abcdefxyzABCDEFGXYZ0123456789')) for _ in range(max(n, 1))]
    focus = None
    if mode < 0.40:                                       # one hard class in an ordinary neighbourhood
        focus = rng.choice(['dquote', 'squote', 'backslash', 'space', 'tab', 'newline', 'c0', 'del', 'private', 'hash', 'c1',
                            'hyphen', 'nonchar', 'astral', 'other', 'combining', 'replacement'])
    plain = mode >= 0.40 and mode < 0.65                 # printable text with quotes and punctuation, every spelling
    out = []
    for _ in range(n):
        r = rng.random()
        kind = None
        if focus is not None:
            kind = focus if r < 0.3 else rng.choice(['letter', 'hexletter', 'digit', 'letter', 'punct', 'space', 'nonascii'])
        elif plain:
            kind = rng.choice(['letter', 'hexletter', 'digit', 'punct', 'punct', 'hash', 'dquote', 'squote', 'space', 'tab',
                               'nonascii', 'nonascii', 'hyphen', 'letter', 'hexletter', 'digit', 'replacement'])
        else:
            kind = rng.choice(['letter', 'hexletter', 'digit', 'punct', 'hash', 'dquote', 'squote', 'backslash', 'space', 'tab',
                               'newline', 'c0', 'del', 'c1', 'nonascii', 'combining', 'other', 'astral', 'private', 'private',
                               'nonchar', 'replacement', 'hyphen', 'letter', 'hexletter', 'digit'])
        out.append(pick(rng, kind))
    return out


def pick(rng, kind):
    if kind == 'letter':
        return ord(rng.choice('ghijklmnopqrstuvwxyzGHIJKLMNOPQRSTUVWXYZ'))
    if kind == 'hexletter':
        return ord(rng.choice('abcdefABCDEF'))
    if kind == 'digit':
        return ord(rng.choice('0123456789'))
    if kind == 'punct':
        return ord(rng.choice(PUNCT))
    if kind == 'hash':
        return ord(rng.choice('##{'))
    if kind == 'hyphen':
        return ord('-')
    if kind == 'dquote':
        return ord('"')
    if kind == 'squote':
        return ord("'")
    if kind == 'backslash':
        return ord('\\')
    if kind == 'space':
        return 0x20
    if kind == 'tab':
        return 9
    if kind == 'newline':
        return rng.choice([10, 10, 13, 12])
    if kind == 'c0':
        return rng.choice(C0)
    if kind == 'del':
        return 0x7f
    if kind == 'c1':
        return ord(rng.choice(LATIN1_EDGE))
    if kind == 'nonascii':
        return ord(rng.choice(NONASCII_LETTERS))
    if kind == 'combining':
        return ord(rng.choice(COMBINING))
    if kind == 'other':
        return ord(rng.choice(OTHER_NONASCII))
    if kind == 'astral':
        return ord(rng.choice(ASTRAL))
    if kind == 'private':
        if rng.random() < 0.3:
            return rng.choice([rng.randint(0xe000, 0xf8ff), rng.randint(0xf0000, 0xffffd), rng.randint(0x100000, 0x10fffd)])
        return ord(rng.choice(PRIVATE_BMP + PRIVATE_SUP))
    if kind == 'nonchar':
        return ord(rng.choice(NONCHAR))
    if kind == 'replacement':
        return 0xfffd
    raise ValueError(kind)


# ---------------------------------------------------------------- writing the literal

def forms_for(o, q, nxt):
    """The spellings that may be used for code point o inside a literal delimited by q; nxt = the next denoted code point."""
    c = chr(o)
    k = cls(o)
    f = []
    raw_ok = c != q and c not in '\\\n\r\f' and not (c == '#' and nxt == 0x7b)
    if raw_ok:
        f += ['raw'] * (1 if k in ('c0', 'del') else 6)
    if c not in HEXDIGITS and c not in '\n\r\f' and k not in ('c0', 'del', 'c1'):
        # backslash + the character itself
        w = 5 if k in ('dquote', 'squote', 'backslash', 'hash') else 2 if k in ('punct', 'lbrace', 'tab') else 1
        f += ['esc'] * w
    if o != 0x10ffff:
        f += ['hex'] * (6 if not raw_ok or k in ('c0', 'del', 'tab', 'c1') else 2)
    return f


def write_literal(rng, cps, q):
    """-> (literal text, items): items = [[code point or None for a continuation, form name, source text]]"""
    items = []
    for idx, o in enumerate(cps):
        if rng.random() < 0.015:
            items.append([None, rng.choice(['cont-lf'] * 7 + ['cont-crlf', 'cont-cr', 'cont-ff']), None])
        nxt = cps[idx + 1] if idx + 1 < len(cps) else None
        form = rng.choice(forms_for(o, q, nxt))
        if form == 'hex':
            h = '%x' % o
            width = rng.choice([len(h), len(h), len(h), 6, rng.randint(len(h), 6)])
            h = h.rjust(width, '0')
            if rng.random() < 0.4:
                h = h.upper()
            form = 'hex%d' % width
            items.append([o, form, '\\' + h])
        elif form == 'esc':
            items.append([o, 'esc', '\\' + chr(o)])
        else:
            items.append([o, 'raw', chr(o)])
    if cps and rng.random() < 0.01:
        items.append([None, 'cont-lf', None])
    for it in items:
        if it[0] is None:
            it[2] = {'cont-lf': '\\\n', 'cont-crlf': '\\\r\n', 'cont-cr': '\\\r', 'cont-ff': '\\\f'}[it[1]]
    # terminators of the hex escapes depend on the next source character
    for k, it in enumerate(items):
        if not it[1].startswith('hex'):
            continue
        following = items[k + 1][2][0] if k + 1 < len(items) else q
        digits = len(it[2]) - 1
        need = following in ' \t\n\r\f' or (digits < 6 and following in HEXDIGITS)
        r = rng.random()
        term = ('tab' if r < 0.03 else 'space') if need else ('tab' if r < 0.03 else 'space' if r < 0.5 else 'none')
        it[1] += '-' + term
        it[2] += {'space': ' ', 'tab': '\t', 'none': ''}[term]
    return q + ''.join(it[2] for it in items) + q, items


def literal_ok(lit, cps):
    """The generator's own check: the literal must denote cps by the reference decoder and contain nothing Sass reads differently
    from CSS (interpolation; a raw newline that is not preceded by a backslash is caught by the decoder)."""
    got, why = decode_string_token(lit)
    if why is not None or got != list(cps):
        return False
    body = lit[1:-1]
    k = body.find('#{')
    while k >= 0:
        # `#{` may only occur with the # escaped; a raw # before a raw { never is generated
        b = 0
        j = k - 1
        while j >= 0 and body[j] == '\\':
            b += 1
            j -= 1
        if b % 2 == 0:
            return False
        k = body.find('#{', k + 1)
    return True


def gen_case(rng):
    cps = gen_cps(rng)
    q = rng.choice('"\'')
    lit, items = write_literal(rng, cps, q)
    cps2 = gen_cps(rng)[:4] if rng.random() < 0.8 else []
    q2 = rng.choice('"\'')
    lit2, items2 = write_literal(rng, cps2, q2)
    return {'cps': cps, 'lit': lit, 'forms': [it[1] for it in items], 'cps2': cps2, 'lit2': lit2, 'forms2': [it[1] for it in items2]}


# ---------------------------------------------------------------- features of a case (oracle side only)

def parse_items(lit):
    """Re-derives (code point | None, form, source text) from the literal text, so that a replayed case needs nothing but the
    literal.  Mirrors write_literal's naming of the forms."""
    s, q = lit[1:-1], lit[0]
    items, i, n = [], 0, len(s)
    while i < n:
        c = s[i]
        if c != '\\':
            items.append((ord(c), 'raw', c))
            i += 1
        elif s[i + 1] in '\n\r\f':
            t = '\\\r\n' if s.startswith('\r\n', i + 1) else s[i:i + 2]
            items.append((None, {'\\\n': 'cont-lf', '\\\r\n': 'cont-crlf', '\\\r': 'cont-cr', '\\\f': 'cont-ff'}[t], t))
            i += len(t)
        elif s[i + 1] in HEXDIGITS:
            j = i + 1
            while j < n and j < i + 7 and s[j] in HEXDIGITS:
                j += 1
            term = 'none'
            e = j
            if j < n and s[j] in ' \t':
                term = 'space' if s[j] == ' ' else 'tab'
                e = j + 1
            items.append((int(s[i + 1:j], 16), 'hex%d-%s' % (j - i - 1, term), s[i:e]))
            i = e
        else:
            items.append((ord(s[i + 1]), 'esc', s[i:i + 2]))
            i += 2
    return items


def features(lit):
    """Named features of one literal: which classes of code points it denotes, how they are spelt, and what follows them."""
    q = lit[0]
    items = parse_items(lit)
    chars = [it for it in items if it[0] is not None]
    fs = set()
    for k, (o, form, text) in enumerate(items):
        if o is None:
            fs.add(form)
            fs.add(form + ('-in-dq' if q == '"' else '-in-sq'))
            continue
        c = cls(o)
        short = 'hex' if form.startswith('hex') else form
        fs.add(c)
        fs.add('%s:%s' % (c, short))
        if form.endswith('-tab'):
            fs.add('hex-tab-terminated')
        if form.endswith('-none'):
            fs.add('hex-unterminated')
        if form.endswith('-space'):
            fs.add('hex-space-terminated')
    for k, (o, form, text) in enumerate(chars):
        c = cls(o)
        short = 'hex' if form.startswith('hex') else form
        nxt = chars[k + 1] if k + 1 < len(chars) else None
        nc = cls(nxt[0]) if nxt else 'end'
        follow = 'hexdigit' if nc in ('hexletter', 'digit') else nc
        fs.add('%s>%s' % (c, follow))
        fs.add('%s:%s>%s' % (c, short, follow))
    cps = [o for o, _, _ in chars]
    if 0x22 in cps and 0x27 in cps:
        fs.add('both-quotes')
    if not cps:
        fs.add('empty')
    fs.add('quote=' + ('dq' if q == '"' else 'sq'))
    return fs


# ---------------------------------------------------------------- listed-defect shapes (oracle side only)
#
# The unchanged tree stores a quoted string as *escaped text* (see DESIGN.md section 3, C27), which breaks the property for
# particular, recognisable shapes of input.  Each shape below is a predicate over the GENERATED case (what it denotes and how
# it is spelt) and the observation channel - never over the output.  A failing observation is reported under the first shape
# its case exhibits; known/C27.json lists the shapes that are defects of the unchanged tree.  A failing observation whose case
# exhibits no shape is reported as `...|no-listed-feature|...` and is never listed.

CONTROL = ('c0', 'del', 'c1', 'newline')


def chars_of(lit):
    """[(code point, class, 'raw'|'esc'|'hex')] of the denoted characters of a literal, in order."""
    return [(o, cls(o), 'hex' if form.startswith('hex') else form) for o, form, _ in parse_items(lit) if o is not None]


def nonascii_nonalnum(o):
    return o >= 0x80 and o != 0xfffd and unicodedata.category(chr(o))[0] not in 'LN'


def shapes(law, chan, case):
    lit, lit2 = case['lit'], (case.get('lit2') if chan == 'concat' else None)
    lits = [lit] + ([lit2] if lit2 is not None else [])
    items = [it for l in lits for it in parse_items(l)]
    forms = [form for _, form, _ in items]
    c1 = chars_of(lit)
    c2 = chars_of(lit2) if lit2 is not None else []
    seq = c1 + c2
    out = []
    # --- the literal itself is read wrongly: every law is affected
    if any(f.endswith('-tab') for f in forms):
        out.append('source|hex-escape-terminated-by-tab')
    if any(form == 'cont-lf' and l[0] == '"' for l in lits for _, form, _ in parse_items(l)):
        out.append('source|continuation-in-double-quotes')
    if any(f in ('cont-cr', 'cont-crlf', 'cont-ff') for f in forms):
        out.append('source|continuation-cr-or-ff')
    if any(k == 'space' and f in ('esc', 'hex') for _, k, f in seq):
        out.append('source|escaped-space')
    kept_hex = [k in CONTROL and f == 'hex' for _, k, f in seq]
    kept = any(kept_hex) or any(k == 'backslash' or (k == 'hyphen' and f != 'raw') for _, k, f in seq)
    direct_like = chan in ('direct', 'concat', 'token', 'equal')
    if law == 'length':
        if kept:
            out.append('length|kept-escape')
        if not direct_like and any(k in CONTROL or nonascii_nonalnum(o) for o, k, _ in seq):
            out.append('length|interpolated-control-or-non-alphanumeric')
    if law == 'quote' and chan == 'token' and any(k == 'newline' for _, k, _ in seq):
        out.append('quote|newline-raw-after-round-trip')
    if law in ('token', 'quote') and chan != 'equal':
        follows = [(seq[i], seq[i + 1] if i + 1 < len(seq) else None) for i in range(len(seq))]
        if direct_like:
            # (the token emitted for quote(unquote(L)) is printed by the same code: same shapes, same names)
            if any(a[1] == 'private-use' and b is not None and b[1] in ('space', 'tab', 'digit', 'hexletter') for a, b in follows):
                out.append('token|private-use-before-hex-or-blank')
            lost = any(kh and b is not None and b[1] == 'space' for kh, (a, b) in zip(kept_hex, follows))
            if c2 and c1 and kept_hex[len(c1) - 1] and c2[0][1] in ('space', 'tab', 'digit', 'hexletter'):
                lost = True
            if lost:
                out.append('token|kept-escape-loses-its-terminator')
        else:
            if any(k == 'private-use' for _, k, _ in seq):
                out.append('token|interpolated-private-use')
            ctl = [k in CONTROL for _, k, _ in seq]
            if any(c and b is not None and b[1] == 'space' for c, (a, b) in zip(ctl, follows)) or \
                    (chan in ('wrap', 'double') and ctl and ctl[-1]):
                out.append('token|interpolated-control-loses-its-terminator')
    if law == 'quote' and chan == 'equal' and kept:
        out.append('quote|kept-escape')
    return [x for x in out if x not in RETIRED]


# shapes whose defect has been repaired in rsass: they no longer excuse a failing case (a case that has such a shape and fails
# is attributed to its other listed shapes, or reported as `no-listed-feature`)
RETIRED = {'source|continuation-in-double-quotes', 'token|private-use-before-hex-or-blank', 'source|hex-escape-terminated-by-tab'}


def coarse(obs):
    """Observed class as it enters the signature of a listed shape."""
    return 'wrong-content' if obs.startswith('wrong-content') else obs.split('(')[0]


# ---------------------------------------------------------------- expressions of a case

def exprs_of(case):
    """-> list of (law, channel, expression text, expected) ; expected: ('token', cps) | ('num', n) | ('true',) | ('raw', text)"""
    L, M = case['lit'], case.get('lit2')
    a, b = list(case['cps']), list(case.get('cps2') or [])
    n = len(a)
    m = misread_base10(L)
    ex = [
        ('token', 'direct', L, ('token', a)),
        ('token', 'interp', 'i(%s)' % L, ('token', a, m)),
        ('token', 'wrap', 'w(%s)' % L, ('token', [0x61] + a + [0x62], [0x61] + m + [0x62])),
        ('token', 'double', 'd(%s)' % L, ('token', a + a, m + m)),
        ('token', 'nested', '"x#{%s}y"' % L, ('token', [0x78] + a + [0x79], [0x78] + m + [0x79])),
        ('length', 'direct', 'string.length(%s)' % L, ('num', n)),
        ('length', 'interp', 'string.length(i(%s))' % L, ('num', n)),
        ('length', 'wrap', 'string.length(w(%s))' % L, ('num', n + 2)),
        ('quote', 'equal', 'string.quote(string.unquote(%s)) == %s' % (L, L), ('true',)),
        ('quote', 'token', 'string.quote(string.unquote(%s))' % L, ('token', a, m)),
    ]
    if M is not None:
        ex.append(('token', 'concat', '%s + %s' % (L, M), ('token', a + b)))
        ex.append(('length', 'concat', 'string.length(%s + %s)' % (L, M), ('num', n + len(b))))
    if a and all(chr(o).isascii() and chr(o).isalnum() for o in a):
        ex.append(('unquoted', 'direct', 'string.unquote(%s)' % L, ('raw', ''.join(map(chr, a)))))
    return ex


# ---------------------------------------------------------------- running

_MARK_X = re.compile(r'\n  p(\d+): ')


def split_expanded(out, n):
    t = css.strip_header(out)
    if not (t.startswith('a {') and t.endswith(';\n}\n')):
        return None
    parts = _MARK_X.split(t[3:-4])
    if parts and parts[0] == '' and len(parts) == 2 * n + 1 and all(parts[2 * k + 1] == str(k) for k in range(n)):
        vals = [parts[2 * k + 2] for k in range(n)]
        if all(v.endswith(';') for v in vals[:-1]):
            return [v[:-1] for v in vals[:-1]] + [vals[-1]]
    return None


def split_compressed(out, n):
    t = css.strip_header(out)
    if t.endswith('\n'):
        t = t[:-1]
    if not (t.startswith('a{') and t.endswith('}')):
        return None
    decls, cur = [], []
    for kind, tx in css.scan(t[2:-1]):
        if kind == 'punct' and tx == ';':
            decls.append(''.join(cur))
            cur = []
        else:
            cur.append(tx)
    decls.append(''.join(cur))
    if len(decls) != n:
        return None
    vals = []
    for k, dcl in enumerate(decls):
        pre = 'p%d:' % k
        if not dcl.startswith(pre):
            return None
        vals.append(dcl[len(pre):])
    return vals


def single(ctx, expr, style):
    r = ctx.compile(src=PRELUDE + 'a{b:%s}' % expr, style=style, precision=10)
    st = r.get('status')
    if st == 'ok':
        t = css.strip_header(r.get('out', ''))
        if style == 'expanded' and t.startswith('a {\n  b: ') and t.endswith(';\n}\n'):
            return ('ok', t[9:-4])
        if style == 'compressed' and t.startswith('a{b:') and t.rstrip('\n').endswith('}'):
            return ('ok', t.rstrip('\n')[4:-1])
        return ('ok-unparsed', t)
    if st == 'err':
        return ('err', r.get('err', ''))
    return ('other', st)


def evaluate(ctx, exprs, style, chunk=60):
    """Evaluates expression texts, `chunk` per stylesheet; a sheet that fails or cannot be split is redone one by one."""
    groups = [exprs[i:i + chunk] for i in range(0, len(exprs), chunk)]
    jobs = [{'src': PRELUDE + 'a{' + ''.join('p%d:%s;' % (k, e) for k, e in enumerate(g)) + '}', 'style': style, 'precision': 10}
            for g in groups]
    res = ctx.batch(jobs) if jobs else []
    out = []
    for g, r in zip(groups, res):
        vals = None
        if r.get('status') == 'ok':
            vals = (split_expanded if style == 'expanded' else split_compressed)(r.get('out', ''), len(g))
        if vals is None:
            ctx.stat('sheets_redone_singly')
            out.extend(single(ctx, e, style) for e in g)
        else:
            out.extend(('ok', v) for v in vals)
    return out


# ---------------------------------------------------------------- judging

def misread_base10(lit):
    """Deviation model of one defect (kept as a named switch so that it is recognised exactly, and its return is noticed):
    string.unquote and interpolation read the digits of a hex escape with weight 10.  It shows for the code points the tree
    keeps in hex form, i.e. control characters that the source spells as hex escapes."""
    out = []
    for o, k, f in chars_of(lit):
        if k in CONTROL and f == 'hex':
            v = 0
            for ch in '%x' % o:
                v = v * 10 + int(ch, 16)
            out.append(v)
        else:
            out.append(o)
    return out


def observe(expected, r):
    """-> (holds, observed class, got) ; holds None = undecidable (harness trouble)."""
    if r[0] == 'err':
        return False, 'error', r[1][:200]
    if r[0] == 'other':
        if r[1] == 'panic':
            return False, 'panic', None
        return None, 'harness-%s' % r[1], None
    if r[0] == 'ok-unparsed':
        return False, 'unframed-output', r[1][:200]
    text = r[1]
    kind = expected[0]
    if kind == 'num':
        if re.fullmatch(r'-?\d+', text):
            v = int(text)
            return v == expected[1], ('equal' if v == expected[1] else 'more' if v > expected[1] else 'fewer'), v
        return False, 'not-a-number', text[:80]
    if kind == 'true':
        return text == 'true', ('true' if text == 'true' else 'false' if text == 'false' else 'not-a-boolean'), text[:80]
    if kind == 'raw':
        return text == expected[1], ('equal' if text == expected[1] else 'other-text'), text[:80]
    toks = css.scan(text)
    if len(toks) != 1 or toks[0][0] != 'string':
        kinds = '+'.join(k for k, _ in toks[:4]) or 'nothing'
        return False, 'not-one-string-token(%s)' % kinds, text[:200]
    got, why = decode_string_token(text)
    if why is not None:
        return False, 'bad-token(%s)' % why, text[:200]
    want = expected[1]
    if got == want:
        return True, 'equal', got
    if len(expected) > 2 and got == expected[2]:
        return False, 'hex-escape-read-in-base-10', got
    if len(got) != len(want):
        return False, 'wrong-content(%s-code-points)' % ('more' if len(got) > len(want) else 'fewer'), got
    return False, 'wrong-content(same-count)', got


def hexes(cps):
    return ['U+%04X' % o for o in cps]


def judge_case(ctx, case, results):
    """results: {(index of expression, style): result}"""
    ex = exprs_of(case)
    fs1 = features(case['lit'])
    fs2 = features(case['lit2']) if case.get('lit2') is not None else set()
    allok = True
    shape_cache = {}
    for k, (law, chan, text, expected) in enumerate(ex):
        for style in ('expanded', 'compressed'):
            r = results.get((k, style))
            if r is None:
                continue
            ctx.ran()
            holds, obs, got = observe(expected, r)
            if holds is None:
                ctx.undecided(obs)
                continue
            ctx.seen('law:channel:style', '%s:%s:%s' % (law, chan, style))
            if (law, chan) not in shape_cache:
                shape_cache[(law, chan)] = shapes(law, chan, case)
            bad = shape_cache[(law, chan)]
            ctx.stat(('observations_with_listed_shape:' if bad else 'observations_strict:') + law)
            ctx.seen('observed', '%s:%s:%s' % (law, 'strict' if not bad else 'listed-shape', coarse(obs)))
            if holds:
                ctx.stat('held:' + law)
                if not bad:
                    ctx.seen('strict-held', '%s:%s' % (law, chan))
                    if chan in ('direct', 'interp', 'equal') and style == 'expanded':
                        for f in fs1:
                            if ':' in f and '>' not in f:
                                ctx.seen('strict-held-class:spelling(%s)' % law, f)
                continue
            allok = False
            ctx.stat('failed:' + law)
            fs = fs1 | fs2 if chan == 'concat' else fs1
            if obs == 'hex-escape-read-in-base-10' and not [b for b in bad if b.startswith('source|')]:
                sig = '%s|hex-escape-read-in-base-10' % law
            elif bad:
                sig = bad[0] if bad[0].startswith('source|') else '%s|observed=%s' % (bad[0], coarse(obs))
            else:
                sig = '%s|no-listed-feature|channel=%s|observed=%s' % (law, chan, coarse(obs))
            ctx.violation(sig, case, {
                'law': law, 'channel': chan, 'style': style, 'expression': text, 'observed_class': obs,
                'denoted': hexes(case['cps']) + (['+'] + hexes(case['cps2']) if chan == 'concat' else []),
                'expected': hexes(expected[1]) if expected[0] == 'token' else expected[1:],
                'observed': hexes(got) if isinstance(got, list) else got,
                'emitted': r[1][:200] if isinstance(r[1], str) else r[1],
                'features': sorted(f for f in fs if '>' not in f)[:40], 'listed_shapes': bad})
    return allok


def risky(case):
    """Spellings for which the unchanged tree fails to compile: kept in sheets of their own (one failing expression makes the
    whole sheet be redone expression by expression)."""
    return any(f in ('cont-cr', 'cont-crlf', 'cont-ff') for l in (case['lit'], case.get('lit2') or '""')
               for _, f, _ in parse_items(l))


def check_cases(ctx, cases):
    for group, chunk in (([c for c in cases if not risky(c)], 60), ([c for c in cases if risky(c)], 1)):
        per = []
        flat_x, flat_c = [], []
        for c in group:
            ex = exprs_of(c)
            ix = []
            for k, (law, chan, text, expected) in enumerate(ex):
                ix.append((k, 'expanded', len(flat_x)))
                flat_x.append(text)
                if expected[0] in ('token', 'raw'):
                    ix.append((k, 'compressed', -len(flat_c) - 1))
                    flat_c.append(text)
            per.append(ix)
        rx = evaluate(ctx, flat_x, 'expanded', chunk)
        rc = evaluate(ctx, flat_c, 'compressed', chunk)
        for c, ix in zip(group, per):
            results = {}
            for k, style, pos in ix:
                results[(k, style)] = rx[pos] if pos >= 0 else rc[-pos - 1]
            judge_case(ctx, c, results)


def check_case(ctx, case):
    if not literal_ok(case['lit'], case['cps']) or (case.get('lit2') is not None and not literal_ok(case['lit2'], case['cps2'])):
        ctx.undecided('generator-self-check-failed', case.get('lit'))
        return
    check_cases(ctx, [case])


def nontrivial(case):
    lit = case['lit']
    return '\\' in lit or any(not (0x20 <= ord(ch) < 0x7f) for ch in lit)


def worker(ctx):
    rng = ctx.rng
    sampled = 0
    while not ctx.expired():
        cases = []
        while len(cases) < 12:
            c = gen_case(rng)
            if not literal_ok(c['lit'], c['cps']) or not literal_ok(c['lit2'], c['cps2']):
                ctx.stat('generator_self_check_discarded')
                continue
            cases.append(c)
        for c in cases:
            ctx.stat('literals')
            if nontrivial(c):
                ctx.nontrivial([c['lit'], c['lit2']])
            ctx.seen('length', len(c['cps']))
            for f in features(c['lit']):
                if '>' not in f:
                    ctx.seen('feature', f)
            for f in c['forms']:
                ctx.seen('spelling', f)
            if sampled < 2 and len(c['cps']) >= 3 and nontrivial(c):
                ctx.sample({'literal': c['lit'], 'denotes': hexes(c['cps']), 'second': c['lit2']})
                sampled += 1
        check_cases(ctx, cases)
