"""C11 - unit arithmetic converts only with fixed CSS ratios (reference-model monitor, exhaustive over unit pairs)."""
import math, re
from fractions import Fraction as F
from .lib import ev

PROP = 'C11'
LEVEL = 'exploration'
BUDGET = {'quick': 40, 'thorough': 400}
FLOOR = {'quick': 5000, 'thorough': 20000}
EXHAUSTIVE = {'quick': True, 'thorough': True}
RULE = ('every ordered pair of the 28 known units + unitless + two unknown units (31x31), under + - < <= > >= == != '
        '(compiled declarations) and * / math.div bookkeeping probes, three magnitudes each (one making the operands '
        'equal after conversion; thorough: ten); enumerated exhaustively and sharded over the workers.  Non-trivial = the '
        'two units differ; distinct by (operator, u1, u2, magnitudes).  Oracle: exact rational ratio table from '
        'css-values (in:96px:2.54cm:25.4mm:101.6Q:72pt:6pc; deg/grad/rad/turn; s/ms; Hz/kHz; dpi/dpcm/dppx); unitless '
        'adopts; other different units: error for + - and ordering, false for ==.  Numbers compared at relative 1e-9.')
LEVEL_TEXT = ('Reference-model monitor, exhaustive over the finite unit-pair x operator space with sampled magnitudes: the '
              'real evaluator result of every point is compared with a table-driven model written from css-values.')
LEVEL_NOTE = 'Trusted: the ratio table and the reading that the result takes the left operand\'s unit. Magnitudes are sampled, not exhaustive.'
TECHNIQUE = 'runtime monitoring: bounded-exhaustive enumeration of unit pairs against a rational reference model'

PI = F(math.pi)
GROUPS = {
    'abs-length': {'px': F(1), 'in': F(96), 'cm': F(9600, 254), 'mm': F(960, 254), 'q': F(240, 254), 'pt': F(96, 72), 'pc': F(16)},
    'angle': {'deg': F(1), 'grad': F(9, 10), 'rad': F(180) / PI, 'turn': F(360)},
    'time': {'ms': F(1), 's': F(1000)},
    'frequency': {'hz': F(1), 'khz': F(1000)},
    'resolution': {'dpi': F(1), 'dpcm': F(254, 100), 'dppx': F(96)},
}
OTHER = {'em': 'font-relative', 'ex': 'font-relative', 'ch': 'font-relative', 'rem': 'root-font-relative', 'vw': 'viewport-width',
         'vh': 'viewport-height', 'vmin': 'viewport-minmax', 'vmax': 'viewport-minmax', '%': 'percent', 'fr': 'fraction'}
UNITS = [u for g in GROUPS.values() for u in g] + list(OTHER) + ['', 'foo', 'bar']
SPELL = {'hz': 'Hz', 'khz': 'kHz', 'q': 'Q'}


def kind(u):
    if u == '':
        return 'unitless'
    for k, g in GROUPS.items():
        if u in g:
            return k
    return OTHER.get(u, 'unknown')


def ratio(u1, u2):
    """factor f with  1 u2 = f u1, or None when there is no fixed ratio"""
    if u1 == u2:
        return F(1)
    for g in GROUPS.values():
        if u1 in g and u2 in g:
            return g[u2] / g[u1]
    return None


def lit(v, u):
    s = ('%.6f' % v).rstrip('0').rstrip('.')
    return s + SPELL.get(u, u)


_NUM = re.compile(r'^(-?(?:\d+\.?\d*|\.\d+))([a-zA-Z%]*)$')


def observe(status, text):
    if status == 'err':
        return ('error',)
    if status != 'ok':
        return ('other', status)
    if text in ('true', 'false'):
        return ('bool', text == 'true')
    m = _NUM.match(text)
    if m:
        dec = len(m.group(1).partition('.')[2])
        return ('num', float(m.group(1)), m.group(2).lower(), dec)
    return ('unevaluated', text)


def expect(op, a, u1, b, u2):
    if u1 == '' or u2 == '' or u1 == u2:
        f = F(1)
        ru = u1 or u2
    else:
        f = ratio(u1, u2)
        ru = u1
    A, B = F(a), F(b)
    if f is None:
        if op == '==':
            return ('bool', False)
        if op == '!=':
            return ('bool', True)
        return ('error',)
    Bc = B * f
    if op == '+':
        return ('num', float(A + Bc), ru)
    if op == '-':
        return ('num', float(A - Bc), ru)
    # comparisons: the generator keeps operands either equal after conversion or apart by > 1e-6 relative
    eq = abs(A - Bc) <= F(1, 10 ** 9) * max(abs(A), abs(Bc), 1)
    lt = (A < Bc) and not eq
    gt = (A > Bc) and not eq
    return ('bool', {'<': lt, '<=': lt or eq, '>': gt, '>=': gt or eq, '==': eq, '!=': not eq}[op])


def same(obs, exp, u1=None):
    if obs[0] != exp[0]:
        return False
    if exp[0] == 'num':
        if obs[2] != exp[2]:
            # a result expressed in another unit of the same group is the same quantity
            f = ratio(exp[2], obs[2]) if exp[2] and obs[2] else None
            if f is None:
                return False
            v = obs[1] * float(f)
            scale = float(f)
        else:
            v = obs[1]
            scale = 1.0
        # the printed numeral is rounded to `dec` places (inspect() always prints 10)
        dec = obs[3] if len(obs) > 3 else 10
        return abs(v - exp[1]) <= max(1e-9 * abs(exp[1]), 5e-11, 0.51 * 10.0 ** -max(dec, 9) * scale)
    if exp[0] == 'bool':
        return obs[1] == exp[1]
    return True


OPS = ['+', '-', '<', '<=', '>', '>=', '==', '!=']


def points(ctx):
    pairs = [(u1, u2) for u1 in UNITS for u2 in UNITS]
    return [p for i, p in enumerate(pairs) if i % ctx.nshards == ctx.shard]


def magnitudes(rng, u1, u2, n):
    out = []
    f = ratio(u1, u2) if (u1 and u2) else F(1)
    for i in range(n):
        b = rng.choice([1, 2, 3, 7, 12, 0.5, 0.25, 100, 2.54, 96, 25.4])
        if i == 0 and f is not None:
            a = float(F(b) * f)      # equal after conversion
            if len(('%.6f' % a).rstrip('0')) - ('%.6f' % a).index('.') > 6 or abs(a) > 1e6 or a < 1e-3:
                a = b * 2
        else:
            a = rng.choice([1, 2, 5, 0.75, 10, 33, 0.1, 1000, 96, 2.54])
        a = float(('%.6f' % a))
        # keep comparisons away from the equality tolerance unless exactly equal
        if f is not None and a != float(F(b) * f) and abs(a - float(F(b) * f)) < 1e-4 * max(a, 1):
            a = a * 2
        out.append((a, b))
    return out


REL_FAMILIES = [{'em', 'ex', 'ch'}, {'vmin', 'vmax'}]


def pair_class(u1, u2):
    if u1 == u2:
        return 'same-unit'
    if u1 == '' or u2 == '':
        o = u1 or u2
        return 'unitless-with-' + ('percent-or-fraction' if o in ('%', 'fr') else 'unknown-unit' if kind(o) == 'unknown' else 'dimension')
    if ratio(u1, u2) is not None:
        return 'fixed-ratio-' + kind(u1)
    if {u1, u2} == {'%', 'fr'}:
        return 'percent-with-fraction'
    return 'no-fixed-ratio'


def signature(op, u1, u2, exp, obs):
    o = obs[0]
    if obs[0] == 'num' and exp[0] == 'num':
        o = 'wrong-number-or-unit'
    elif obs[0] == 'num':
        o = 'converted-number'
    elif obs[0] == 'bool':
        o = 'bool-' + str(obs[1]).lower()
    e = exp[0] if exp[0] != 'bool' else 'bool-' + str(exp[1]).lower()
    return 'op=%s|pair=%s|expected=%s|observed=%s' % (op, pair_class(u1, u2), e, o)


def check_point(ctx, u1, u2, mags):
    exprs, meta = [], []
    for a, b in mags:
        for op in OPS:
            exprs.append('%s %s %s' % (lit(a, u1), op, lit(b, u2)))
            meta.append((op, a, b))
    res = ev.evaluate_many(ctx, exprs, inspect=False, precision=12, prelude='', chunk=8)
    for (op, a, b), e, (st, text) in zip(meta, exprs, res):
        ctx.ran()
        if u1 != u2:
            ctx.nontrivial((op, u1, u2, a, b))
        obs = observe(st, text)
        exp = expect(op, a, u1, b, u2)
        if obs[0] == 'other':
            ctx.undecided('status-' + str(obs[1]))
            continue
        if op in ('==', '!=') and (u1 == '') != (u2 == '') and obs[0] == 'bool' and exp[0] == 'bool':
            # The statement lets a unitless operand take the other's unit when comparing, while Sass proper says a
            # unitless number never equals one with a unit: for == and != with equal magnitudes both are admitted.
            if F(a) == F(b):
                ctx.stat('admitted_either_unitless_equality')
                continue
        if op not in ('+', '-') and exp[0] == 'bool' and ratio(u1, u2) is not None and u1 and u2 and u1 != u2 \
                and abs(F(a) - F(b) * ratio(u1, u2)) <= F(1, 10 ** 6) * F(a):
            # operands equal after conversion: the outcome hangs on the last bit of the conversion, which the
            # statement does not fix (consistency of < == > on such pairs is C12's subject)
            ctx.stat('comparison_of_converted_equal_operands_not_asserted')
            continue
        if not same(obs, exp):
            ctx.violation(signature(op, u1, u2, exp, obs), {'kind': 'binop', 'expr': e, 'op': op, 'u1': u1, 'u2': u2, 'a': a, 'b': b},
                          {'expected': exp, 'observed': obs, 'text': text[:200]})
    # multiplication / division bookkeeping
    a, b = mags[0]
    c = 4.0
    f = ratio(u1, u2) if (u1 and u2) else None
    probes = []
    if u1 and u2:
        if f is not None:
            # convertible units cancel in a quotient
            probes.append(('div-cancels', 'math.div(%s, %s)' % (lit(a, u1), lit(b, u2)), ('num', float(F(a) / (F(b) * f)), '')))
        # exponents: (a u1 / b u2) * c u2 / d u1 is unitless
        probes.append(('div-mul-div', 'math.div(math.div(%s, %s) * %s, %s)' % (lit(a, u1), lit(b, u2), lit(c, u2), lit(2, u1)),
                       ('num', float(F(a) * F(c) / (F(b) * 2)), '')))
        # (a u1 * b u2) / c u2 = a*b/c u1
        probes.append(('mul-div', 'math.div(%s * %s, %s)' % (lit(a, u1), lit(b, u2), lit(c, u2)), ('num', float(F(a) * F(b) / F(c)), u1)))
    if u1:
        probes.append(('mul-unitless', '%s * %s' % (lit(a, u1), lit(c, '')), ('num', a * c, u1)))
        probes.append(('div-unitless', 'math.div(%s, %s)' % (lit(a, u1), lit(c, '')), ('num', a / c, u1)))
        probes.append(('div-self', 'math.div(%s, %s)' % (lit(a, u1), lit(c, u1)), ('num', a / c, '')))
    res = ev.evaluate_many(ctx, [p[1] for p in probes], inspect=True, precision=12, prelude='@use "sass:math";@use "sass:meta";', chunk=8)
    for (name, e, exp), (st, text) in zip(probes, res):
        ctx.ran()
        if u1 != u2:
            ctx.nontrivial((name, u1, u2, a, b))
        obs = observe(st, text)
        if obs[0] == 'other':
            ctx.undecided('status-' + str(obs[1]))
            continue
        if not same(obs, exp):
            ctx.violation('probe=%s|pair=%s|observed=%s' % (name, pair_class(u1, u2), obs[0]),
                          {'kind': 'probe', 'name': name, 'expr': e, 'u1': u1, 'u2': u2, 'a': a, 'b': b},
                          {'expected': exp, 'observed': obs, 'text': text[:200]})


def check_case(ctx, case):
    check_point(ctx, case['u1'], case['u2'], [(case['a'], case['b'])])


def worker(ctx):
    n = 3 if ctx.quick else 10
    first = True
    done = 0
    pts = points(ctx)
    for u1, u2 in pts:
        if ctx.expired():
            break
        check_point(ctx, u1, u2, magnitudes(ctx.rng, u1, u2, n))
        done += 1
        if first:
            ctx.sample({'u1': u1, 'u2': u2, 'example': '%s + %s' % (lit(1, u1), lit(2, u2))})
            first = False
    ctx.seen('unit_pairs_done', '%d/%d@%d' % (done, len(pts), ctx.shard))
    if done == len(pts):
        ctx.stat('space_completed')
