"""C25 - selector parsing and printing round-trip (relational monitor)."""
from .lib import ev, css, gen, selgen as sg

PROP = 'C25'
LEVEL = 'exploration'
BUDGET = {'quick': 30, 'thorough': 400}
FLOOR = {'quick': 2000, 'thorough': 30000}
RULE = ('generated selector-list TEXT S (1..3 complex selectors, all combinators with varied spacing) whose identifiers are plain, '
        'non-ASCII (letters in and beyond the BMP; at top level also symbols such as emoji and the middle dot), or escaped (\\31 23 digit-leading, -\\31 dash-digit, \\. \\: \\/ special characters, escaped '
        'blank/quote/backslash/brace, hex escapes of letters, of non-ASCII and of punctuation, six-digit and blank-terminated '
        'forms) in type, class, id, attribute-name and attribute-value position; namespaces ns|a *|a |a (also on attributes); '
        'every attribute operator, quoted (both quotes, with escapes, blanks, brackets, commas) and unquoted values, i/s '
        'modifiers in both cases; nth-child/-last-child/-of-type arguments (2n+1, 2n + 1, odd, -n+3, ... , "An+B of S"); '
        ':not/:is/:where/:has (relative)/:matches/:-webkit-any/:host/::slotted with nested selector arguments; pseudo-elements. '
        'Per S: P = text emitted for selector.parse(unquote("S")); P2 = the same for P; E = the selector emitted for '
        '`S { x: y }`.  Oracle: P2 == P exactly (printing is a fixpoint of parse-then-print); E == P after normalising white '
        'space around combinators/commas/brackets, or - when the texts differ - E and P have the same canonical form '
        '(escapes decoded, attribute quoting ignored, compound order ignored; an identifier that is ill-formed as written, '
        'e.g. `#1x`, never equals its well-formed spelling `#\\31 x`).  The fixpoint clause is judged whenever selector.parse '
        'accepts S, the second clause only when S is accepted both ways; everything else is skipped and counted.  A failing S '
        'is re-judged piece by piece (every identifier alone and behind a descendant combinator, bare combinator skeletons, '
        'every simple selector) and the smallest failing piece names the signature.  Distinct non-trivial = distinct S '
        'judged on at least one clause.')
LEVEL_TEXT = ('Relational monitor: both clauses compare outputs of the real code with each other; the only model is the CSS '
              'selector grammar used as a fallback to decide whether two different texts are the same selector.')
LEVEL_NOTE = ('Trusted: the canonical-form parser in monitors/lib/selgen.py (CSS Syntax level 3 identifier/escape/string rules); '
              'S reaches selector.parse through unquote("...") so that the defects of quoted-string escapes (C27) stay out.')
TECHNIQUE = 'runtime monitoring: print/parse fixpoint and agreement of two printing paths over generated selector text'
ASSUMPTIONS = ['"printing" selector.parse(S) = emitting the returned list as a declaration value',
               'unquote("...") of a literal without interpolation yields exactly the content of the literal']


def uq(s):
    return 'unquote(%s)' % sg.sass_quote(s)


def emitted_selectors(ctx, texts):
    """The selector rsass emits for `S { x: y }` for each S -> list of ('ok', prelude) | ('err', msg) | ('other', why).
    Ten rules per stylesheet, each identified by its declaration; a sheet that fails is redone rule by rule."""
    out = [None] * len(texts)
    groups = [list(range(i, min(i + 10, len(texts)))) for i in range(0, len(texts), 10)]
    jobs = [{'src': ''.join('%s{x:m%d}\n' % (texts[k], k) for k in g)} for g in groups]
    res = ctx.batch(jobs)
    redo = []
    for g, r in zip(groups, res):
        ok = False
        if r.get('status') == 'ok':
            try:
                nodes = css.parse(css.strip_header(r.get('out', '')))
                rules = [nd for nd in nodes if nd['t'] == 'rule']
                if len(rules) == len(g) and all(
                        len(nd['body']) == 1 and nd['body'][0].get('t') == 'decl' and nd['body'][0].get('value') == 'm%d' % k
                        for nd, k in zip(rules, g)):
                    for nd, k in zip(rules, g):
                        out[k] = ('ok', nd['raw_prelude'].strip())
                    ok = True
            except css.ParseProblem:
                pass
        if not ok:
            redo += g
    if redo:
        res = ctx.batch([{'src': '%s{x:y}\n' % texts[k]} for k in redo])
        for k, r in zip(redo, res):
            st = r.get('status')
            if st == 'ok':
                try:
                    nodes = css.parse(css.strip_header(r.get('out', '')))
                    rules = [nd for nd in nodes if nd['t'] == 'rule']
                    if len(nodes) == 1 and len(rules) == 1 and len(rules[0]['body']) == 1 and rules[0]['body'][0].get('value') == 'y':
                        out[k] = ('ok', rules[0]['raw_prelude'].strip())
                    else:
                        out[k] = ('other', 'output is not one rule: %r' % r.get('out', '')[:120])
                except css.ParseProblem as e:
                    out[k] = ('other', 'output unreadable: %s' % e)
            elif st == 'err':
                out[k] = ('err', r.get('err', ''))
            else:
                out[k] = ('other', st)
    return out


def judge_texts(ctx, texts):
    """-> per text a dict with v1 (clause 1: printing is a fixpoint) and v2 (clause 2: emitted selector == printed form);
    each 'ok:<how>' | 'skip:<why>' | 'viol:<kind>' | 'undecided:<why>', plus P, P2, E when known."""
    n = len(texts)
    r1 = ev.evaluate_many(ctx, ['selector.parse(%s)' % uq(s) for s in texts], inspect=False, chunk=10)
    em = emitted_selectors(ctx, texts)
    ctx.ran(2 * n)
    out = [dict() for _ in range(n)]
    need2 = []
    for k in range(n):
        p, e, d = r1[k], em[k], out[k]
        if p[0] == 'ok':
            d['P'] = p[1]
            need2.append(k)
        elif p[0] == 'err':
            d['v1'] = 'skip:rejected-by-selector.parse'
        else:
            d['v1'] = 'undecided:parse=%s' % (p[:1],)
        if e[0] == 'ok':
            d['E'] = e[1]
        if p[0] == 'err' and e[0] == 'err':
            d['v2'] = 'skip:rejected-by-both'
        elif p[0] == 'err' and e[0] == 'ok':
            d['v2'] = 'skip:rejected-by-selector.parse-only'
        elif p[0] == 'ok' and e[0] == 'err':
            d['v2'] = 'skip:rejected-as-rule-only'
        elif p[0] == 'ok' and e[0] == 'ok':
            P, E = p[1], e[1]
            if sg.norm_ws(E) == sg.norm_ws(P):
                d['v2'] = 'ok:same-text'
            else:
                cE, cP = sg.canon_or_none(E, strict=False), sg.canon_or_none(P, strict=False)
                if cE is not None and cE == cP:
                    d['v2'] = 'ok:same-canonical-form'
                else:
                    d['v2'] = 'viol:emitted-differs'
                    if sg.canon_or_none(E) is None and sg.canon_or_none(P) is not None:
                        d['note'] = 'the emitted text is not a selector by the CSS grammar, the printed form is'
        else:
            d['v2'] = 'undecided:parse=%s rule=%s' % (p[:1], e)
    r2 = ev.evaluate_many(ctx, ['selector.parse(%s)' % uq(r1[k][1]) for k in need2], inspect=False, chunk=10)
    ctx.ran(len(need2))
    for k, p2 in zip(need2, r2):
        d = out[k]
        if p2[0] == 'err':
            d.update(v1='viol:printed-form-rejected', P2=p2[1].split('\n')[0][:120])
        elif p2[0] != 'ok':
            d['v1'] = 'undecided:second parse %s' % (p2[:1],)
        elif p2[1] != d['P']:
            d.update(v1='viol:print-not-a-fixpoint', P2=p2[1])
        else:
            d['v1'] = 'ok:fixpoint'
    return out


COARSE = {'esc-leading-digit': 'leading-digit-escape', 'esc-dash-digit': 'dash-digit-escape', 'esc-hex-symbol': 'nonascii-symbol',
          'nonascii-symbol': 'nonascii-symbol', 'nonascii': 'nonascii'}


def tag_sig(tags):
    """Coarse, stable description of a part from its generator tags (used only when no single identifier reproduces)."""
    out = set()
    for t in tags:
        t = t.split('/')[-1]
        if '@' in t:
            a, b = t.split('@')
            if a.startswith('ident-'):
                continue
            out.add('%s:%s' % (b, COARSE.get(a, 'escape')))
        elif t.startswith(('selarg', 'nth', 'pe', 'pc', 'ns-', 'universal', 'relative')):
            out.add(t.split(':')[0] if t.startswith('nth:') else t)
    return ','.join(sorted(out)) or 'plain'


SKELETONS = [('comb-desc', 'a b'), ('comb-child', 'a > b'), ('comb-next', 'a + b'), ('comb-sibling', 'a ~ b'), ('list', 'a, b'),
             ('universal', '*'), ('pe', 'a::before')]


def narrow(ctx, failing):
    """failing: [(case, result, clause)] -> signature per entry.  Looks for the smallest input that shows the same kind of
    failure of the same clause: first every single identifier / string of S placed in a minimal selector of its own
    (alone, then after `a ` = behind a descendant combinator), then the bare structure (`a > b`, `a, b`, ...), then every
    top-level simple selector of S."""
    cands = []          # (entry index, text, label)
    for idx, (c, d, clause) in enumerate(failing):
        seen = set()
        for kind, raw in sg.lex_idents(c['S']):
            atom = sg.atom_for(kind, raw)
            if atom is None or (sg.lex_class(raw) == 'plain' and kind != 'attr-string') or atom in seen:
                continue
            seen.add(atom)
            lab = '%s:%s' % (kind, sg.lex_class(raw))
            cands.append((idx, atom, lab, 0))
            cands.append((idx, 'a ' + atom, lab + '/after-descendant-combinator', 1))
        tags = set(t for t in c.get('tags', []) if '/' not in t)
        for tag, text in SKELETONS:
            if tag in tags:
                cands.append((idx, text, 'structure:' + tag, 2))
        for pt, ptags in c.get('parts', []):
            if pt not in seen:
                seen.add(pt)
                cands.append((idx, pt, 'simple:' + tag_sig(ptags), 3))
    res = judge_texts(ctx, [t for _, t, _, _ in cands]) if cands else []
    sigs = []
    for idx, (c, d, clause) in enumerate(failing):
        kind = d[clause][5:]
        hits = [(rank, lab, t, r) for (o, t, lab, rank), r in zip(cands, res) if o == idx and r.get(clause) == d[clause]]
        if hits:
            hits.sort(key=lambda h: (h[0], h[1]))
            rank, lab, t, r = hits[0]
            sigs.append(('%s|%s' % (kind, lab), {'minimal': t, 'minimal_result': {k: v for k, v in r.items() if k in ('P', 'P2', 'E')}}))
        else:
            sigs.append(('%s|whole:%s' % (kind, tag_sig([t for t in c.get('tags', []) if '@' not in t])), {}))
    return sigs


def check_cases(ctx, cases):
    res = judge_texts(ctx, [c['S'] for c in cases])
    failing = []
    for c, d in zip(cases, res):
        for t in c.get('tags', []):
            ctx.seen('input-features', t.split('/')[-1])
        judged = False
        for clause in ('v1', 'v2'):
            v = d.get(clause, 'undecided:missing')
            if v.startswith('undecided'):
                ctx.undecided('unreadable', v)
            elif v.startswith('skip:'):
                ctx.stat('%s-%s' % (clause, v))
            elif v.startswith('ok:'):
                ctx.stat('%s-held:%s' % (clause, v[3:]))
                judged = True
                if v == 'ok:same-canonical-form':
                    ctx.seen('texts-differ-but-same-selector', ','.join(sorted(set(
                        '%s:%s' % (k, sg.lex_class(r)) for k, r in sg.lex_idents(c['S']) if sg.lex_class(r) != 'plain' or k == 'attr-string')))[:100])
            else:
                judged = True
                failing.append((c, d, clause))
        if judged:
            ctx.nontrivial(c['S'])
    if not failing:
        return
    for (c, d, clause), (sig, extra) in zip(failing, narrow(ctx, failing)):
        detail = {k: v for k, v in d.items() if k in ('P', 'P2', 'E', 'note', clause)}
        detail.update(extra)
        detail['S'] = c['S']
        ctx.violation(sig, c, detail)


def check_case(ctx, case):
    check_cases(ctx, [case])


def make_case(x):
    parts = []
    s, tags = x.sel_list(parts_out=parts)
    seen, uniq = set(), []
    for t, tg in parts:
        if t not in seen:
            seen.add(t)
            uniq.append([t, tg])
    return {'S': s, 'tags': tags, 'parts': uniq}


def worker(ctx):
    rng = ctx.rng
    xs = [sg.Exotic(rng, p_exotic=0.5), sg.Exotic(rng, p_exotic=0.25, max_depth=1), sg.Exotic(rng, p_exotic=0.8, max_depth=1)]
    first = True
    while not ctx.expired():
        cases = [make_case(rng.choice(xs)) for _ in range(60)]
        # single simple selectors too: the smallest inputs of every lexical class
        x = xs[2]
        for _ in range(20):
            t, tg = x.simple(0) if rng.random() < 0.8 else x.type_sel()
            cases.append({'S': t, 'tags': tg, 'parts': []})
        check_cases(ctx, cases)
        if first:
            ctx.sample({'S': cases[0]['S'], 'tags': cases[0]['tags']})
            first = False
