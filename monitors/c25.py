"""C25 - selector parsing and printing round-trip (relational monitor)."""
from .lib import ev, css, gen, selgen as sg

PROP = 'C25'
LEVEL = 'exploration'
BUDGET = {'quick': 30, 'thorough': 400}
FLOOR = {'quick': 2000, 'thorough': 30000}
RULE = ('generated selector-list TEXT S (1..3 complex selectors, all combinators with varied spacing) whose identifiers are plain, '
        'non-ASCII (BMP and astral), or escaped (\\31 23 digit-leading, -\\31 dash-digit, \\. \\: \\/ special characters, escaped '
        'blank/quote/backslash/brace, hex escapes of letters, of non-ASCII and of punctuation, six-digit and blank-terminated '
        'forms) in type, class, id, attribute-name and attribute-value position; namespaces ns|a *|a |a (also on attributes); '
        'every attribute operator, quoted (both quotes, with escapes, blanks, brackets, commas) and unquoted values, i/s '
        'modifiers in both cases; nth-child/-last-child/-of-type arguments (2n+1, 2n + 1, odd, -n+3, ... , "An+B of S"); '
        ':not/:is/:where/:has (relative)/:matches/:-webkit-any/:host/::slotted with nested selector arguments; pseudo-elements. '
        'Per S: P = text emitted for selector.parse(unquote("S")); P2 = the same for P; E = the selector emitted for '
        '`S { x: y }`.  Oracle: P2 == P exactly (printing is a fixpoint of parse-then-print); E == P after normalising white '
        'space around combinators/commas/brackets, or - when the texts differ - E and P have the same canonical form '
        '(escapes decoded, attribute quoting ignored, compound order ignored).  S rejected by selector.parse or as a rule is '
        'skipped and counted.  Distinct non-trivial = distinct S accepted both ways and judged on both clauses.')
LEVEL_TEXT = ('Relational monitor: both clauses compare outputs of the real code with each other; the only model is the CSS '
              'selector grammar used as a fallback to decide whether two different texts are the same selector.')
LEVEL_NOTE = ('Trusted: the canonical-form parser in monitors/lib/selgen.py (CSS Syntax level 3 identifier/escape/string rules); '
              'S reaches selector.parse through unquote("...") so that the defects of quoted-string escapes (C27) stay out.')
TECHNIQUE = 'runtime monitoring: print/parse fixpoint and agreement of two printing paths over generated selector text'
ASSUMPTIONS = ['"printing" selector.parse(S) = emitting the returned list as a declaration value',
               'unquote("...") of a literal without interpolation yields exactly the content of the literal']


def uq(s):
    return 'unquote(%s)' % sg.sass_quote(s)


def emitted_selectors(ctx, texts):
    """The selector rsass emits for `S { x: y }` for each S -> list of ('ok', prelude) | ('err', msg) | ('other', why).
    Ten rules per stylesheet, each identified by its declaration; a sheet that fails is redone rule by rule."""
    out = [None] * len(texts)
    groups = [list(range(i, min(i + 10, len(texts)))) for i in range(0, len(texts), 10)]
    jobs = [{'src': ''.join('%s{x:m%d}\n' % (texts[k], k) for k in g)} for g in groups]
    res = ctx.batch(jobs)
    redo = []
    for g, r in zip(groups, res):
        ok = False
        if r.get('status') == 'ok':
            try:
                nodes = css.parse(css.strip_header(r.get('out', '')))
                rules = [nd for nd in nodes if nd['t'] == 'rule']
                if len(rules) == len(g) and all(
                        len(nd['body']) == 1 and nd['body'][0].get('t') == 'decl' and nd['body'][0].get('value') == 'm%d' % k
                        for nd, k in zip(rules, g)):
                    for nd, k in zip(rules, g):
                        out[k] = ('ok', nd['raw_prelude'].strip())
                    ok = True
            except css.ParseProblem:
                pass
        if not ok:
            redo += g
    if redo:
        res = ctx.batch([{'src': '%s{x:y}\n' % texts[k]} for k in redo])
        for k, r in zip(redo, res):
            st = r.get('status')
            if st == 'ok':
                try:
                    nodes = css.parse(css.strip_header(r.get('out', '')))
                    rules = [nd for nd in nodes if nd['t'] == 'rule']
                    if len(nodes) == 1 and len(rules) == 1 and len(rules[0]['body']) == 1 and rules[0]['body'][0].get('value') == 'y':
                        out[k] = ('ok', rules[0]['raw_prelude'].strip())
                    else:
                        out[k] = ('other', 'output is not one rule: %r' % r.get('out', '')[:120])
                except css.ParseProblem as e:
                    out[k] = ('other', 'output unreadable: %s' % e)
            elif st == 'err':
                out[k] = ('err', r.get('err', ''))
            else:
                out[k] = ('other', st)
    return out


def judge_texts(ctx, texts):
    """-> per text: dict(verdict=..., ...).  verdict: 'skip:<why>' | 'ok' | 'viol:<kind>'"""
    n = len(texts)
    r1 = ev.evaluate_many(ctx, ['selector.parse(%s)' % uq(s) for s in texts], inspect=False, chunk=10)
    em = emitted_selectors(ctx, texts)
    ctx.ran(2 * n)
    out = [None] * n
    need2 = []
    for k in range(n):
        p, e = r1[k], em[k]
        if p[0] not in ('ok', 'err') or e[0] == 'other':
            out[k] = {'verdict': 'undecided', 'why': 'parse=%s rule=%s' % (p[:1], e)}
        elif p[0] == 'err' and e[0] == 'err':
            out[k] = {'verdict': 'skip:rejected-by-both'}
        elif p[0] == 'err':
            out[k] = {'verdict': 'skip:rejected-by-selector.parse-only', 'E': e[1]}
        elif e[0] == 'err':
            out[k] = {'verdict': 'skip:rejected-as-rule-only', 'P': p[1]}
        else:
            need2.append(k)
    r2 = ev.evaluate_many(ctx, ['selector.parse(%s)' % uq(r1[k][1]) for k in need2], inspect=False, chunk=10)
    ctx.ran(len(need2))
    for k, p2 in zip(need2, r2):
        P, E = r1[k][1], em[k][1]
        d = {'P': P, 'E': E}
        if p2[0] == 'err':
            d.update(verdict='viol:printed-form-rejected', P2=p2[1].split('\n')[0][:120])
        elif p2[0] != 'ok':
            d.update(verdict='undecided', why='second parse: %s' % (p2,))
        elif p2[1] != P:
            d.update(verdict='viol:print-not-a-fixpoint', P2=p2[1])
        elif sg.norm_ws(E) == sg.norm_ws(P):
            d.update(verdict='ok', how='same-text')
        else:
            cE, cP = sg.canon_or_none(E), sg.canon_or_none(P)
            if cE is None:
                d.update(verdict='viol:emitted-is-not-a-selector')
            elif cP is None:
                d.update(verdict='viol:emitted-differs-from-unparseable-print')
            elif cE == cP:
                d.update(verdict='ok', how='same-canonical-form')
            else:
                d.update(verdict='viol:emitted-differs')
        out[k] = d
    return out


def tag_sig(tags):
    t = sorted(set(x for x in tags if not x.startswith(('comb-', 'list'))))
    return ','.join(t) or 'plain'


def check_cases(ctx, cases):
    res = judge_texts(ctx, [c['S'] for c in cases])
    failing = []
    for c, d in zip(cases, res):
        v = d['verdict']
        for t in c.get('tags', []):
            ctx.seen('input-features', t.split('/')[-1])
        if v == 'undecided':
            ctx.undecided('unreadable', d.get('why'))
        elif v.startswith('skip:'):
            ctx.stat(v)
        elif v == 'ok':
            ctx.stat('held:' + d['how'])
            ctx.nontrivial(c['S'])
            if d['how'] != 'same-text':
                ctx.seen('canonical-fallback-used-for', tag_sig([t for t in c.get('tags', []) if '@' in t or t.startswith(('attr-val', 'str-'))])[:120])
        else:
            ctx.nontrivial(c['S'])
            failing.append((c, d))
    if not failing:
        return
    # narrow the signature: which single simple selector of S shows the same kind of failure on its own?
    ptexts, owner = [], []
    for idx, (c, d) in enumerate(failing):
        for pt, ptags in c.get('parts', []):
            ptexts.append(pt)
            owner.append((idx, ptags))
    pres = judge_texts(ctx, ptexts) if ptexts else []
    for idx, (c, d) in enumerate(failing):
        kind = d['verdict'][5:]
        culprits = [(tag_sig(ptags), ptexts[q], pres[q]) for q, (o, ptags) in enumerate(owner)
                    if o == idx and pres[q]['verdict'] == d['verdict']]
        if culprits:
            culprits.sort(key=lambda x: (len(x[0]), x[0]))
            sig = '%s|%s' % (kind, culprits[0][0])
            detail = dict(d, minimal=culprits[0][1], minimal_result={k: v for k, v in culprits[0][2].items() if k != 'verdict'})
        else:
            sig = '%s|whole:%s' % (kind, tag_sig(c.get('tags', [])))
            detail = dict(d)
        detail['S'] = c['S']
        ctx.violation(sig, c, detail)


def check_case(ctx, case):
    check_cases(ctx, [case])


def make_case(x):
    parts = []
    s, tags = x.sel_list(parts_out=parts)
    seen, uniq = set(), []
    for t, tg in parts:
        if t not in seen:
            seen.add(t)
            uniq.append([t, tg])
    return {'S': s, 'tags': tags, 'parts': uniq}


def worker(ctx):
    rng = ctx.rng
    xs = [sg.Exotic(rng, p_exotic=0.5), sg.Exotic(rng, p_exotic=0.25, max_depth=1), sg.Exotic(rng, p_exotic=0.8, max_depth=1)]
    first = True
    while not ctx.expired():
        cases = [make_case(rng.choice(xs)) for _ in range(60)]
        # single simple selectors too: the smallest inputs of every lexical class
        x = xs[2]
        for _ in range(20):
            t, tg = x.simple(0) if rng.random() < 0.8 else x.type_sel()
            cases.append({'S': t, 'tags': tg, 'parts': []})
        check_cases(ctx, cases)
        if first:
            ctx.sample({'S': cases[0]['S'], 'tags': cases[0]['tags']})
            first = False
