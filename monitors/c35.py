"""C35 - meaning-preserving source rewrites do not change the output (relational monitor)."""
import copy, random, re
from .lib import corpus

PROP = 'C35'
LEVEL = 'exploration'
BUDGET = {'quick': 30, 'thorough': 400}
FLOOR = {'quick': 3000, 'thorough': 40000}
RULE = ('(a) generated programs: a syntax tree with unique generated names (variables, functions with positional/keyword/default '
        'arguments, mixins with content blocks, nested rules, interpolation in selectors/values/properties, @if/@each/@for/@while, '
        '@media, loud comments), in which the generator knows every binding and use; rendered once plainly and then with a random '
        'sequence of 1..4 rewrites: ws (extra blanks, newlines, tabs and `//` comment lines after `;`, `{`, `}` only), rename (fresh '
        'names for some variables/functions/mixins/parameters, all uses and keyword arguments follow), swap (each occurrence of a '
        'name independently spelled with - or _), extract (a slash-free declaration / @return value moved into a fresh variable '
        'declared immediately before it, or - for constant values - at the top level before the rule), debug (@debug / @warn '
        'statements at statement boundaries of every kind of block), partial (a run of top-level statements moved into a partial '
        '_pN.scss that is @imported at the same place, possibly nested).  (b) every sass-spec corpus input that compiles: ws at '
        'statement boundaries found by a scanner that tracks strings, comments, parentheses, interpolation and url(), widening of '
        'whitespace that already contains a newline, and debug at the same boundaries (never before @else, never on a line that '
        'holds a loud comment, never before an @use).  A pair counts when the original compiles (or, for generated programs, '
        'fails) and the rewrite really changed the source; distinct by hash of the rewritten source.  Oracle: same outcome class '
        '(ok / error) and, when ok, identical output bytes.  A failing sequence is reduced to single steps to name the rewrite.')
LEVEL_TEXT = ('Relational monitor: original and rewritten source are two executions of the real compiler; no model of Sass is '
              'needed beyond the certainty that the rewrite preserves meaning.')
LEVEL_NOTE = ('Trusted: that each rewrite is meaning-preserving where it is applied (statement boundaries only; names unique and '
              'not CSS words; extracted values free of `/`, `&`, !important and side effects; partials share the global scope of '
              '@import).  Rewrites inside selectors, values, media queries and argument lists are not attempted.')
TECHNIQUE = 'runtime monitoring: metamorphic relation (output invariance under meaning-preserving source rewrites) on generated programs and corpus inputs'

HEADER = '@use "sass:math";\n'
COLORS = ['red', '#123', '#abcdef', '#A1B2C3', 'blue', 'transparent', 'rebeccapurple', '#ff0000', 'rgba(1, 2, 3, 0.5)', '#0000']
STRS = ['"s"', "'t'", '"a b"', '"x;y"', '"{"', '"}"', '"//n"', '"/*c*/"', '""', '"it\'s"', '"$v"']
IDENTS = ['solid', 'auto', 'bold', 'inherit', 'block', 'none', 'left', 'serif']
PROPS = ['color', 'margin', 'padding', 'width', 'border', 'font', 'background', 'top', 'content', 'z-index', 'flex', 'outline']
TAGS = ['a', 'b', 'p', 'ul', 'li', 'div', 'nav', 'h1', '.box', '.btn', '#main', '.is-on', 'a:hover', 'li > a', 'p + p', '.x .y', '*']
MEDIA = ['print', 'screen and (min-width: 100px)', '(max-width: 50em)', 'screen, print']


# ======================================================================================================================
# generated programs
#
# expression  E = [atom...]; atom = ['t', text] | ['v', id] | ['c', id, [[param id or None, E]...]] | ['i', E]  (#{E})
# statement     = ['var', id, E, flag] | ['decl', propE, E, extractable] | ['rule', selE, body] | ['media', text, body]
#               | ['mixin', id, params, body] | ['include', id, args, body or None] | ['content'] | ['func', id, params, body]
#               | ['return', E] | ['if', E, body, else-body or None] | ['each', [ids], E, body] | ['for', id, E, E, word, body]
#               | ['while', E, body] | ['comment', text] | ['debug', word, text] | ['import', n, body]
# params        = [[id, default E or None]...]

def fresh_name(rng, used):
    while True:
        a = rng.choice('abcdefghjkmnpqrstuvwxyz') + ''.join(rng.choice('abcdefghijklmnopqrstuvwxyz') for _ in range(rng.randint(0, 2)))
        d = '%d%d' % (rng.randint(0, 9), rng.randint(0, 9))
        k = rng.random()
        if k < 0.35:
            n = a + d + rng.choice('kqxz')
        elif k < 0.7:
            n = '%s%s-%s%d' % (a, d[0], rng.choice('abcxyz'), rng.randint(0, 9))
        elif k < 0.9:
            n = '%s%s_%s%d' % (a, d[0], rng.choice('abcxyz'), rng.randint(0, 9))
        else:
            n = '%s%s%s%s%s%d' % (a, d[0], rng.choice('-_'), rng.choice('abcxyz'), rng.choice('-_'), rng.randint(0, 9))
        key = n.replace('_', '-')
        if key not in used:
            used.add(key)
            return n


class Gen:
    def __init__(self, rng):
        self.rng = rng
        self.names = {}
        self.used = set()
        self.funcs = []          # [(id, [param ids], n_required)]
        self.mixins = []         # [(id, [param ids], n_required, has_content)]
        self.n = 0

    def new(self, kind):
        self.n += 1
        i = str(self.n)
        self.names[i] = {'k': kind, 'n': fresh_name(self.rng, self.used)}
        return i

    # ---- expressions
    def num(self, scope, depth=0):
        r = self.rng
        nums = [v for v, t in scope if t == 'num']
        k = r.random()
        if depth >= 2 or k < 0.3:
            return [['t', '%dpx' % r.randint(1, 40)]]
        if k < 0.55 and nums:
            return [['v', r.choice(nums)]]
        if k < 0.7:
            return self.num(scope, depth + 1) + [['t', r.choice([' + ', ' - '])]] + self.num(scope, depth + 1)
        if k < 0.78:
            return [['t', '(']] + self.num(scope, depth + 1) + [['t', ') * %d' % r.randint(2, 4)]]
        if k < 0.84:
            return [['t', 'math.div(']] + self.num(scope, depth + 1) + [['t', ', %d)' % r.choice([2, 4, 5])]]
        if k < 0.9:
            return [['t', r.choice(['abs(', 'math.round(', 'math.max(3px, '])]] + self.num(scope, depth + 1) + [['t', ')']]
        if k < 0.94:
            return ([['t', 'if(']] + self.num(scope, depth + 1) + [['t', r.choice([' > 20px, ', ' < 9px, ', ' == 4px, '])]]
                    + self.num(scope, depth + 1) + [['t', ', ']] + self.num(scope, depth + 1) + [['t', ')']])
        if self.funcs:
            return [self.call(scope, depth)]
        return [['t', '%dpx' % r.randint(1, 40)]]

    def call(self, scope, depth):
        r = self.rng
        f, params, req = r.choice(self.funcs)
        return ['c', f, self.args(scope, depth, params, req)]

    def args(self, scope, depth, params, req):
        r = self.rng
        n = r.randint(req, len(params))
        args = []
        kw = False
        for j in range(n):
            if not kw and r.random() < 0.25:
                kw = True
            args.append([params[j] if kw else None, self.num(scope, depth + 1)])
        if kw and r.random() < 0.5:
            # keyword arguments may come in any order
            pos = [a for a in args if a[0] is None]
            kws = [a for a in args if a[0] is not None]
            r.shuffle(kws)
            args = pos + kws
        return args

    def anyv(self, scope, depth=0):
        """-> (E, extractable)"""
        r = self.rng
        k = r.random()
        others = [v for v, t in scope if t != 'num']
        if k < 0.3:
            return self.num(scope, depth), True
        if k < 0.42:
            return [['t', r.choice(COLORS)]], True
        if k < 0.52:
            return [['t', r.choice(STRS)]], True
        if k < 0.6:
            return [['t', r.choice(IDENTS)]], True
        if k < 0.7 and others:
            return [['v', r.choice(others)]], True
        if k < 0.78 and depth < 2:
            a, xa = self.anyv(scope, depth + 1)
            b, xb = self.anyv(scope, depth + 1)
            return a + [['t', r.choice([' ', ' ', ', '])]] + b, xa and xb and depth == 0
        if k < 0.84:
            return [['t', r.choice(['solid-', 'w', 'x-'])], ['i', self.num(scope, depth + 1)]], True
        if k < 0.88:
            return [['t', '"n: '], ['i', self.num(scope, depth + 1)], ['t', '"']], True
        if k < 0.92:
            return self.num(scope, depth) + [['t', '/'], ['t', '%dpx' % r.randint(2, 9)]], False       # a slash: never extracted
        if k < 0.95:
            return self.num(scope, depth) + [['t', ' !important']], False
        return [['t', r.choice(['calc(100% - 10px)', 'var(--x, 1px)', 'url(img.png)', 'url("a;b.png")', 'translate(1px, 2%)',
                                'nth(1px 2px 3px, 2)', 'percentage(0.25)', 'to-upper-case("ab")', 'rgba(#102030, 0.5)'])]], True

    # ---- statements
    def decl(self, scope):
        r = self.rng
        e, x = self.anyv(scope)
        prop = [['t', r.choice(PROPS)]]
        idents = [v for v, t in scope if t == 'ident']
        if idents and r.random() < 0.1:
            prop = [['t', 'border-'], ['i', [['v', r.choice(idents)]]]]
        return ['decl', prop, e, x]

    def value_for(self, scope, t):
        r = self.rng
        if t == 'num':
            return self.num(scope)
        if t == 'ident':
            return [['t', r.choice(IDENTS)]]
        e = self.anyv(scope)[0]
        if any(a[0] == 't' and '!' in a[1] for a in e):
            e = [['t', r.choice(COLORS)]]
        return e

    def vardecl(self, scope, top):
        r = self.rng
        k = r.random()
        if scope and k < 0.25:
            # re-assignment of a visible variable with a value of its type
            v, t = r.choice(scope)
            return ['var', v, self.value_for(scope, t), r.choice(['', '', ' !default', '' if top else ' !global'])], None
        t = r.choice(['num', 'num', 'num', 'ident', 'any'])
        v = self.new('var')
        return ['var', v, self.value_for(scope, t), r.choice(['', '', '', ' !default'])], (v, t)

    def selector(self, scope, nested):
        r = self.rng
        s = r.choice(TAGS)
        k = r.random()
        idents = [v for v, t in scope if t == 'ident']
        if nested and k < 0.25:
            return [['t', r.choice(['&:hover', '&.on', '& > em', 'b &', '&-sfx'])]]
        if idents and k < 0.45:
            return [['t', '.k-'], ['i', [['v', r.choice(idents)]]], ['t', r.choice(['', ' em', ':focus'])]]
        if k < 0.55:
            return [['t', s + ', ' + r.choice(TAGS)]]
        return [['t', s]]

    def body(self, scope, ctx, depth):
        """ctx: 'rule' | 'top' | 'mixin' (declarations allowed like in a rule) | 'func' | 'media-top'"""
        r = self.rng
        scope = list(scope)
        out = []
        for _ in range(r.randint(1, 4)):
            st, newvar = self.statement(scope, ctx, depth)
            out.append(st)
            if newvar:
                scope.append(newvar)
        return out

    def statement(self, scope, ctx, depth):
        r = self.rng
        k = r.random()
        decls = ctx in ('rule', 'mixin')
        if ctx == 'func':
            if k < 0.45:
                return self.vardecl(scope, False)
            if k < 0.7 and depth < 3:
                return ['if', self.num(scope) + [['t', r.choice([' > 12px', ' < 30px', ' != 7px'])]],
                        [self.vardecl(scope, False)[0] if r.random() < 0.3 else ['return', self.num(scope)]],
                        None if r.random() < 0.5 else [['return', self.num(scope)]]], None
            if k < 0.85 and depth < 3:
                i = self.new('var')
                acc = [v for v, t in scope if t == 'num']
                inner = [['var', r.choice(acc), [['v', r.choice(acc)], ['t', ' + '], ['v', i], ['t', ' * 1px']], '']] if acc else \
                    [['var', self.new('var'), [['v', i]], '']]
                return ['for', i, [['t', '1']], [['t', str(r.randint(2, 3))]], r.choice(['through', 'to']), inner], None
            return self.vardecl(scope, False)
        if decls and k < 0.4:
            return self.decl(scope), None
        if k < 0.5:
            return self.vardecl(scope, ctx == 'top')
        if k < 0.55:
            return ['comment', r.choice(['note', 'x y', 'a{b}', 'semi;colon', '! keep', "it's", 'n #{1 + 1}'])], None
        if depth >= 3:
            return (self.decl(scope), None) if decls else (['rule', self.selector(scope, False), [self.decl(scope)]], None)
        if k < 0.68:
            return ['rule', self.selector(scope, ctx != 'top' and decls), self.body(scope, 'rule', depth + 1)], None
        if k < 0.72:
            return ['media', r.choice(MEDIA), self.body(scope, ctx if decls else 'top', depth + 1)], None
        if k < 0.78:
            cond = self.num(scope) + [['t', r.choice([' > 12px', ' < 30px', ' == 5px', ' != 7px'])]]
            if r.random() < 0.2:
                cond = [['t', r.choice(['true', 'false', 'not true', 'null'])]]
            return ['if', cond, self.body(scope, ctx, depth + 1), None if r.random() < 0.4 else self.body(scope, ctx, depth + 1)], None
        if k < 0.83:
            i = self.new('var')
            if r.random() < 0.5:
                inner_scope = scope + [(i, 'ident')]
                return ['each', [i], [['t', r.choice(['aa, bb, cc', 'left right', 'solid'])]], self.body(inner_scope, ctx, depth + 1)], None
            j = self.new('var')
            inner_scope = scope + [(i, 'ident'), (j, 'num')]
            return ['each', [i, j], [['t', '(aa: 1px, bb: 2px)']], self.body(inner_scope, ctx, depth + 1)], None
        if k < 0.87:
            i = self.new('var')
            return ['for', i, [['t', '1']], [['t', str(r.randint(1, 3))]], r.choice(['through', 'to']),
                    self.body(scope + [(i, 'any')], ctx, depth + 1)], None
        if k < 0.9 and ctx == 'top' and depth == 0:
            # counted loop: the counter is a global that the body advances as its last statement
            i = self.new('var')
            body = self.body(scope, ctx, depth + 1)                 # the body never touches the counter
            body.append(['var', i, [['v', i], ['t', ' + 1']], ''])
            return ['while', [['v', i], ['t', ' < %d' % r.randint(1, 3)]], body, i], None
        if k < 0.94 and self.mixins:
            m, params, req, has_content = r.choice(self.mixins)
            content = self.body(scope, 'rule', depth + 1) if has_content and r.random() < 0.6 else None
            inc = ['include', m, self.args(scope, 0, params, req), content]
            return (inc, None) if decls else (['rule', self.selector(scope, False), [inc]], None)
        if decls:
            return self.decl(scope), None
        return ['rule', self.selector(scope, False), self.body(scope, 'rule', depth + 1)], None

    def params(self, scope):
        r = self.rng
        n = r.randint(0, 3)
        ps, ids = [], []
        req = 0
        defaulting = False
        for j in range(n):
            p = self.new('var')
            if defaulting or r.random() < 0.4:
                defaulting = True
                ps.append([p, self.num(scope + [(q, 'num') for q in ids], 1)])
            else:
                ps.append([p, None])
                req += 1
            ids.append(p)
        return ps, ids, req

    def funcdef(self, scope):
        f = self.new('fn')
        ps, ids, req = self.params(scope)
        inner = scope + [(p, 'num') for p in ids]
        body = []
        for _ in range(self.rng.randint(0, 3)):
            st, nv = self.statement(inner, 'func', 1)
            body.append(st)
            if nv:
                inner = inner + [nv]
        body.append(['return', self.num(inner)])
        self.funcs.append((f, ids, req))
        return ['func', f, ps, body]

    def mixindef(self, scope):
        m = self.new('mixin')
        ps, ids, req = self.params(scope)
        inner = scope + [(p, 'num') for p in ids]
        body = self.body(inner, 'mixin', 1)
        has_content = self.rng.random() < 0.4
        if has_content:
            body.insert(self.rng.randint(0, len(body)), ['content'])
        self.mixins.append((m, ids, req, has_content))
        return ['mixin', m, ps, body]

    def program(self):
        r = self.rng
        scope = []
        top = []
        for _ in range(r.randint(3, 9)):
            k = r.random()
            if k < 0.25:
                st, nv = self.vardecl(scope, True)
                top.append(st)
                if nv:
                    scope.append(nv)
            elif k < 0.4:
                top.append(self.funcdef(scope))
            elif k < 0.55:
                top.append(self.mixindef(scope))
            else:
                st, nv = self.statement(scope, 'top', 0)
                if st[0] == 'while':
                    top.append(['var', st[3], [['t', '0']], ''])
                    st = st[:3]
                top.append(st)
                if nv:
                    scope.append(nv)
        return {'names': self.names, 'top': top, 'next': self.n}


# ---- rendering

class Render:
    def __init__(self, names, opts):
        self.names = names
        self.swap = random.Random(opts['swap']) if opts.get('swap') is not None else None
        self.gap = random.Random(opts['gap']) if opts.get('gap') is not None else None
        self.files = {}
        self.nfile = 0

    def name(self, i):
        n = self.names[i]['n']
        if self.swap is not None:
            n = ''.join((self.swap.choice('-_') if c in '-_' else c) for c in n)
        return n

    def g(self, comment_ok=True):
        """Extra text at a statement boundary (after ; { } and before })."""
        if self.gap is None:
            return ''
        r = self.gap
        k = r.random()
        if k < 0.45:
            return ''
        if k < 0.6:
            return r.choice([' ', '  ', '\t', '\n', '\n\n', ' \n   ', '\r\n', '\n\t'])
        if k < 0.8 and comment_ok:
            return r.choice(['// c', ' // a { b: c; }', '\n// "q', '// /* x', "  // it's", '//', '// #{$nope}']) + '\n'
        return '\n' * r.randint(1, 3) + ' ' * r.randint(0, 6)

    def b(self):
        """Extra text between the last token of a statement and its terminating `;` (blanks, newlines, a silent comment)."""
        if self.gap is None:
            return ''
        r = self.gap
        k = r.random()
        if k < 0.8:
            return ''
        if k < 0.93:
            return r.choice([' ', '  ', '\t', '\n', ' \n  '])
        return r.choice([' // c\n', '// x\n  ', ' //\n'])

    def e(self, E):
        out = []
        for a in E:
            if a[0] == 't':
                out.append(a[1])
            elif a[0] == 'v':
                out.append('$' + self.name(a[1]))
            elif a[0] == 'i':
                out.append('#{' + self.e(a[1]) + '}')
            else:
                out.append('%s(%s)' % (self.name(a[1]), self.args(a[2])))
        return ''.join(out)

    def args(self, args):
        return ', '.join((('$%s: ' % self.name(k)) if k is not None else '') + self.e(v) for k, v in args)

    def params(self, ps):
        return ', '.join('$' + self.name(p) + ((': ' + self.e(d)) if d is not None else '') for p, d in ps)

    def block(self, head, body, ind):
        return '%s%s {%s\n%s%s%s}%s' % (ind, head, self.g(), self.stmts(body, ind + '  '), self.g(), ind, self.g())

    def stmts(self, body, ind):
        return ''.join(self.stmt(s, ind) + '\n' for s in body)

    def stmt(self, s, ind):
        k = s[0]
        if k == 'var':
            return '%s$%s: %s%s%s;%s' % (ind, self.name(s[1]), self.e(s[2]), s[3], self.b(), self.g())
        if k == 'decl':
            return '%s%s: %s%s;%s' % (ind, self.e(s[1]), self.e(s[2]), self.b(), self.g())
        if k == 'rule':
            return self.block(self.e(s[1]), s[2], ind)
        if k == 'media':
            return self.block('@media ' + s[1], s[2], ind)
        if k == 'mixin':
            return self.block('@mixin %s(%s)' % (self.name(s[1]), self.params(s[2])), s[3], ind)
        if k == 'func':
            return self.block('@function %s(%s)' % (self.name(s[1]), self.params(s[2])), s[3], ind)
        if k == 'include':
            head = '@include %s(%s)' % (self.name(s[1]), self.args(s[2]))
            if s[3] is None:
                return '%s%s%s;%s' % (ind, head, self.b(), self.g())
            return self.block(head, s[3], ind)
        if k == 'content':
            return '%s@content%s;%s' % (ind, self.b(), self.g())
        if k == 'return':
            return '%s@return %s%s;%s' % (ind, self.e(s[1]), self.b(), self.g())
        if k == 'if':
            t = '%s@if %s {%s\n%s%s%s}' % (ind, self.e(s[1]), self.g(), self.stmts(s[2], ind + '  '), self.g(), ind)
            if s[3] is not None:
                # between } and @else only blanks and newlines are added
                t += '%s @else {%s\n%s%s%s}' % (self.g(False).replace('\r', ''), self.g(), self.stmts(s[3], ind + '  '), self.g(), ind)
            return t + self.g()
        if k == 'each':
            return self.block('@each %s in %s' % (', '.join('$' + self.name(i) for i in s[1]), self.e(s[2])), s[3], ind)
        if k == 'for':
            return self.block('@for $%s from %s %s %s' % (self.name(s[1]), self.e(s[2]), s[4], self.e(s[3])), s[5], ind)
        if k == 'while':
            return self.block('@while %s' % self.e(s[1]), s[2], ind)
        if k == 'comment':
            return '%s/* %s */' % (ind, s[1])          # nothing is added on a line that holds a loud comment
        if k == 'debug':
            return '%s@%s %s%s;%s' % (ind, s[1], s[2], self.b(), self.g())
        if k == 'import':
            self.nfile += 1
            fname = 'p%d' % self.nfile
            text = self.stmts(s[2], '')
            self.files['_%s.scss' % fname] = (HEADER if 'math.' in text else '') + text
            return '%s@import "%s"%s;%s' % (ind, fname, self.b(), self.g())
        raise ValueError(k)


def render(prog, opts):
    r = Render(prog['names'], opts)
    main = HEADER + r.g() + r.stmts(prog['top'], '')
    files = dict(r.files)
    files['main.scss'] = main
    return files


# ---- rewrites of generated programs: (program, opts) -> (program, opts)

def walk_bodies(prog):
    """Yield (body list, context) for every statement list; context: top | rule | func | other."""
    def rec(body, ctx):
        yield body, ctx
        for s in body:
            k = s[0]
            if k in ('rule', 'media'):
                for x in rec(s[2], ctx if k == 'media' else 'rule'):
                    yield x
            elif k == 'mixin':
                for x in rec(s[3], 'rule'):
                    yield x
            elif k == 'func':
                for x in rec(s[3], 'func'):
                    yield x
            elif k == 'include' and s[3] is not None:
                for x in rec(s[3], 'rule'):
                    yield x
            elif k == 'if':
                for x in rec(s[2], ctx):
                    yield x
                if s[3] is not None:
                    for x in rec(s[3], ctx):
                        yield x
            elif k == 'each':
                for x in rec(s[3], ctx):
                    yield x
            elif k == 'for':
                for x in rec(s[5], ctx):
                    yield x
            elif k == 'while':
                for x in rec(s[2], ctx):
                    yield x
            elif k == 'import':
                for x in rec(s[2], ctx):
                    yield x
    return rec(prog['top'], 'top')


def constant(E):
    return all(a[0] == 't' for a in E) and not any(c in a[1] for a in E for c in '($')


def new_id(prog, rng, kind='var'):
    used = set(v['n'].replace('_', '-') for v in prog['names'].values())
    prog['next'] += 1
    i = str(prog['next'])
    prog['names'][i] = {'k': kind, 'n': fresh_name(rng, used)}
    return i


def rw_rename(prog, opts, rng):
    prog = copy.deepcopy(prog)
    ids = sorted(prog['names'], key=int)
    used = set(v['n'].replace('_', '-') for v in prog['names'].values())
    if not ids:
        return prog, opts, None
    for i in rng.sample(ids, max(1, len(ids) * rng.randint(1, 4) // 4)):
        prog['names'][i]['n'] = fresh_name(rng, used)
    return prog, opts, 'any'


def rw_swap(prog, opts, rng):
    return prog, dict(opts, swap=rng.randrange(1 << 30)), 'any'


def rw_ws(prog, opts, rng):
    return prog, dict(opts, gap=rng.randrange(1 << 30)), 'any'


def rw_extract(prog, opts, rng):
    prog = copy.deepcopy(prog)
    sites = []
    top_index = {}
    for body, ctx in walk_bodies(prog):
        for s in body:
            if (s[0] == 'decl' and s[3]) or s[0] == 'return':
                sites.append((body, s, ctx))
    if not sites:
        return prog, opts, None
    where = set()
    for body, s, ctx in rng.sample(sites, 1):             # one site per step: the step's description stays simple
        v = new_id(prog, rng)
        E = s[2] if s[0] == 'decl' else s[1]
        hoist = constant(E) and ctx != 'top' and rng.random() < 0.5
        decl = ['var', v, E, '']
        if s[0] == 'decl':
            s[2] = [['v', v]]
            s[3] = False
        else:
            s[1] = [['v', v]]
        if hoist:
            # a constant: the fresh variable may as well be a global declared before the top-level statement that holds the site
            for j, t in enumerate(prog['top']):
                if any(b is body for b, _ in walk_bodies({'top': [t]})):
                    prog['top'].insert(j, decl)
                    where.add('hoisted-to-top-level')
                    break
            else:
                body.insert([id(x) for x in body].index(id(s)), decl)
                where.add('in-' + ctx)
        else:
            body.insert([id(x) for x in body].index(id(s)), decl)
            where.add('return-value' if s[0] == 'return' else 'in-' + ctx)
    return prog, opts, '+'.join(sorted(where))


def rw_debug(prog, opts, rng):
    prog = copy.deepcopy(prog)
    bodies = list(walk_bodies(prog))
    where = set()
    for body, ctx in rng.sample(bodies, 1):
        limit = len(body)
        if ctx == 'func':
            # never after an @return of the same statement list
            limit = min([k for k, s in enumerate(body) if s[0] == 'return'] + [limit])
        pos = rng.randint(0, limit)
        word = rng.choice(['debug', 'warn'])
        body.insert(pos, ['debug', word, rng.choice(['"x"', '"a;b"', '1px + 1px', '"{"', 'c35'])])
        where.add('%s-in-%s' % (word, ctx))
    return prog, opts, '+'.join(sorted(where))


def rw_partial(prog, opts, rng):
    prog = copy.deepcopy(prog)
    # a run of top-level statements (of main or of a partial made earlier) becomes a partial imported in place
    tops = [prog['top']] + [s[2] for s in prog['top'] if s[0] == 'import']
    body = rng.choice(tops)
    if not body:
        return prog, opts, None
    i = rng.randrange(len(body))
    j = min(len(body), i + rng.randint(1, 3))
    # is any global variable (assigned at the top level, in top-level control flow, or with !global) the target of a second
    # assignment anywhere (nested ones without !global included: they shadow a true global, but update a non-global)?
    count, globs = {}, set()
    for b, ctx in walk_bodies(prog):
        for s in b:
            ids = []
            if s[0] == 'var':
                ids = [s[1]]
                if ctx == 'top' or 'global' in s[3]:
                    globs.add(s[1])
            elif s[0] == 'each':
                ids = s[1]
            elif s[0] == 'for':
                ids = [s[1]]
            if ctx == 'top':
                globs.update(ids)
            for v in ids:
                count[v] = count.get(v, 0) + 1
    site = 'a-global-is-assigned-more-than-once' if any(count[v] > 1 for v in globs) else 'globals-assigned-once'
    body[i:j] = [['import', 0, body[i:j]]]
    return prog, opts, site


REWRITES = {'ws': rw_ws, 'rename': rw_rename, 'swap': rw_swap, 'extract': rw_extract, 'debug': rw_debug, 'partial': rw_partial}


def apply_steps(prog, steps):
    """steps: [[kind, seed]...] -> (files, [site description per step])"""
    opts = {}
    sites = []
    for kind, seed in steps:
        prog, opts, site = REWRITES[kind](prog, opts, random.Random(seed))
        sites.append(site)
    return render(prog, opts), sites


# ======================================================================================================================
# corpus inputs: text-level rewrites

def scan(src):
    """-> (boundaries, newlines): boundaries = [(index just after a `;` `{` `}` that ends a statement or opens/closes a block,
    char)], newlines (see below; not in strings, comments, parentheses, interpolation).  Returns None when the text is not
    understood (unbalanced, `//` inside parentheses).  newlines = [(index of a \\n at block level, index where its statement
    starts)]."""
    n = len(src)
    i = 0
    stack = []                   # 'block' | 'interp' | 'paren' | ('str', quote)
    bounds, nls = [], []
    while i < n:
        c = src[i]
        top = stack[-1] if stack else 'block'
        if isinstance(top, tuple):                      # inside a string
            if c == '\\':
                i += 2
                continue
            if c == '#' and src[i + 1:i + 2] == '{':
                stack.append('interp')
                i += 2
                continue
            if c == top[1]:
                stack.pop()
            elif c == '\n':
                return None
            i += 1
            continue
        if c == '\\':
            i += 2
            continue
        if c in '"\'':
            stack.append(('str', c))
            i += 1
            continue
        if c == '/' and src[i + 1:i + 2] == '*':
            j = src.find('*/', i + 2)
            if j < 0:
                return None
            i = j + 2
            continue
        if c == '/' and src[i + 1:i + 2] == '/':
            if top == 'paren':
                return None                              # e.g. `@supports (a //` - raw text, not a comment
            j = src.find('\n', i)
            if j < 0:
                break
            i = j                                        # the newline itself is code
            continue
        if c == '#' and src[i + 1:i + 2] == '{':
            stack.append('interp')
            i += 2
            continue
        if c in '([':
            if c == '(' and src[max(0, i - 3):i].lower() == 'url' and not re.match(r'\s*["\']', src[i + 1:i + 40]):
                # unquoted url: raw up to the closing parenthesis
                j = i + 1
                depth = 0
                while j < n:
                    d = src[j]
                    if d == '\\':
                        j += 2
                        continue
                    if d == '#' and src[j + 1:j + 2] == '{':
                        depth += 1
                        j += 2
                        continue
                    if d == '}' and depth:
                        depth -= 1
                    elif d == ')' and not depth:
                        break
                    j += 1
                if j >= n:
                    return None
                i = j + 1
                continue
            stack.append('paren')
            i += 1
            continue
        if c in ')]':
            if top != 'paren':
                return None
            stack.pop()
            i += 1
            continue
        if c == '{':
            if top == 'paren':
                return None
            stack.append('block')
            if top == 'block':
                bounds.append((i + 1, c))
            i += 1
            continue
        if c == '}':
            if not stack or top == 'paren':
                return None
            stack.pop()
            if top == 'block' and (not stack or stack[-1] == 'block'):
                bounds.append((i + 1, c))
            i += 1
            continue
        if c == ';' and top == 'block':
            bounds.append((i + 1, c))
        elif c == '\n' and top == 'block':
            nls.append((i, bounds[-1][0] if bounds else 0))
        i += 1
    if stack:
        return None
    return bounds, nls


_NEXT = re.compile(r'(?:\s|//[^\n]*(?:\n|$))*')


def usable_boundaries(src, bounds, for_debug):
    out = []
    last_use = max([m.end() for m in re.finditer(r'@(?:use|forward)\b[^;]*;', src)] + [0])
    for pos, ch in bounds:
        eol = src.find('\n', pos)
        line_rest = src[pos:eol if eol >= 0 else len(src)]
        bol = src.rfind('\n', 0, pos) + 1
        if '/*' in line_rest or '*/' in src[bol:pos]:
            continue                        # a loud comment on this line: its column / trailing position would change
        nxt = _NEXT.match(src, pos).end()
        if src.startswith('/*', nxt) or src.startswith(';', nxt):
            continue                        # (an empty statement `;;` is its own matter: rsass refuses it at the top level)
        if for_debug and src.startswith('@', nxt) and src[nxt + 1:nxt + 2] in ('e', 'E', '\\'):
            continue                        # possibly @else (also spelled with an escape): no statement may come before it
        if for_debug and pos < last_use:
            continue
        out.append(pos)
    return out


_SASS_AT = re.compile(r'@(?:if|else|each|for|while|mixin|include|function|return|debug|warn|error|extend|content|at-root)\b')


def widenable(src, head):
    """Whitespace holding a newline may be widened inside statements that are rules, declarations, variable declarations or
    Sass control statements - not inside @media / @supports / @import / unknown at-rule preludes (kept as written)."""
    nxt = _NEXT.match(src, head).end()
    if src.startswith('@', nxt):
        return bool(_SASS_AT.match(src, nxt))
    return True


def corpus_apply(src, steps):
    """-> (rewritten source or None, site descriptions)"""
    sites = []
    for kind, seed in steps:
        rng = random.Random(seed)
        sc = scan(src)
        if sc is None:
            return None, sites
        bounds, nls = sc
        if kind == 'ws':
            us = usable_boundaries(src, bounds, False)
            if not us:
                return None, sites
            ins = {}
            chars = set()
            for pos in rng.sample(us, min(len(us), rng.randint(1, 6))):
                nxt = _NEXT.match(src, pos).end()
                k = rng.random()
                if (src.startswith('@', nxt) and src[nxt + 1:nxt + 2] in ('e', 'E', '\\')) or k < 0.6:
                    ins[pos] = rng.choice([' ', '\n', '\n\n  ', '\t', ' \n', '   '])
                else:
                    ins[pos] = rng.choice([' // c35\n', '\n// a { b: c; }\n', ' //\n', ' // "q\n'])
                chars.add('after-' + {';': 'semicolon', '{': 'open-brace', '}': 'close-brace'}[src[pos - 1]])
            site = 'statement-boundary'
        elif kind == 'widen':
            us = [p for p, head in nls if src[p - 1:p] != '\\' and widenable(src, head)]
            if not us:
                return None, sites
            ins = {}
            for pos in rng.sample(us, min(len(us), rng.randint(1, 6))):
                ins[pos] = rng.choice(['\n', ' \n', '\n\n', '\t', '  '])          # before the existing newline
            site = 'newline'
        else:
            us = usable_boundaries(src, bounds, True)
            if not us:
                return None, sites
            ins = {}
            chars = set()
            for pos in rng.sample(us, 1):
                word = rng.choice(['debug', 'warn'])
                ins[pos] = ' @%s "c35";' % word
                chars.add(word)
            site = '+'.join(sorted(chars))
        out = []
        prev = 0
        for pos in sorted(ins):
            out.append(src[prev:pos])
            out.append(ins[pos])
            prev = pos
        out.append(src[prev:])
        src = ''.join(out)
        sites.append(site)
    return src, sites


def corpus_ok(e):
    s = e['src']
    if e['kind'] != 'ok' or '--' in s or '@charset' in s or '\r' in s or '\f' in s:
        return False
    return True


# ======================================================================================================================

def outcome(r):
    st = r.get('status')
    if st == 'ok':
        return 'ok', r.get('out_hex') or r.get('out', '')
    if st == 'err':
        return 'err', None
    return st, None


def job_of(files):
    return {'files': files, 'entry': 'main.scss'}


def compare(ctx, case, base, res, steps, sites):
    """base/res: driver answers for original and rewritten.  -> None (agree / undecided) or (class, detail)"""
    a, b = outcome(base), outcome(res)
    for o in (a, b):
        if o[0] in ('timeout', 'crash', 'harness-error'):
            ctx.undecided(o[0])
            return None
    if a[0] == 'panic':
        ctx.undecided('original-panics')               # C01's business
        return None
    if a[0] == b[0] and a[1] == b[1]:
        return None
    if b[0] == 'panic':
        cls = 'rewritten=panic'
    elif a[0] == 'ok' and b[0] == 'ok':
        cls = 'output-differs'
    else:
        cls = 'original=%s|rewritten=%s' % (a[0], b[0])
    return cls


def files_of(case, steps):
    if case['source'] == 'gen':
        return apply_steps(case['prog'], steps)
    src, sites = corpus_apply(case['src'], steps)
    return (None if src is None else {'main.scss': src}), sites


def judge_case(ctx, case, base, res, files, sites):
    """When original and rewritten disagree, the steps are replayed one after the other: since every step preserves meaning,
    the first step after which the result changes is the one that broke it, relative to the source before that step."""
    if compare(ctx, case, base, res, case['steps'], sites) is None:
        return
    prev_r, prev_files = base, None
    for k in range(1, len(case['steps']) + 1):
        fk, sk = files_of(case, case['steps'][:k])
        if fk is None:
            return
        rk = res if k == len(case['steps']) else ctx.compile(**job_of(fk))
        cls = compare(ctx, case, prev_r, rk, None, None)
        if cls is not None:
            report(ctx, dict(case, steps=case['steps'][:k]), prev_r, rk, prev_files, fk, case['steps'][k - 1], sk[-1], cls)
            return
        if outcome(rk)[0] not in ('ok', 'err'):
            return
        prev_r, prev_files = rk, fk


def report(ctx, case, before, after, files_before, files_after, step, site, cls):
    sig = 'source=%s|rewrite=%s%s|%s' % (case['source'], step[0], ('|at=' + site) if site and site != 'any' else '', cls)
    if files_before is None:
        files_before = render(case['prog'], {}) if case['source'] == 'gen' else {'main.scss': case['src']}
    text = lambda r: (r.get('out') or r.get('err') or r.get('panic_msg') or '')[:700]
    ctx.violation(sig, case, {'note': 'the last step of case.steps changed the result; shown: source before and after that step',
                              'before': files_before, 'after': files_after, 'result_before': text(before), 'result_after': text(after)})


def run_batch(ctx, cases, bad=None):
    """cases: dicts with source, prog|src, steps.  Compiles each original once and every rewritten source, judges."""
    jobs, meta, origs = [], [], {}
    for c in cases:
        files, sites = files_of(c, c['steps'])
        if files is None:
            ctx.stat('rewrite-not-applicable')
            continue
        key = id(c['prog']) if c['source'] == 'gen' else c['src']
        if key not in origs:
            orig = render(c['prog'], {}) if c['source'] == 'gen' else {'main.scss': c['src']}
            origs[key] = (len(jobs), orig)
            jobs.append(job_of(orig))
        if files == origs[key][1]:
            ctx.stat('rewrite-changed-nothing')
            continue
        meta.append((c, files, sites, origs[key][0], len(jobs)))
        jobs.append(job_of(files))
    res = ctx.batch(jobs) if jobs else []
    ctx.ran(len(jobs))
    for c, files, sites, bi, ri in meta:
        base, r = res[bi], res[ri]
        st = base.get('status')
        ctx.stat('original:%s:%s' % (c['source'], st))
        if c['source'] == 'corpus' and st != 'ok':
            if bad is not None:
                bad.add(c['src'])
            continue
        if st in ('ok', 'err'):
            ctx.nontrivial(files)
            for (kind, _), site in zip(c['steps'], sites):
                ctx.seen('rewrites', '%s %s' % (c['source'], kind))
                if site:
                    ctx.seen('sites', '%s %s: %s' % (c['source'], kind, site))
            ctx.seen('sequence_lengths', len(c['steps']))
        judge_case(ctx, c, base, r, files, sites)


def check_case(ctx, case):
    run_batch(ctx, [case])


def random_steps(rng, kinds):
    steps = [[rng.choice(kinds), rng.randrange(1 << 30)] for _ in range(rng.choice([1, 2, 3, 3, 4, 4]))]
    # for generated programs the steps that only change the rendering (swap, ws) go last: they commute with the others, and
    # the step that first changes the result is then the one to blame
    steps.sort(key=lambda st: {'swap': 1, 'ws': 2}.get(st[0], 0) if 'rename' in kinds else 0)
    return steps


GEN_KINDS = ['ws', 'rename', 'swap', 'extract', 'debug', 'partial']
CORPUS_KINDS = ['ws', 'ws', 'widen', 'debug']


def worker(ctx):
    rng = ctx.rng
    entries = [e for i, e in enumerate(corpus.load()) if corpus_ok(e)]
    mine = [e for i, e in enumerate(entries) if i % ctx.nshards == ctx.shard]
    rng.shuffle(mine)
    ci = 0
    bad = set()                 # corpus inputs that do not compile as they are: visited once
    sampled = False
    while not ctx.expired():
        cases = []
        # generated programs: one program, several rewrite sequences
        for _ in range(12):
            prog = Gen(rng).program()
            for _ in range(4):
                cases.append({'source': 'gen', 'prog': prog, 'steps': random_steps(rng, GEN_KINDS)})
        if not sampled and ctx.shard == 0:
            c = cases[0]
            ctx.sample({'steps': c['steps'], 'original': render(c['prog'], {}), 'rewritten': files_of(c, c['steps'])[0]})
            sampled = True
        for _ in range(40):
            if not mine:
                break
            e = mine[ci % len(mine)]
            ci += 1
            if e['src'] in bad:
                continue
            cases.append({'source': 'corpus', 'file': e['file'], 'src': e['src'], 'steps': random_steps(rng, CORPUS_KINDS)})
        run_batch(ctx, cases, bad)
    ctx.stat('corpus_inputs_visited', min(ci, len(mine)))
    ctx.stat('corpus_inputs_that_compile', min(ci, len(mine)) - len(bad))
