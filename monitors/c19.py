"""C19 - nested selectors combine as Sass specifies (reference model of parent-selector resolution)."""
import random
import re

from .lib import css, selgen as sg, nestgen as ng

PROP = 'C19'
LEVEL = 'exploration'
BUDGET = {'quick': 30, 'thorough': 400}
FLOOR = {'quick': 1500, 'thorough': 20000}
RULE = ('generated nests of style rules, 2..4 levels, every rule with 1..3 complex selectors (type, universal, class, id, attribute, '
        'pseudo-class, selector pseudo-classes, pseudo-elements, all four combinators, in a fraction of the nests placeholders) and '
        '1..3 numbered declarations `pN: N` placed before, between and after its nested rules.  Selectors of nested rules take the '
        'forms: plain (implicit descendant), leading combinator, `&` alone, `&` + appended simple selectors, `&-suffix`, `&` as '
        'first / last / middle compound of a complex selector, several `&` in one complex selector, `&` inside the argument of '
        ':not/:is/:where/:matches/:has/:any (alone, with suffix, in a complex member).  Suffixes only on parents that end in a '
        'type / class / id / placeholder name; nothing is appended to a parent that ends in a pseudo-element.  Oracle: a model of '
        'the reference algorithm (per inner selector the results for every parent, lists interleaved = outer-major; a selector '
        'with `&` gets no implicit parent; `&` in a pseudo-class argument stands for the whole parent list); every declaration '
        'must occur exactly once, under a rule whose selector equals the model\'s (canonical comparison: compound as multiset, '
        '`*` elided, quoting and spacing ignored; order of complex selectors and compounds strict; complex selectors with a '
        'placeholder removed), and the declarations of one rule must keep their source order.  Distinct non-trivial = distinct nest '
        '(by text) of depth >= 2.')
LEVEL_TEXT = ('Reference-model monitor: the emitted selector of every generated rule is compared with an independent model of '
              'Sass parent-selector resolution; serial-numbered declarations tie every emitted block to its source rule.')
LEVEL_NOTE = ('Trusted: the model (written from the dart-sass algorithm), the canonical-form parser of monitors/lib/selgen.py, the CSS '
              'scanner.  Not asserted: where a parent\'s later declarations are emitted relative to nested rules (one or several '
              'copies of the parent rule are both accepted).')
TECHNIQUE = 'runtime monitoring: generated nested rules judged by a reference model of parent-selector resolution'

DEVS = [('suffix-canonical-last', 'amp-suffix-continues-canonically-last-simple-of-parent')]


# ------------------------------------------------------------------ generation

def gen_case(rng):
    g = ng.NG(rng, p_ph=0.12 if rng.random() < 0.2 else 0.0, p_dup=0.02)
    trees, serial = [], 1
    for _ in range(rng.choice([3, 4, 5])):
        t, serial = ng.gen_tree(g, serial)
        trees.append(t)
    return {'trees': trees, 'fmt': rng.randrange(1 << 30)}


def source(case):
    frng = random.Random(case['fmt'])
    return '\n'.join(ng.render_rule(t, frng) for t in case['trees']) + '\n'


# ------------------------------------------------------------------ reading the output

read_output = ng.read_output
unhidden_placeholder = ng.unhidden_placeholder


# ------------------------------------------------------------------ the oracle

def features(rule, parents):
    f = sorted(set(rule.get('forms', [])))
    return '%s|parents=%s' % ('+'.join(f), 'top' if parents is None else ('1' if len(parents) == 1 else 'n'))


def diff_class(exp, obs):
    if obs is None:
        return 'not-a-selector'
    if len(exp) != len(obs):
        return 'count'
    if sorted(map(repr, exp)) == sorted(map(repr, obs)):
        return 'order'
    return 'text'


def expectations(tree, dev=frozenset()):
    """[(path, rule, parents, resolved, visible text or None, canonical or None)] in source order"""
    out = []
    parents_of = {(): None}
    for path, rule, resolved in ng.walk(tree, None, dev):
        parents = parents_of.get(path[:-1]) if path else None
        parents_of[path] = resolved
        vis = ng.visible_list(resolved)
        text = ng.r_list(vis) if vis else None
        out.append((path, rule, parents, resolved, text, sg.canon(text) if text else None))
    # parents of a rule = resolved list of the enclosing rule
    fixed = []
    res_by_path = {e[0]: e[3] for e in out}
    for path, rule, _, resolved, text, c in out:
        fixed.append((path, rule, res_by_path[path[:-1]] if path else None, resolved, text, c))
    return fixed


DUP = 'amp-append-repeated-class-or-id-collapsed'


def explain(path, canon, oc, alt):
    """the smallest set of listed deviation switches under which the model prints what was observed -> signature or None"""
    if oc is None:
        return None
    cands = [((), canon)] + [((dsig,), alt[name].get(path)) for name, dsig in DEVS if alt[name] is not None]
    for names, exp in cands:
        if exp is not None and names and exp == oc:
            return '+'.join(names) + ':wrong-selector'
    for names, exp in cands:
        if exp is None:
            continue
        de = ng.dedupe_canon(exp)
        if de != exp and de == ng.dedupe_canon(oc):
            return '+'.join((DUP,) + names) + ':wrong-selector'
    return None


def judge_tree(tree, decls):
    """-> [(signature, detail)] for one top-level nest"""
    exps = expectations(tree)
    alt = {}
    for name, sig in DEVS:
        alt[name] = {}
        try:
            for path, rule, resolved in ng.walk(tree, None, frozenset([name])):
                vis = ng.visible_list(resolved)
                alt[name][path] = sg.canon(ng.r_list(vis)) if vis else None
        except ng.ModelError:
            pass                # the rules after the one this switch makes an error of are not predicted
    problems = []
    bad_paths = []
    for path, rule, parents, resolved, text, canon in exps:
        serials = [it[1] for it in rule['items'] if it[0] == 'd']
        if any(path[:len(b)] == b for b in bad_paths):
            continue            # below a rule that is already wrong: the same deviation again
        feats = features(rule, parents)
        last_idx = -1
        for s in serials:
            got = decls.get(s, [])
            if canon is None:
                if got:
                    problems.append(('declaration-of-placeholder-only-rule-emitted:' + feats,
                                     {'rule': ng.r_list(rule['sel']), 'decl': s, 'under': got[0][2]}))
                    bad_paths.append(path)
                    break
                continue
            if not got:
                problems.append(('declaration-missing:' + feats, {'rule': ng.r_list(rule['sel']), 'decl': s, 'expected under': text}))
                bad_paths.append(path)
                break
            if len(got) > 1:
                problems.append(('declaration-emitted-twice:' + feats, {'rule': ng.r_list(rule['sel']), 'decl': s,
                                                                       'under': [g[2] for g in got]}))
                bad_paths.append(path)
                break
            idx, oc, raw = got[0]
            if oc != canon:
                sig = explain(path, canon, oc, alt)
                if sig is None:
                    sig = 'selector-mismatch:%s|%s' % (feats, diff_class(canon, oc))
                problems.append((sig, {'rule': ng.r_list(rule['sel']), 'parents': ng.r_list(parents) if parents else None,
                                       'expected': text, 'observed': raw, 'decl': s}))
                bad_paths.append(path)
                break
            if idx < last_idx:
                problems.append(('declaration-order:' + feats, {'rule': ng.r_list(rule['sel']), 'decl': s}))
                bad_paths.append(path)
                break
            last_idx = idx
    return problems


def tree_serials(tree):
    out = []
    for it in tree['items']:
        if it[0] == 'd':
            out.append(it[1])
        else:
            out += tree_serials(it[1])
    return out


def locate_error(ctx, tree, fmt):
    """the shallowest, first rule whose chain of ancestors alone makes the compilation fail -> (path, rule, parents) or None"""
    paths = [(p, r) for p, r, _ in ng.walk(tree)]
    jobs = [{'src': ng.render_rule(ng.chain_to(tree, p)) + '\n'} for p, _ in paths]
    res = ctx.batch(jobs)
    ctx.ran(len(jobs))
    bad = [(len(p), i) for i, ((p, _), r) in enumerate(zip(paths, res)) if r.get('status') in ('err', 'panic')]
    if not bad:
        return None
    _, i = min(bad)
    return paths[i][0]


def judge(ctx, case, r, record):
    """-> number of problems; reports them when record is set"""
    st = r.get('status')
    trees = case['trees']
    if st in ('timeout', 'crash', 'harness-error') or st not in ('ok', 'err', 'panic'):
        ctx.undecided('driver-' + str(st))
        return 0
    found = []
    if st in ('err', 'panic'):
        if len(trees) > 1:
            found.append(('whole', None, None))
        else:
            tree = trees[0]
            path = locate_error(ctx, tree, case['fmt'])
            msg = (r.get('err') or r.get('panic') or '').split('\n')[0][:80]
            sig = None
            if path is not None:
                exps = {e[0]: e for e in expectations(tree)}
                _, rule, parents, _, _, _ = exps[path]
                feats = features(rule, parents)
                # deviation switches that predict an error exactly here
                for name, dsig in DEVS:
                    try:
                        list(ng.walk(ng.chain_to(tree, path), None, frozenset([name])))
                    except ng.ModelError:
                        try:
                            list(ng.walk(ng.chain_to(tree, path[:-1]), None, frozenset([name])))
                            sig = dsig + ':error'
                        except ng.ModelError:
                            pass
                if sig is None:
                    sig = 'unexpected-%s:%s' % ('error' if st == 'err' else 'panic', feats)
                detail = {'rule': ng.r_list(rule['sel']), 'parents': ng.r_list(parents) if parents else None, 'message': msg,
                          'chain': ng.render_rule(ng.chain_to(tree, path))}
            else:
                sig, detail = 'unexpected-%s:unlocalized' % ('error' if st == 'err' else 'panic'), {'message': msg}
            found.append((sig, detail, 0))
    else:
        out = r.get('out', '')
        decls, problems = read_output(out)
        for sig, d in problems:
            found.append((sig, {'output': d}, None))
        for nd_raw in set(g[2] for gs in decls.values() for g in gs):
            if unhidden_placeholder(nd_raw):
                found.append(('placeholder-in-output', {'selector': nd_raw}, None))
        for k, t in enumerate(trees):
            for sig, d in judge_tree(t, decls):
                found.append((sig, d, k))
    if not found:
        return 0
    if not record:
        return len(found)
    if len(trees) == 1:
        for sig, d, _ in found:
            ctx.violation(sig, case, d)
        return len(found)
    # several nests in one stylesheet: re-judge the suspicious ones alone so that the stored case is small
    ks = sorted(set(k for _, _, k in found if k is not None)) or list(range(len(trees)))
    if any(k is None for _, _, k in found):
        ks = list(range(len(trees)))
    reproduced = 0
    for k in ks:
        reproduced += check_case(ctx, {'trees': [trees[k]], 'fmt': case['fmt']})
    if not reproduced:
        for sig, d, _ in found:
            if sig != 'whole':
                ctx.violation(sig + '|only-in-context', case, d)
            else:
                ctx.violation('unexpected-error:only-in-context', case, {'message': (r.get('err') or '')[:200]})
    return len(found)


def check_case(ctx, case):
    r = ctx.compile(src=source(case))
    ctx.ran(1)
    return judge(ctx, case, r, True)


# ------------------------------------------------------------------ worker

def note(ctx, case):
    for t in case['trees']:
        d = ng.depth_of(t)
        ctx.seen('depth', d)
        parents_of = {}
        for path, rule, resolved in ng.walk(t):
            parents = parents_of.get(path[:-1]) if path else None
            parents_of[path] = resolved
            ctx.seen('level', len(path) + 1)
            ctx.seen('list-size', len(rule['sel']))
            ctx.seen('resolved-size', min(len(resolved), 50) // 5 * 5)
            for f in rule.get('forms', []):
                ctx.seen('form', f)
            if parents is not None:
                info = ng.parent_info(parents)
                ctx.seen('parents', '1' if info['n'] == 1 else 'n')
                for cx in rule['sel']:
                    if cx[0]:
                        ctx.seen('leading-combinator', cx[0])
                    for comp in ng.compounds(cx):
                        for s in comp:
                            if s[0] == 'amp' and s[1]:
                                ctx.seen('suffix', s[1])
                                ctx.seen('suffix-on', sorted(set(p[-1][-1][0] for p in parents))[0])
                                if info['suffix_reordered']:
                                    ctx.seen('flag', 'suffix-on-parent-not-in-canonical-order')
                            if s[0] == 'ps' and ng.simple_has_amp(s):
                                ctx.seen('amp-in', ':' + s[1])
                    if ng.count_amp(cx) > 1 and info['n'] > 1:
                        ctx.seen('flag', 'several-&-with-several-parents')
                if any(c in (p[2::2]) for p in parents for c in ('>', '+', '~')):
                    ctx.seen('flag', 'parent-with-combinator')
                if info['has_ph']:
                    ctx.seen('flag', 'placeholder-in-parent')
                if info['last_pe']:
                    ctx.seen('flag', 'parent-ends-in-pseudo-element')
            ndecl = [it[0] for it in rule['items']]
            if 'r' in ndecl and 'd' in ndecl[ndecl.index('r'):]:
                ctx.seen('flag', 'declaration-after-nested-rule')
        ctx.nontrivial(ng.render_rule(t))


def worker(ctx):
    n = 0
    while not ctx.expired():
        cases = [gen_case(ctx.rng) for _ in range(12)]
        res = ctx.batch([{'src': source(c)} for c in cases])
        ctx.ran(len(cases))
        for c, r in zip(cases, res):
            note(ctx, c)
            judge(ctx, c, r, True)
            if r.get('status') == 'ok':
                ctx.stat('stylesheets-ok')
                if n < 2 and ctx.shard == 0:
                    ctx.sample({'src': source(c), 'out': r.get('out', '')[:1500]})
                    n += 1
            else:
                ctx.stat('stylesheets-' + str(r.get('status')))
