"""C06 - unique-id() is unique across threads and a CSS identifier; random() stays in range (history monitor + sanitizer lanes)."""
import re
from . import sanitizers

PROP = 'C06'
LEVEL = 'exploration'
BUDGET = {'quick': 25, 'thorough': 300}
FLOOR = {'quick': 50000, 'thorough': 1000000}
WORKERS = 6          # every worker drives processes with up to 16 compiling threads
RULE = ('histories of concurrent compilations inside one process: T in 2..16 threads behind a start barrier, each compiling 4..20 '
        'stylesheets that call unique-id() 25..250 times (string.unique-id and the global name, in declarations and interpolated into '
        'class selectors), with the yield-point hook perturbing the schedule with probability 0..50 % at the counter; 60 % of the histories are '
        'cold starts: a fresh process whose first compilations call unique-id() on 8..16 threads at once.  All identifiers '
        'returned in one process (all histories of that process, until it is restarted) are collected.  random(): 300 draws per limit for '
        'limits 1, 2, 3, 10, 2^31-1, 2^31, 2^31+1, 2^53-1 and random limits, and random() without a limit, in single- and multi-threaded '
        'histories.  Distinct non-trivial cases = distinct identifiers returned by calls that ran while at least one other thread was '
        'compiling, plus distinct (limit, value) draws.  Oracle: identifiers pairwise distinct per process; each matches the CSS <ident> '
        'grammar and a rule `.<id>{x:y}` compiles to the same selector; random() in [0, 1) (also checked inside Sass); random(n) is an '
        'integer in [1, n]; for n <= 3 both ends are observed within 300 draws.')
LEVEL_TEXT = ('Safety monitor over recorded histories: every identifier handed out by a process is logged at the client boundary and the '
              'log is checked for duplicates; the thorough tier adds the race detectors (Miri many-seeds and ThreadSanitizer) on the '
              'self-checking concurrent workload harness/src/conc.rs.')
LEVEL_NOTE = ('Trusted: the history runner of the driver (start barrier, per-thread result lists).  Schedules are the ones the OS produces plus '
              'yield injection; the evidence reports how many distinct interleavings of the counter were seen.')
TECHNIQUE = 'runtime monitoring: duplicate detection over all identifiers of a process under perturbed multi-threaded schedules; Miri and ThreadSanitizer lanes in the thorough tier'

IDENT = re.compile(r'^-?(?:[A-Za-z_]|[^\x00-\x7f])(?:[A-Za-z0-9_-]|[^\x00-\x7f])*$|^--(?:[A-Za-z0-9_-]|[^\x00-\x7f])*$')
ID_DECL = re.compile(r'i\d*:\s*([^;}\s]+)')
ID_SEL = re.compile(r'\.s-([^\s{,]+)\s*\{')
LIMITS = [1, 2, 3, 10, 2 ** 31 - 1, 2 ** 31, 2 ** 31 + 1, 2 ** 53 - 1]


def id_sheet(rng, n):
    k = rng.random()
    if k < 0.5:
        return '@use "sass:string"; a { @for $k from 1 through %d { i: string.unique-id(); } }' % n
    if k < 0.75:
        return 'a { @for $k from 1 through %d { i: unique-id(); } }' % n
    return '@use "sass:string"; @for $k from 1 through %d { .s-#{string.unique-id()} { x: y; } }' % n


def ids_of(out):
    return ID_DECL.findall(out) + ID_SEL.findall(out)


def random_sheet(rng):
    lims = LIMITS + [rng.randint(1, 2 ** 53 - 1), rng.randint(1, 1000), rng.randint(1, 6)]
    parts = ['@use "sass:math";']
    for j, n in enumerate(lims):
        parts.append('l%d { n: %d; @for $k from 1 through 300 { r: math.random(%d); } }' % (j, n, n))
    parts.append('u { @for $k from 1 through 300 { $r: math.random(); r: $r; ok: $r >= 0 and $r < 1; } }')
    parts.append('g { @for $k from 1 through 50 { r: random(3); } }')
    return '\n'.join(parts), lims


def check_random(ctx, out, lims, case):
    blocks = dict((m.group(1), m.group(2)) for m in re.finditer(r'(\w+)\s*\{([^}]*)\}', out))
    for j, n in enumerate(lims):
        body = blocks.get('l%d' % j)
        if body is None:
            ctx.undecided('random-block-missing')
            continue
        vals = re.findall(r'r:\s*([^;]+);', body)
        seen = set()
        for v in vals:
            ctx.ran()
            if not re.fullmatch(r'\d+', v):
                ctx.violation('random-limit|not-a-plain-integer', case, {'limit': n, 'value': v})
                return
            x = int(v)
            if not 1 <= x <= n:
                ctx.violation('random-limit|out-of-range|%s' % ('below-1' if x < 1 else 'above-limit'), case, {'limit': n, 'value': v})
                return
            seen.add(x)
            ctx.nontrivial(('r', n, x))
        if n <= 3 and len(vals) >= 300 and seen != set(range(1, n + 1)):
            ctx.violation('random-limit|end-of-range-never-drawn|limit=%d' % n, case, {'limit': n, 'seen': sorted(seen)})
            return
        ctx.seen('limits', n if n < 10 ** 4 else 'big')
    body = blocks.get('u', '')
    for v, ok in zip(re.findall(r'\br:\s*([^;]+);', body), re.findall(r'ok:\s*([^;]+);', body)):
        ctx.ran()
        try:
            x = float(v)
        except ValueError:
            ctx.violation('random|not-a-number', case, {'value': v})
            return
        if not 0 <= x < 1 or ok != 'true':
            ctx.violation('random|outside-unit-interval', case, {'value': v, 'sass_says_in_range': ok})
            return
        ctx.nontrivial(('u', v))


def check_case(ctx, case):
    if case.get('cold'):
        # the race window only exists in a fresh process: replay the cold start a number of times
        from .lib.driver import Driver
        saved = ctx.driver
        for _ in range(300):
            ctx.driver = Driver(ctx.driver_bin)
            try:
                run_history(ctx, case, {})
            finally:
                ctx.driver.close()
            if ctx.violations:
                break
        ctx.driver = saved
        return
    run_history(ctx, case, {})


def run_history(ctx, case, state):
    threads = case['threads']
    r = ctx.driver.call({'op': 'history', 'threads': [[{'src': s, 'precision': 20, 'style': st} for s, st in t] for t in threads],
                         'yield_p': case['yield_p'], 'seed': case['seed']}, timeout=120)
    if r.get('status') != 'ok':
        ctx.undecided('history-' + str(r.get('status')))
        state.clear()
        return
    if state.get('restarts') != ctx.driver.restarts:
        state.clear()
        state['restarts'] = ctx.driver.restarts
        state['ids'] = {}
    allids = state['ids']
    order = []
    for ti, (jobs, results) in enumerate(zip(threads, r['threads'])):
        if not isinstance(results, list):
            ctx.undecided('thread-result-missing')
            continue
        for (src, st), res in zip(jobs, results):
            if res.get('status') != 'ok':
                if res.get('status') == 'panic':
                    ctx.violation('panic-in-concurrent-compilation', case, {'panic': res.get('panic_msg'), 'loc': res.get('panic_loc')})
                else:
                    ctx.undecided('job-' + str(res.get('status')), (res.get('err') or '')[:100])
                continue
            out = res.get('out', '')
            if 'random' in src:
                check_random(ctx, out, case['lims'], case)
                continue
            for ident in ids_of(out):
                ctx.ran()
                if ident in allids:
                    ctx.violation('unique-id|duplicate|%s' % ('same-thread' if allids[ident] == (case['n'], ti) else
                                                            'across-threads' if allids[ident][0] == case['n'] else 'across-histories'),
                                  case, {'id': ident, 'first': allids[ident], 'again': (case['n'], ti), 'threads': len(threads)})
                    return
                allids[ident] = (case['n'], ti)
                if not IDENT.match(ident):
                    ctx.violation('unique-id|not-a-css-identifier', case, {'id': ident})
                    return
                if len(threads) > 1:
                    ctx.nontrivial(ident)
                order.append((ident, ti))
    # how interleaved was the counter?  (ids are handed out in increasing order of the counter)
    try:
        order.sort(key=lambda p: int(re.sub(r'^[^0-9a-fA-F]*', '', p[0]), 16))
        switches = sum(1 for a, b in zip(order, order[1:]) if a[1] != b[1])
        ctx.stat('thread_switches_in_id_order', switches)
        ctx.seen('interleavings', hash(tuple(t for _, t in order[:400])) & 0xffffffffffff)
    except ValueError:
        pass
    ctx.seen('threads', len(threads))
    # a sample of identifiers is used as a class name in SCSS and in plain CSS
    for ident, _ in order[:3]:
        for syn in ('scss', 'css'):
            rr = ctx.compile(src='.%s{x:y}' % ident, syntax=syn, style='compressed')
            if rr.get('status') != 'ok' or not rr.get('out', '').startswith('.%s{' % ident):
                ctx.violation('unique-id|not-usable-as-class-name|%s' % syn, case, {'id': ident, 'result': rr.get('out') or rr.get('err')})
                return


def cold_start(ctx, n):
    """A history in a FRESH process whose very first compilations call unique-id() on 16 threads at once (the counter's
    initialisation races with its first uses only there)."""
    from .lib.driver import Driver
    r = ctx.rng
    T = r.choice([8, 16, 16])
    threads = [[(id_sheet(r, r.choice([2, 8, 25])), 'compressed') for _ in range(r.choice([1, 1, 3]))] for _ in range(T)]
    case = {'n': n, 'threads': threads, 'yield_p': r.choice([0, 0, 6553, 32768]), 'seed': r.getrandbits(32), 'lims': None, 'cold': True}
    saved = ctx.driver
    ctx.driver = Driver(ctx.driver_bin)
    try:
        run_history(ctx, case, {})
    finally:
        ctx.driver.close()
        ctx.driver = saved
    ctx.stat('cold_start_histories')


def worker(ctx):
    state = {}
    n = 0
    first = True
    while not ctx.expired():
        r = ctx.rng
        n += 1
        if r.random() < 0.6:
            cold_start(ctx, n)
            continue
        T = r.choice([2, 3, 4, 8, 8, 16, 16])
        threads = []
        for t in range(T):
            jobs = [(id_sheet(r, r.choice([25, 100, 250])), r.choice(['expanded', 'compressed'])) for _ in range(r.choice([4, 8, 20]))]
            threads.append(jobs)
        lims = None
        if r.random() < 0.5:
            src, lims = random_sheet(r)
            for t in threads[:r.choice([1, T])]:
                t.insert(r.randrange(len(t) + 1), (src, 'expanded'))
        case = {'n': n, 'threads': threads, 'yield_p': r.choice([0, 0, 655, 6553, 32768]), 'seed': r.getrandbits(32), 'lims': lims}
        if first:
            ctx.sample({'threads': len(threads), 'jobs_per_thread': [len(t) for t in threads], 'first_job': threads[0][0][0], 'yield_p': case['yield_p']})
            first = False
        run_history(ctx, case, state)
        ctx.stat('histories')


def finish(merged, tier, seed):
    if tier != 'thorough':
        return {'sanitizer_lanes': 'thorough tier only'}
    return sanitizers.run_lanes(merged, PROP)
