"""C16 - variable assignment follows Sass scoping (reference interpreter with named deviation switches).

A case is a small SCSS program over the variables $x $y $z: assignments (plain, `!default`, `!global`), reads, and the
containers style rule, @media, @if/@else, @each, @for, @while, mixin body (@include), content block (@include ... { })
and function body.  Every read is observable:

* `@include p(<id>, $v)` - the argument is evaluated in the caller's scope; the probe mixin emits
  `.p<seq>-<id>{v: <value>}` where <seq> is a global execution counter (so the order of execution is observed, not the
  order of the CSS);
* `r<id>: meta.inspect($v)` - a plain declaration (only lexically inside a style rule);
* `$u: t(<id>, $v)` in function bodies - appends `(<seq> <id> <value>)` to a global trace list with `!global`, printed
  by the last statement of the program.

A Python interpreter written from the property statement (dart-sass semantics: an Environment is a chain of scopes;
rules, @media, mixin/function/content bodies are scopes, flow-control bodies are "semi-global" scopes) predicts the
whole trace or "undefined variable".  Because the tree under test deviates from the statement in several known ways,
the interpreter has named DEVIATION switches (each reproduces one documented defect of rsass; all off = the reference).
A case whose observation equals the reference holds.  Otherwise the smallest set of deviation switches that reproduces
the observation is searched - first among the switches that known/C16.json lists, then among all - and every switch of
that set is reported as `deviation|<switch>` (a known finding when listed; the combinations that occur are too many
to list one by one).  An observation that no combination of switches reproduces is reported with an `unexplained|...`
signature - that is how a *new* break of scoping is noticed although the unmodified tree already has scoping defects.
The reference semantics were cross-checked against the dart-sass expectations of sass-spec
(libsass/variable-scoping/*, variables/semi_global, non_conformant/scope/*).
"""
import itertools
import re

PROP = 'C16'
LEVEL = 'exploration'
BUDGET = {'quick': 30, 'thorough': 400}
FLOOR = {'quick': 6000, 'thorough': 150000}
EXHAUSTIVE = {'quick': True, 'thorough': True}
RULE = ('(1) bounded-exhaustive part: every program of n statements (statement = `$x|$y: <fresh literal>` plain / !default / '
        '!global, a read of $x or $y, or a non-empty container) between the prologue `$x: 0;` ($y is not declared) and '
        'the epilogue read of $x: quick n <= 3 over all nine container kinds (rule, @media, @if, @each, @for, @while, mixin '
        'body, content block, function body; nestings that Sass forbids are skipped) plus n = 4 over the three kinds of '
        'the seed-selected block of the 12-block design that covers every pair of kinds; thorough n <= 4 over all kinds '
        'plus n = 5 over the seed-selected block.  (2) random programs, nesting depth <= 4, over $x $y $z with prologue '
        'declarations of a random subset, 1..4 statements per block, loop variables and parameters that may shadow '
        'program variables, @if/@else with conditions reading variables, mixins with parameters and @content (also '
        'inside rules and flow control of the mixin), functions with early @return inside loops, assignments whose value '
        'reads a variable or calls a function, reads as probe mixin / declaration / function trace.  Distinct by source '
        'text.  Non-trivial = in the reference run some assignment executes while the variable is already declared in a '
        'strictly enclosing scope (or is a !global written from a nested scope).  Oracle: the reference interpreter '
        'predicts the full execution-ordered trace of (read id, value) pairs, the values of the declarations, or "must be '
        'an undefined-variable error"; at most ~15% of the random programs are expected errors.')
LEVEL_TEXT = ('Reference-model monitor over generated programs, exhaustive for the smallest ones: every value read anywhere '
              'in the program is predicted by an independent interpreter of the scoping rules and compared with what the '
              'compiled program emits; known defects are recognised only through explicitly listed deviation switches of the '
              'interpreter, every other disagreement is a violation.')
LEVEL_NOTE = ('Trusted: the interpreter in this file (scope chain, semi-global flow-control scopes, !default/!global, closures of '
              'mixins/functions/content blocks), the probe mixin / trace function (they rely on `!global` writes from a '
              'callable and on integer addition) and the regular expressions that read the probes back.')
TECHNIQUE = 'runtime monitoring: generated programs judged by a reference interpreter with named deviation switches on the emitted read trace'
ASSUMPTIONS = ['one scope per @each/@for/@while loop (not per iteration), as in dart-sass and as sass-spec libsass/variable-scoping/root-scope expects',
               'mixins and functions are declared at the top level only; `!default !global` together is not generated',
               'a compile error that is not an undefined-variable error, where the model expects an undefined-variable error, is undecided']

# ------------------------------------------------------------------ switches
DEVIATIONS = {
    'assignment-always-writes-current-scope':
        'an assignment without !global (plain or !default) inserts the variable into the scope object it executes in; it '
        'never updates a declaration in an enclosing local scope and never reaches the global from top-level flow '
        'control that has its own scope object (@for, @while)',
    'if-body-is-not-a-scope':
        '@if/@else bodies execute in the enclosing scope object: variables first declared in them survive the block',
    'each-body-is-not-a-scope':
        'outside functions an @each body executes in the enclosing scope object; the loop variables are written into it '
        'and put back to their previous own value (or removed) after the loop, everything else the body declares survives',
    'each-in-function-is-not-a-scope':
        'in a function body an @each body executes in the function scope object and the loop variables stay defined '
        'after the loop',
    'for-in-function-is-not-a-scope':
        'in a function body a @for body executes in the function scope object and the loop variable stays defined '
        'after the loop',
    'for-body-is-fresh-scope-per-iteration':
        'outside functions every iteration of a @for runs in a new scope object, so a variable first declared in one '
        'iteration is not declared in the next (dart-sass keeps one scope for the whole loop: sass-spec '
        'libsass/variable-scoping/root-scope expects `$y: $y + 5` in a nested @for to accumulate)',
}
A, I, E, EF, FF, FI = ('assignment-always-writes-current-scope', 'if-body-is-not-a-scope', 'each-body-is-not-a-scope',
                       'each-in-function-is-not-a-scope', 'for-in-function-is-not-a-scope',
                       'for-body-is-fresh-scope-per-iteration')
assert set(DEVIATIONS) == {A, I, E, EF, FF, FI}

FUEL = 60
PRELUDE = ('@use "sass:meta";@use "sass:list";\n'
           '$seq: 0; $tr: (); $fuel: %d;\n'
           '@mixin p($n, $v) { $seq: $seq + 1 !global; .p#{$seq}-#{$n} { v: meta.inspect($v); } }\n'
           '@function t($n, $v) { $seq: $seq + 1 !global; $tr: list.append($tr, ($seq $n $v), comma) !global; @return 0; }\n'
           '@function a($v, $k) { @if $v == null { @return 50 + $k; } @return $v + $k; }\n'
           '@function fuel() { $fuel: $fuel - 1 !global; @return $fuel >= 0; }\n'
           '@mixin c0 { @content; }\n' % FUEL)
EPILOGUE = '.tr { v: meta.inspect($tr); }\n'


# ------------------------------------------------------------------ rendering (AST -> SCSS)
#  expr:  ['n', int] | ['null'] | ['v', name] | ['a', name, int] | ['call', fname, [expr...]]
#  cond:  ['t'] | ['f'] | ['eq', name, int] | ['nn', name]
#  stmt:  {'k': 'assign', 'v', 'e', 'f': ''|'d'|'g'}          {'k': 'read', 'v', 'id', 'how': 'p'|'d'|'t'}
#         {'k': 'rule'|'media', 'id', 'b'}                     {'k': 'if', 'c', 'b', 'e': [..]|None}
#         {'k': 'each', 'lv', 'items': [int..], 'b'}           {'k': 'for', 'lv', 'from', 'to', 'b'}
#         {'k': 'while', 'kv', 'n', 'b'}                       {'k': 'include', 'm', 'args', 'content': [..]|None}
#         {'k': 'content'}                                     {'k': 'return', 'e'}
#  program: {'pro': [stmt..], 'main': [stmt..], 'mixins': [[name, [params], body]..], 'funcs': [[name, [params], body]..]}

def r_expr(e):
    k = e[0]
    if k == 'n':
        return str(e[1])
    if k == 'null':
        return 'null'
    if k == 'v':
        return '$' + e[1]
    if k == 'a':
        return 'a($%s, %d)' % (e[1], e[2])
    return '%s(%s)' % (e[1], ', '.join(r_expr(x) for x in e[2]))


def r_cond(c):
    if c[0] == 't':
        return 'true'
    if c[0] == 'f':
        return 'false'
    if c[0] == 'eq':
        return '$%s == %d' % (c[1], c[2])
    return '$%s != null' % c[1]


def r_block(stmts, ind):
    return ''.join(r_stmt(s, ind) for s in stmts)


def r_stmt(s, ind):
    k = s['k']
    pad = '  ' * ind
    if k == 'assign':
        return '%s$%s: %s%s;\n' % (pad, s['v'], r_expr(s['e']), {'': '', 'd': ' !default', 'g': ' !global'}[s['f']])
    if k == 'read':
        if s['how'] == 'p':
            return '%s@include p(%d, $%s);\n' % (pad, s['id'], s['v'])
        if s['how'] == 'd':
            return '%sr%d: meta.inspect($%s);\n' % (pad, s['id'], s['v'])
        return '%s$u: t(%d, $%s);\n' % (pad, s['id'], s['v'])
    if k == 'rule':
        return '%s.s%d {\n%s%s}\n' % (pad, s['id'], r_block(s['b'], ind + 1), pad)
    if k == 'media':
        return '%s@media (min-width: %dpx) {\n%s%s}\n' % (pad, s['id'], r_block(s['b'], ind + 1), pad)
    if k == 'if':
        out = '%s@if %s {\n%s%s}' % (pad, r_cond(s['c']), r_block(s['b'], ind + 1), pad)
        if s.get('e') is not None:
            out += ' @else {\n%s%s}' % (r_block(s['e'], ind + 1), pad)
        return out + '\n'
    if k == 'each':
        return '%s@each $%s in %s {\n%s%s}\n' % (pad, s['lv'], ', '.join(map(str, s['items'])), r_block(s['b'], ind + 1), pad)
    if k == 'for':
        return '%s@for $%s from %d through %d {\n%s%s}\n' % (pad, s['lv'], s['from'], s['to'], r_block(s['b'], ind + 1), pad)
    if k == 'while':
        kv = s['kv']
        return ('%s$%s: 0;\n%s@while fuel() and $%s < %d {\n%s  $%s: $%s + 1;\n%s%s}\n'
                % (pad, kv, pad, kv, s['n'], pad, kv, kv, r_block(s['b'], ind + 1), pad))
    if k == 'include':
        args = '(%s)' % ', '.join(r_expr(x) for x in s['args']) if s['args'] else ''
        if s.get('content') is not None:
            return '%s@include %s%s {\n%s%s}\n' % (pad, s['m'], args, r_block(s['content'], ind + 1), pad)
        return '%s@include %s%s;\n' % (pad, s['m'], args)
    if k == 'content':
        return '%s@content;\n' % pad
    if k == 'return':
        return '%s@return %s;\n' % (pad, r_expr(s['e']))
    raise ValueError(k)


def render(prog):
    out = [PRELUDE]
    for name, params, body in prog['mixins']:
        out.append('@mixin %s%s {\n%s}\n' % (name, '(%s)' % ', '.join('$' + p for p in params) if params else '', r_block(body, 1)))
    for name, params, body in prog['funcs']:
        out.append('@function %s(%s) {\n%s}\n' % (name, ', '.join('$' + p for p in params), r_block(body, 1)))
    out.append(r_block(prog['pro'], 0))
    out.append(r_block(prog['main'], 0))
    out.append(EPILOGUE)
    return ''.join(out)


# ------------------------------------------------------------------ the interpreter
class Undefined(Exception):
    pass


class TooLong(Exception):
    pass


class Scope(object):
    __slots__ = ('vars', 'parent', 'flow')

    def __init__(self, parent, flow):
        self.vars = {}
        self.parent = parent
        self.flow = flow


_MISSING = object()


class Interp(object):
    """Executes a program under a set of switches.  run() -> ('ok', trace, decls) | ('err',) | ('toolong',)"""

    def __init__(self, prog, sw=()):
        self.prog = prog
        self.sw = frozenset(sw)
        self.mixins = {m[0]: m for m in prog['mixins']}
        self.mixins['c0'] = ['c0', [], [{'k': 'content'}]]
        self.funcs = {f[0]: f for f in prog['funcs']}
        self.trace = []
        self.decls = {}
        self.fuel = FUEL
        self.steps = 0
        self.root = Scope(None, False)
        self.nontrivial = False
        self.fuel_out = False

    def run(self):
        try:
            self.block(self.prog['pro'], self.root, False, None)
            self.block(self.prog['main'], self.root, False, None)
        except Undefined:
            return ('err',)
        except TooLong:
            return ('toolong',)
        return ('ok', tuple(self.trace), tuple(sorted((k, tuple(sorted(v, key=str))) for k, v in self.decls.items())))

    # -- variables
    def lookup(self, scope, name):
        s = scope
        while s is not None:
            if name in s.vars:
                return s.vars[name]
            s = s.parent
        return _MISSING

    def get(self, scope, name):
        v = self.lookup(scope, name)
        if v is _MISSING:
            raise Undefined(name)
        return v

    def assign(self, scope, name, value, flag):
        if flag == 'd':
            cur = self.lookup(scope, name)
            if cur is not _MISSING and cur is not None:
                return
        if scope is not self.root:
            s = scope.parent
            if flag == 'g':
                self.nontrivial = True
            while s is not None and not self.nontrivial:
                if name in s.vars:
                    self.nontrivial = True
                s = s.parent
        if flag == 'g':
            self.root.vars[name] = value
            return
        if A in self.sw:
            scope.vars[name] = value
            return
        # innermost enclosing *local* scope that declares it
        s = scope
        semi = True
        while s.parent is not None:
            if name in s.vars:
                s.vars[name] = value
                return
            semi = semi and s.flow
            s = s.parent
        # s is the global scope
        if scope is s or (name in s.vars and semi):
            s.vars[name] = value
        else:
            scope.vars[name] = value

    # -- expressions
    def expr(self, e, scope):
        k = e[0]
        if k == 'n':
            return e[1]
        if k == 'null':
            return None
        if k == 'v':
            return self.get(scope, e[1])
        if k == 'a':
            v = self.get(scope, e[1])
            return 50 + e[2] if v is None else v + e[2]
        return self.call(e[1], [self.expr(x, scope) for x in e[2]])

    def cond(self, c, scope):
        if c[0] == 't':
            return True
        if c[0] == 'f':
            return False
        v = self.get(scope, c[1])
        if c[0] == 'eq':
            return v == c[2]
        return v is not None

    def call(self, fname, args):
        _, params, body = self.funcs[fname]
        fs = Scope(self.root, False)
        for p, v in zip(params, args):
            fs.vars[p] = v
        r = self.block(body, fs, True, None)
        return r[1] if r is not None else None

    # -- statements; returns None or ('ret', value)
    def block(self, stmts, scope, infn, content):
        for s in stmts:
            self.steps += 1
            if self.steps > 4000:
                raise TooLong()
            r = self.stmt(s, scope, infn, content)
            if r is not None:
                return r
        return None

    def stmt(self, s, scope, infn, content):
        k = s['k']
        sw = self.sw
        if k == 'assign':
            f = s['f']
            if f == 'd':
                cur = self.lookup(scope, s['v'])
                if cur is not _MISSING and cur is not None:
                    return None            # the value of a skipped !default is a literal: nothing to evaluate
            self.assign(scope, s['v'], self.expr(s['e'], scope), f)
        elif k == 'read':
            v = self.get(scope, s['v'])
            if s['how'] == 'd':
                self.decls.setdefault(s['id'], []).append(v)
            else:
                self.trace.append((s['id'], v))
        elif k == 'rule' or k == 'media':
            return self.block(s['b'], Scope(scope, False), infn, content)
        elif k == 'if':
            body = s['b'] if self.cond(s['c'], scope) else s.get('e')
            if body:
                return self.block(body, scope if I in sw else Scope(scope, True), infn, content)
        elif k == 'each' or k == 'for':
            lv = s['lv']
            values = s['items'] if k == 'each' else list(range(s['from'], s['to'] + 1))
            noscope = (EF if k == 'each' else FF) in sw if infn else (k == 'each' and E in sw)
            if noscope:
                saved = scope.vars.get(lv, _MISSING)
                for v in values:
                    scope.vars[lv] = v
                    r = self.block(s['b'], scope, infn, content)
                    if r is not None:
                        return r
                if not infn:
                    if saved is _MISSING:
                        scope.vars.pop(lv, None)
                    else:
                        scope.vars[lv] = saved
            else:
                ls = Scope(scope, True)
                for v in values:
                    if k == 'for' and FI in sw:
                        ls = Scope(scope, True)
                    ls.vars[lv] = v
                    r = self.block(s['b'], ls, infn, content)
                    if r is not None:
                        return r
        elif k == 'while':
            kv = s['kv']
            self.assign(scope, kv, 0, '')
            ls = Scope(scope, True)
            while True:
                self.steps += 1
                if self.steps > 4000:
                    raise TooLong()
                self.fuel -= 1
                if self.fuel < 0:
                    self.fuel_out = True
                    break
                if not self.get(ls, kv) < s['n']:
                    break
                self.assign(ls, kv, self.get(ls, kv) + 1, '')
                r = self.block(s['b'], ls, infn, content)
                if r is not None:
                    return r
        elif k == 'include':
            _, params, body = self.mixins[s['m']]
            args = [self.expr(x, scope) for x in s['args']]
            ms = Scope(self.root, False)
            for p, v in zip(params, args):
                ms.vars[p] = v
            blk = s.get('content')
            self.block(body, ms, False, (blk, scope, content) if blk is not None else None)
        elif k == 'content':
            if content is not None:
                blk, cscope, outer = content
                self.block(blk, Scope(cscope, False), False, outer)
        elif k == 'return':
            return ('ret', self.expr(s['e'], scope))
        else:
            raise ValueError(k)
        return None


def predict(prog, sw=()):
    it = Interp(prog, sw)
    return it.run(), it


# ------------------------------------------------------------------ reading the compiled program back
P_RE = re.compile(r'\.p(\d+)-(\d+)\s*\{\s*v:\s*(null|\d+);?\s*\}')
T_RE = re.compile(r'\.tr\s*\{\s*v:\s*([^}]*)\}')
TRI_RE = re.compile(r'(\d+) (\d+) (null|\d+)')
D_RE = re.compile(r'\br(\d+):\s*(null|\d+)')


def val(t):
    return None if t == 'null' else int(t)


def observe(r):
    """compile result -> ('ok', trace, decls) | ('err',) | ('err-other', text) | ('garbled', why) | None (inconclusive)"""
    st = r.get('status')
    if st == 'err':
        msg = r.get('err', '')
        if 'Undefined variable' in msg:
            return ('err',)
        return ('err-other', msg[:200])
    if st != 'ok':
        return None
    out = r.get('out', '')
    ev = [(int(a), int(b), val(c)) for a, b, c in P_RE.findall(out)]
    m = T_RE.search(out)
    if m:
        ev += [(int(a), int(b), val(c)) for a, b, c in TRI_RE.findall(m.group(1))]
    ev.sort(key=lambda e: e[0])
    if [e[0] for e in ev] != list(range(1, len(ev) + 1)):
        return ('garbled', 'sequence numbers %s' % [e[0] for e in ev][:20])
    decls = {}
    for a, b in D_RE.findall(out):
        decls.setdefault(int(a), []).append(val(b))
    return ('ok', tuple((e[1], e[2]) for e in ev), tuple(sorted((k, tuple(sorted(v, key=str))) for k, v in decls.items())))


# ------------------------------------------------------------------ static facts about a program
def walk(stmts, infn, path, visit):
    for s in stmts:
        visit(s, infn, path)
        k = s['k']
        if k in ('rule', 'media', 'each', 'for', 'while'):
            walk(s['b'], infn, path + (k,), visit)
        elif k == 'if':
            walk(s['b'], infn, path + (k,), visit)
            if s.get('e'):
                walk(s['e'], infn, path + ('else',), visit)
        elif k == 'include' and s.get('content') is not None:
            walk(s['content'], infn, path + ('content',), visit)


def walk_prog(prog, visit):
    walk(prog['pro'], False, (), visit)
    walk(prog['main'], False, (), visit)
    for name, params, body in prog['mixins']:
        walk(body, False, ('mixin',), visit)
    for name, params, body in prog['funcs']:
        walk(body, True, ('function',), visit)


def facts(prog):
    """-> (deviation switches the program can exercise, read id -> lexical path, set of nestings, set of kinds)"""
    devs, where, nest, kinds = {A}, {}, set(), set()

    def visit(s, infn, path):
        k = s['k']
        kinds.add(k if k != 'assign' else 'assign' + {'': '', 'd': '!default', 'g': '!global'}[s['f']])
        if path:
            nest.add('%s>%s' % (path[-1], k))
        if k == 'if':
            devs.add(I)
        elif k == 'each':
            devs.add(EF if infn else E)
        elif k == 'for':
            devs.add(FF if infn else FI)
        elif k == 'read':
            where[s['id']] = path
        elif k == 'include':
            kinds.add('include-with-content' if s.get('content') is not None else 'include-plain')
            if s['m'] != 'c0' and path:
                nest.add('%s>mixin' % path[-1])
        if k == 'assign' and s['e'][0] == 'call':
            kinds.add('function-call')
            if path:
                nest.add('%s>function' % path[-1])
    walk_prog(prog, visit)
    return devs, where, nest, kinds


def subsets(items):
    items = sorted(items)
    for n in range(len(items) + 1):
        for c in itertools.combinations(items, n):
            yield c


_LISTED = None


def listed_switches():
    """Deviation switches that the known-findings files list for this property (read once; the files are read-only)."""
    global _LISTED
    if _LISTED is None:
        from .lib import runner
        _LISTED = set()
        for sig in runner.load_known(PROP):
            if sig.startswith('deviation|'):
                _LISTED.update(x for x in sig[len('deviation|'):].split('+') if x in DEVIATIONS)
    return _LISTED


def explain(prog, obs, devs):
    """Smallest set of deviation switches (ties: alphabetical) that reproduces obs: first among the *listed* switches
    only, so that a case which listed defects explain is never attributed to an unlisted one; then among all."""
    listed = listed_switches() & devs
    for pool in (listed, devs):
        if pool is devs and listed == devs:
            break
        for d in subsets(pool):
            if d and predict(prog, d)[0] == obs:
                return d
    return None


def short_path(path):
    out = []
    for p in path:
        if not out or out[-1] != p:
            out.append(p)
    return out[-1] if out else 'top-level'


def unexplained_sig(ref, obs, where):
    """Signature of a disagreement that no switch combination reproduces: computed from the oracle's side only."""
    cls = {'ok': 'values', 'err': 'undefined-variable-error', 'err-other': 'other-error', 'garbled': 'garbled-trace'}
    if ref[0] != 'ok' or obs[0] != 'ok':
        return 'unexplained|expected=%s|observed=%s' % (cls[ref[0]], cls[obs[0]])
    rt, ot = ref[1], obs[1]
    for i in range(max(len(rt), len(ot))):
        a = rt[i] if i < len(rt) else None
        b = ot[i] if i < len(ot) else None
        if a != b:
            rid = (a or b)[0]
            what = 'missing-read' if b is None else 'extra-read' if a is None else 'other-read' if a[0] != b[0] else \
                'null-for-value' if b[1] is None else 'value-for-null' if a[1] is None else 'other-value'
            return 'unexplained|expected=values|observed=%s|first-difference-in=%s' % (what, short_path(where.get(rid, ())))
    return 'unexplained|expected=values|observed=other-declaration-values'


# ------------------------------------------------------------------ judging
def judge(ctx, prog, r, origin):
    src = None
    obs = observe(r)
    ctx.ran()
    if obs is None:
        ctx.undecided('harness-' + str(r.get('status')))
        return
    (ref, it) = predict(prog)
    if ref[0] == 'toolong' or it.fuel_out:
        ctx.stat('skipped-reference-does-not-terminate-in-budget')
        return
    devs, where, nest, kinds = facts(prog)
    src = render(prog)
    if it.nontrivial:
        ctx.nontrivial(src)
        ctx.stat('nontrivial-' + origin)
    for k in kinds:
        ctx.seen('statement-kinds', k)
    for n in nest:
        ctx.seen('nestings', n)
    ctx.seen('outcomes', 'expected=%s observed=%s' % (ref[0], obs[0]))
    if obs == ref:
        ctx.stat('held-as-reference')
        return
    if ref[0] == 'err' and obs[0] == 'err-other':
        ctx.undecided('expected-undefined-variable-error-got-another-error', obs[1])
        return
    d = explain(prog, obs, devs)
    case = {'prog': prog, 'source': src}
    if d is None:
        ctx.violation(unexplained_sig(ref, obs, where), case,
                      {'expected': ref, 'observed': obs, 'note': 'no combination of the deviation switches reproduces this'})
        return
    ctx.seen('explained-by', '+'.join(d))
    ctx.stat('deviating-' + origin)
    for name in d:      # one signature per switch: the combinations that occur are too many to list (> 35)
        ctx.violation('deviation|' + name, case,
                      {'expected': ref, 'observed': obs, 'switches-that-reproduce-it': list(d)})


def check_case(ctx, case):
    prog = case['prog']
    r = ctx.compile(src=render(prog), style='compressed')
    judge(ctx, prog, r, 'replay')


def check_many(ctx, progs, origin):
    jobs = [{'src': render(p), 'style': 'compressed'} for p in progs]
    for p, r in zip(progs, ctx.batch(jobs)):
        judge(ctx, p, r, origin)


# ------------------------------------------------------------------ bounded-exhaustive programs
KINDS = ['rule', 'if', 'each', 'for', 'while', 'media', 'mixin', 'content', 'function']
# the 12 lines of the affine plane of order 3 over the nine kinds: every pair of kinds lies in exactly one block
BLOCKS = [(0, 1, 2), (3, 4, 5), (6, 7, 8), (0, 3, 6), (1, 4, 7), (2, 5, 8), (0, 4, 8), (1, 5, 6), (2, 3, 7), (0, 5, 7), (1, 3, 8), (2, 4, 6)]
LEAVES = [('assign', 'x', ''), ('assign', 'x', 'g'), ('assign', 'x', 'd'), ('assign', 'y', ''), ('assign', 'y', 'g'), ('assign', 'y', 'd'),
          ('read', 'x'), ('read', 'y')]
FLOW = ('if', 'each', 'for', 'while')


def forests(n, kinds, infn):
    """All sequences of statement trees with n nodes in total."""
    if n == 0:
        yield ()
        return
    for first in range(1, n + 1):
        for t in trees(first, kinds, infn):
            for rest in forests(n - first, kinds, infn):
                yield (t,) + rest


def trees(n, kinds, infn):
    if n == 1:
        for leaf in LEAVES:
            yield leaf
        return
    for k in kinds:
        if infn and k not in FLOW:
            continue
        for body in forests(n - 1, kinds, infn or k == 'function'):
            yield (k, body)


def build(forest):
    """Enumerated forest -> program."""
    prog = {'pro': [{'k': 'assign', 'v': 'x', 'e': ['n', 0], 'f': ''}], 'main': [], 'mixins': [], 'funcs': []}
    counter = [0]

    def conv(ts, infn):
        out = []
        for t in ts:
            counter[0] += 1
            n = counter[0]
            if t[0] == 'assign':
                out.append({'k': 'assign', 'v': t[1], 'e': ['n', n], 'f': t[2]})
            elif t[0] == 'read':
                out.append({'k': 'read', 'v': t[1], 'id': n, 'how': 't' if infn else 'p'})
            else:
                k, body = t
                if k in ('rule', 'media'):
                    out.append({'k': k, 'id': n, 'b': conv(body, infn)})
                elif k == 'if':
                    out.append({'k': 'if', 'c': ['t'], 'b': conv(body, infn), 'e': None})
                elif k == 'each':
                    out.append({'k': 'each', 'lv': 'i', 'items': [1, 2], 'b': conv(body, infn)})
                elif k == 'for':
                    out.append({'k': 'for', 'lv': 'i', 'from': 1, 'to': 2, 'b': conv(body, infn)})
                elif k == 'while':
                    out.append({'k': 'while', 'kv': 'k%d' % n, 'n': 2, 'b': conv(body, infn)})
                elif k == 'mixin':
                    prog['mixins'].append(['m%d' % n, [], conv(body, False)])
                    out.append({'k': 'include', 'm': 'm%d' % n, 'args': [], 'content': None})
                elif k == 'content':
                    out.append({'k': 'include', 'm': 'c0', 'args': [], 'content': conv(body, False)})
                else:
                    prog['funcs'].append(['f%d' % n, [], conv(body, True) + [{'k': 'return', 'e': ['n', 0]}]])
                    out.append({'k': 'assign', 'v': 'u', 'e': ['call', 'f%d' % n, []], 'f': ''})
        return out
    prog['main'] = conv(forest, False)
    prog['main'].append({'k': 'read', 'v': 'x', 'id': 99, 'how': 'p'})
    return prog


def exhaustive_space(quick, seed):
    """The enumerated programs of this run, as (n, kinds) parts."""
    blk = [KINDS[i] for i in BLOCKS[seed % len(BLOCKS)]]
    if quick:
        return [(1, KINDS), (2, KINDS), (3, KINDS), (4, blk)], blk
    return [(1, KINDS), (2, KINDS), (3, KINDS), (4, KINDS), (5, blk)], blk


# ------------------------------------------------------------------ random programs
VARS = ['x', 'y', 'z']


class Gen(object):
    def __init__(self, rng):
        self.rng = rng
        self.n = 0
        self.prog = {'pro': [], 'main': [], 'mixins': [], 'funcs': []}
        self.done_mixins = []      # (name, nparams, has_content)
        self.done_funcs = []       # (name, nparams)
        self.globals = set()

    def nid(self):
        self.n += 1
        return self.n

    def pick_var(self, vis):
        r = self.rng
        if vis and r.random() < 0.9:
            return r.choice(sorted(vis))
        return r.choice(VARS)

    def expr(self, vis, infn, allow_call=True):
        r = self.rng
        k = r.random()
        if k < 0.35:
            return ['n', self.nid()]
        if k < 0.72:
            return ['a', self.pick_var(vis), r.randint(1, 9)]
        if k < 0.82:
            return ['v', self.pick_var(vis)]
        if k < 0.87:
            return ['null']
        if allow_call and self.done_funcs and not infn:
            name, np_ = r.choice(self.done_funcs)
            return ['call', name, [self.expr(vis, infn, False) for _ in range(np_)]]
        return ['n', self.nid()]

    def cond(self, vis):
        r = self.rng
        k = r.random()
        if k < 0.45:
            return ['t']
        if k < 0.65:
            return ['f']
        if k < 0.85:
            return ['nn', self.pick_var(vis)]
        return ['eq', self.pick_var(vis), r.randint(0, 3)]

    def block(self, depth, vis, infn, decl_ok, inmixin, lo=1, hi=4):
        """vis: names believed visible (a heuristic that keeps most programs free of undefined reads)."""
        r = self.rng
        vis = set(vis)
        out = []
        for _ in range(r.randint(lo, hi)):
            k = r.random()
            if k < 0.3:
                v = r.choice(VARS)
                f = r.choice(['', '', '', '', 'g', 'g', 'd'])
                e = ['n', self.nid()] if f == 'd' else self.expr(vis, infn)
                out.append({'k': 'assign', 'v': v, 'e': e, 'f': f})
                vis.add(v)
                if f == 'g':
                    self.globals.add(v)
            elif k < 0.58:
                how = 't' if infn else ('d' if decl_ok and r.random() < 0.3 else 'p')
                out.append({'k': 'read', 'v': self.pick_var(vis), 'id': self.nid(), 'how': how})
            elif inmixin and inmixin[0] and k < 0.64:
                out.append({'k': 'content'})
            elif depth < 4:
                out.append(self.container(depth, vis, infn, decl_ok, inmixin))
            else:
                out.append({'k': 'read', 'v': self.pick_var(vis), 'id': self.nid(), 'how': 't' if infn else 'p'})
        return out

    def container(self, depth, vis, infn, decl_ok, inmixin):
        r = self.rng
        kinds = ['if', 'if', 'each', 'for', 'while'] if infn else \
            ['rule', 'rule', 'media', 'if', 'if', 'each', 'for', 'while', 'include', 'include', 'call']
        k = r.choice(kinds)
        d = depth + 1
        if k in ('rule', 'media'):
            return {'k': k, 'id': self.nid(), 'b': self.block(d, vis, infn, decl_ok or k == 'rule', inmixin)}
        if k == 'if':
            c = self.cond(vis)
            has_else = c[0] == 'f' or r.random() < 0.3
            return {'k': 'if', 'c': c, 'b': self.block(d, vis, infn, decl_ok, inmixin),
                    'e': self.block(d, vis, infn, decl_ok, inmixin, 1, 3) if has_else else None}
        if k in ('each', 'for'):
            lv = r.choice(['i', 'i', 'i', 'j', 'x', 'y'])
            body = self.block(d, vis | {lv}, infn, decl_ok, inmixin)
            if infn and r.random() < 0.15:
                body.append({'k': 'return', 'e': self.expr(vis | {lv}, True)})
            if k == 'each':
                return {'k': 'each', 'lv': lv, 'items': [r.randint(1, 9) for _ in range(r.randint(1, 3))], 'b': body}
            lo = r.randint(1, 3)
            return {'k': 'for', 'lv': lv, 'from': lo, 'to': lo + r.randint(0, 2), 'b': body}
        if k == 'while':
            return {'k': 'while', 'kv': 'k%d' % self.nid(), 'n': r.randint(1, 3), 'b': self.block(d, vis, infn, decl_ok, inmixin)}
        if k == 'call':
            if self.done_funcs and r.random() < 0.4:
                name, np_ = r.choice(self.done_funcs)
            else:
                name, np_ = self.new_func(d)
            return {'k': 'assign', 'v': r.choice(['u', 'u', 'x', 'y', 'z']), 'f': r.choice(['', '', 'g']),
                    'e': ['call', name, [self.expr(vis, infn, False) for _ in range(np_)]]}
        # include
        if self.done_mixins and r.random() < 0.35:
            name, np_, hc = r.choice(self.done_mixins)
        else:
            name, np_, hc = self.new_mixin(d)
        content = None
        if hc and r.random() < 0.85:
            content = self.block(d, vis, False, decl_ok, (False,))
        return {'k': 'include', 'm': name, 'args': [self.expr(vis, infn, True) for _ in range(np_)], 'content': content}

    def new_mixin(self, depth):
        r = self.rng
        name = 'm%d' % self.nid()
        params = r.choice([[], [], ['q'], ['x'], ['y'], ['q', 'x']])
        hc = r.random() < 0.5
        body = self.block(depth, set(self.globals) | set(params), False, False, (hc,))
        if hc and not any(s['k'] == 'content' for s in body):
            body.insert(r.randint(0, len(body)), {'k': 'content'})
        self.prog['mixins'].append([name, params, body])
        self.done_mixins.append((name, len(params), hc))
        return name, len(params), hc

    def new_func(self, depth):
        r = self.rng
        name = 'f%d' % self.nid()
        params = r.choice([[], ['q'], ['x'], ['y']])
        body = self.block(depth, set(self.globals) | set(params), True, False, None)
        body.append({'k': 'return', 'e': self.expr(set(self.globals) | set(params), True)})
        self.prog['funcs'].append([name, params, body])
        self.done_funcs.append((name, len(params)))
        return name, len(params)

    def program(self):
        r = self.rng
        for v in VARS:
            if r.random() < 0.6:
                self.prog['pro'].append({'k': 'assign', 'v': v, 'e': ['null'] if r.random() < 0.1 else ['n', self.nid()], 'f': ''})
                self.globals.add(v)
        main = self.block(0, self.globals, False, False, None, 2, 5)
        for v in sorted(self.globals):
            main.append({'k': 'read', 'v': v, 'id': self.nid(), 'how': 'p'})
        self.prog['main'] = main
        return self.prog


def gen_random(rng):
    for _ in range(30):
        prog = Gen(rng).program()
        ref, it = predict(prog)
        if ref[0] == 'toolong' or it.fuel_out:
            continue
        if ref[0] == 'err' and rng.random() > 0.12:
            continue
        return prog
    return prog


# ------------------------------------------------------------------ worker
def worker(ctx):
    parts, blk = exhaustive_space(ctx.quick, ctx.seed)
    ctx.seen('exhaustive-block', ','.join(blk))
    idx = 0
    pending = []
    done = True
    for n, kinds in parts:
        for forest in forests(n, kinds, False):
            idx += 1
            if idx % ctx.nshards != ctx.shard:
                continue
            pending.append(build(forest))
            if len(pending) >= 40:
                check_many(ctx, pending, 'exhaustive')
                ctx.stat('exhaustive-programs', len(pending))
                pending = []
                if ctx.expired():
                    done = False
                    break
        if not done:
            break
    if pending:
        check_many(ctx, pending, 'exhaustive')
        ctx.stat('exhaustive-programs', len(pending))
        ctx.sample({'source': render(pending[-1]), 'expected': predict(pending[-1])[0]})
    if done:
        ctx.stat('space_completed')
    first = True
    while not ctx.expired():
        progs = [gen_random(ctx.rng) for _ in range(25)]
        check_many(ctx, progs, 'random')
        ctx.stat('random-programs', len(progs))
        if first:
            first = False
            ctx.sample({'source': render(progs[0]), 'expected': predict(progs[0])[0]})
