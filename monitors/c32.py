"""C32 - colour adjustment functions obey their laws (relational monitor)."""
import re
from .lib import ev, colors, colors2 as c2

PROP = 'C32'
LEVEL = 'exploration'
BUDGET = {'quick': 30, 'thorough': 400}
FLOOR = {'quick': 3000, 'thorough': 40000}
RULE = ('base colours c from every constructor (hex, names, rgb/rgba, hsl/hsla, hwb; with alpha; inputs inside the legacy '
        'ranges), each with several law instances X: mix(c,c,w); invert(invert(c)); complement(complement(c)); adjust-hue by '
        '0, +-360, 720 degrees and there-and-back by d, -d; color.adjust/scale/change (module and global names) with no or '
        'zero arguments and change with the colour\'s own channel values; lighten, darken, saturate, desaturate, '
        'opacify/fade-in, transparentize/fade-out with amounts incl. 0, 100 and values that just reach or cross the bound; the '
        'six do/undo pairs; grayscale.  All nine channel functions are read for c and X (precision 12).  "X is c": the rgb '
        'triple computed from hue/saturation/lightness by the reference formula, whiteness, blackness and alpha agree to 1e-6 '
        '(red/green/blue, which round, to 1), and X == c is true.  Delta laws: the moved channel is clamp(old +- amount) to '
        '1e-6 (of the 0..1 scale), alpha and the other hsl channels are unchanged (hue/saturation only where meaningful: '
        'result lightness strictly inside 0..100%, saturation > 0).  Undo pairs only where the reported channel shows that '
        'nothing was clamped.  Distinct by (law, expression); non-trivial = every judged law instance.')
LEVEL_TEXT = ('Relational monitor: the laws are checked between several evaluations of the real functions on the same colour, '
              'through the real channel functions and the real ==; no model of the functions themselves.')
LEVEL_NOTE = ('Trusted: the hsl->rgb reference formula used to compare two colours independently of degenerate hue/saturation, '
              'and the parsing of printed numbers.  The base colour\'s own channel reports are the reference point, so a '
              'conversion that is wrong in the same way on both sides is a C31 matter and invisible here.')
TECHNIQUE = 'runtime monitoring: metamorphic relations (identity arguments, involutions, do/undo pairs, exact channel deltas) over generated colours'
ASSUMPTIONS = ['hue and saturation of achromatic results (saturation 0, lightness 0% or 100%) are not compared',
               'color.change($red: red(c)) is only used for colours whose reference channels are integers, because red() may round']

FUNCS = ['red', 'green', 'blue', 'hue', 'saturation', 'lightness', 'whiteness', 'blackness', 'alpha']
UNIT = {'red': '', 'green': '', 'blue': '', 'hue': 'deg', 'saturation': '%', 'lightness': '%', 'whiteness': '%',
        'blackness': '%', 'alpha': ''}
FAMILY = {'hex3': 'rgb', 'hex4': 'rgb', 'hex6': 'rgb', 'hex8': 'rgb', 'name': 'rgb', 'rgb': 'rgb', 'hsl': 'hsl', 'hwb': 'hwb'}
TOLP = 1e-4          # 1e-6 of the 0..1 scale, in percent units
TOLA = 1e-6


def amount(rng, room=None, hi=100, places=2):
    """An amount in [0, hi]; `room` (distance to the bound, same scale) steers some amounts to just below/at/above it."""
    x = rng.random()
    if x < 0.12:
        return rng.choice(['0', str(hi)])
    if room is not None and x < 0.45:
        r = max(0.0, min(float(hi), room))
        q = 10 ** places
        n = int(r * q)
        n = max(0, min(hi * q, n + rng.choice([-1, 0, 0, 1, 2, q // 10])))
        return c2.fdec(c2.F(n, q), places)
    return c2.rdec(rng, 0, hi, rng.choice([0, 1, places]))[0]


def gen_laws(rng, m, n):
    """n law instances for the base colour model m -> list of dicts {'law','x','kind': 'same'|'delta'|'undo'|'grayscale', ...}"""
    c = m['expr']
    h, s, l, w, k = c2.derived(m['r'], m['g'], m['b'])
    L, S, A = l * 100, s * 100, m['a']
    out = []
    mod = lambda name, glob=None: ('color.' + name) if (glob is None or rng.random() < 0.5) else glob
    while len(out) < n:
        x = rng.random()
        if x < 0.08:
            wgt = rng.choice(['', ', 0%', ', 100%', ', 50%', ', ' + c2.rdec(rng, 0, 100, 1)[0] + '%'])
            out.append({'law': 'mix-self', 'kind': 'same', 'x': '%s(%s, %s%s)' % (mod('mix', 'mix'), c, c, wgt)})
        elif x < 0.13:
            f = mod('invert', 'invert')
            out.append({'law': 'invert-twice', 'kind': 'same', 'x': '%s(%s(%s))' % (f, f, c)})
        elif x < 0.18:
            f = mod('complement', 'complement')
            out.append({'law': 'complement-twice', 'kind': 'same', 'x': '%s(%s(%s))' % (f, f, c)})
        elif x < 0.24:
            d = rng.choice(['360deg', '-360deg', '720deg', '0deg', '360', '1turn'])
            out.append({'law': 'adjust-hue-full-turns', 'kind': 'same', 'x': 'adjust-hue(%s, %s)' % (c, d)})
        elif x < 0.29:
            d = c2.rdec(rng, 0, 400, rng.choice([0, 1, 2]))[0]
            sg = rng.choice(['', '-'])
            sg2 = '-' if sg == '' else ''
            out.append({'law': 'adjust-hue-there-and-back', 'kind': 'same',
                        'x': 'adjust-hue(adjust-hue(%s, %s%sdeg), %s%sdeg)' % (c, sg, d, sg2, d)})
        elif x < 0.37:
            fn = mod('adjust', 'adjust-color')
            args = rng.choice(['', '$red: 0', '$green: 0, $blue: 0', '$red: 0, $green: 0, $blue: 0, $alpha: 0', '$hue: 0deg', '$hue: 0',
                               '$saturation: 0%', '$lightness: 0%', '$hue: 0deg, $saturation: 0%, $lightness: 0%',
                               '$whiteness: 0%', '$blackness: 0%', '$whiteness: 0%, $blackness: 0%', '$alpha: 0',
                               '$lightness: 0%, $alpha: 0', '$hue: 360deg', '$hue: -360deg'])
            out.append({'law': 'adjust-identity', 'kind': 'same', 'args': '+'.join(re.findall(r'\$([a-z]+):', args)),
                        'x': '%s(%s%s)' % (fn, c, ', ' + args if args else '')})
        elif x < 0.44:
            fn = mod('scale', 'scale-color')
            args = rng.choice(['', '$red: 0%', '$green: 0%, $blue: 0%', '$saturation: 0%', '$lightness: 0%', '$saturation: 0%, $lightness: 0%',
                               '$whiteness: 0%', '$blackness: 0%', '$alpha: 0%', '$red: 0%, $alpha: 0%', '$lightness: 0%, $alpha: 0%'])
            out.append({'law': 'scale-identity', 'kind': 'same', 'args': '+'.join(re.findall(r'\$([a-z]+):', args)),
                        'x': '%s(%s%s)' % (fn, c, ', ' + args if args else '')})
        elif x < 0.53:
            fn = mod('change', 'change-color')
            opts = ['', '$alpha: color.alpha(%s)' % c, '$hue: color.hue(%s)' % c, '$saturation: color.saturation(%s)' % c,
                    '$lightness: color.lightness(%s)' % c,
                    '$hue: color.hue(%s), $saturation: color.saturation(%s), $lightness: color.lightness(%s)' % (c, c, c),
                    '$whiteness: color.whiteness(%s)' % c, '$blackness: color.blackness(%s)' % c,
                    '$whiteness: color.whiteness(%s), $blackness: color.blackness(%s)' % (c, c)]
            if m['integer']:
                opts += ['$red: color.red(%s)' % c, '$green: color.green(%s), $blue: color.blue(%s)' % (c, c)]
            args = rng.choice(opts)
            out.append({'law': 'change-identity', 'kind': 'same', 'args': '+'.join(re.findall(r'\$([a-z]+):', args)),
                        'x': '%s(%s%s)' % (fn, c, ', ' + args if args else '')})
        elif x < 0.75:
            f = rng.choice(['lighten', 'darken', 'saturate', 'desaturate', 'opacify', 'fade-in', 'transparentize', 'fade-out'])
            if f in ('opacify', 'fade-in', 'transparentize', 'fade-out'):
                room = (1 - A) if f in ('opacify', 'fade-in') else A
                a = amount(rng, room, 1, 3)
                out.append({'law': f, 'kind': 'delta', 'channel': 'alpha', 'sign': 1 if f in ('opacify', 'fade-in') else -1,
                            'amount': float(a), 'x': '%s(%s, %s)' % (f, c, a)})
            else:
                ch = 'lightness' if f in ('lighten', 'darken') else 'saturation'
                cur = L if ch == 'lightness' else S
                up = f in ('lighten', 'saturate')
                a = amount(rng, (100 - cur) if up else cur, 100, 2)
                out.append({'law': f, 'kind': 'delta', 'channel': ch, 'sign': 1 if up else -1, 'amount': float(a),
                            'x': '%s(%s, %s%%)' % (f, c, a)})
        elif x < 0.93:
            pair = rng.choice([('lighten', 'darken'), ('darken', 'lighten'), ('saturate', 'desaturate'), ('desaturate', 'saturate'),
                               ('opacify', 'transparentize'), ('transparentize', 'opacify'), ('fade-in', 'fade-out'), ('fade-out', 'fade-in')])
            f, g = pair
            if f in ('opacify', 'transparentize', 'fade-in', 'fade-out'):
                up = f in ('opacify', 'fade-in')
                room = (1 - A) if up else A
                a = amount(rng, room * 0.8, 1, 3) if rng.random() < 0.7 else amount(rng, room, 1, 3)
                out.append({'law': '%s-then-%s' % (f, g), 'kind': 'undo', 'channel': 'alpha', 'sign': 1 if up else -1, 'amount': float(a),
                            'x': '%s(%s(%s, %s), %s)' % (g, f, c, a, a)})
            else:
                ch = 'lightness' if f in ('lighten', 'darken') else 'saturation'
                cur = L if ch == 'lightness' else S
                up = f in ('lighten', 'saturate')
                room = (100 - cur) if up else cur
                a = amount(rng, room * 0.8, 100, 2) if rng.random() < 0.7 else amount(rng, room, 100, 2)
                out.append({'law': '%s-then-%s' % (f, g), 'kind': 'undo', 'channel': ch, 'sign': 1 if up else -1, 'amount': float(a),
                            'x': '%s(%s(%s, %s%%), %s%%)' % (g, f, c, a, a)})
        else:
            out.append({'law': 'grayscale', 'kind': 'grayscale', 'x': '%s(%s)' % (mod('grayscale', 'grayscale'), c)})
    return out


NONFINITE = {'calc(infinity * 1%)': (float('inf'), '%'), 'calc(-infinity * 1%)': (float('-inf'), '%')}


def read_obs(res):
    obs = {}
    for f, r in zip(FUNCS, res):
        if r[0] != 'ok':
            return None, r
        # an infinite saturation is what rsass reports for some colours within an ulp of white: a range matter (C31);
        # here it only means "saturation not meaningful", which the comparisons below already allow for
        pn = NONFINITE.get(r[1]) if f == 'saturation' else None
        pn = pn or c2.parse_num(r[1])
        if pn is None or pn[1] != UNIT[f]:
            return None, r
        obs[f] = pn[0]
    return obs, None


def rgb_of(obs):
    s = min(1.0, max(0.0, obs['saturation'] / 100))
    l = min(1.0, max(0.0, obs['lightness'] / 100))
    return c2.hsl_to_rgb(obs['hue'], s, l)


def differences(X, C):
    """Which aspects of two colours (channel reports) differ: subset of rgb, whiteness/blackness, alpha, rounded-rgb."""
    d = []
    rx, rc = rgb_of(X), rgb_of(C)
    if any(abs(a - b) > 255e-6 for a, b in zip(rx, rc)):
        d.append('rgb')
    if abs(X['whiteness'] - C['whiteness']) > TOLP or abs(X['blackness'] - C['blackness']) > TOLP:
        d.append('whiteness-blackness')
    if any(abs(X[f] - C[f]) > 1 + 1e-9 for f in ('red', 'green', 'blue')):
        d.append('rounded-rgb')
    if abs(X['alpha'] - C['alpha']) > TOLA:
        d.append('alpha')
    return d


def hue_diff(a, b):
    d = abs(a - b) % 360
    return min(d, 360 - d)


def hue_tol(obs):
    """Hue is ill-conditioned for nearly grey colours: an implementation that stores rgb recovers it with an error of
    about ulp / chroma.  chroma = s * (1 - |2l - 1|)."""
    s, l = obs['saturation'] / 100, obs['lightness'] / 100
    chroma = max(0.0, min(1.0, s)) * (1 - abs(2 * max(0.0, min(1.0, l)) - 1))
    return max(1e-6, 1e-9 / max(chroma, 1e-12))


def judge(ctx, base, law, C, X, eq):
    fam = FAMILY[base['origin']]
    R = (base['r'], base['g'], base['b'])
    tie_rg = abs(R[0] - R[1]) < 1e-9 and R[0] - R[2] > 1e-9
    case = {'base': base, 'law': law}
    name, kind = law['law'], law['kind']
    ctx.nontrivial((name, law['x']))
    ctx.seen('laws', name)
    ctx.seen('law/family', '%s/%s' % (name, fam))
    detail = {'c': C, 'x': X, 'x_expr': law['x'], 'x == c': eq}

    def report(aspect):
        if tie_rg:
            # the hsl channels rsass reports for such a colour (once it is stored as rgb, e.g. the result of mix or of an
            # rgb-space adjustment) are themselves wrong (C31): one class for all consequences
            ctx.violation('base-colour-has-red=green>blue|law-fails', case, dict(detail, aspect=aspect, law=name))
        else:
            ctx.violation('%s|%s|written-as=%s' % (name, aspect, fam), case, detail)

    if kind in ('same', 'undo'):
        if kind == 'undo':
            ch, sg, a = law['channel'], law['sign'], law['amount']
            hi = 100 if ch != 'alpha' else 1
            moved = C[ch] + sg * a
            # "nothing was clamped": decided from the reported channel (12 decimals).  A clamp by less than 1e-9 of the
            # scale moves the colour by less than any tolerance used here (and than the 1e-11 of Sass equality * 255).
            if moved < -1e-9 * hi or moved > hi * (1 + 1e-9):
                ctx.stat('undo_clamped_not_judged')
                return
            ctx.stat('undo_unclamped_judged')
        d = differences(X, C)
        if d:
            report('+'.join(d) + '-differ')
        elif eq is False:
            # all channels agree but the equality operator says the colours differ
            ctx.violation('equality-operator-false-although-all-channels-agree|written-as=%s' % fam, case, detail)
        elif eq is True:
            ctx.stat('same_and_equal')
        if 'args' in law:
            ctx.seen('identity-args', '%s:%s' % (name, law['args']))
        return
    if kind == 'grayscale':
        bad = []
        if X['saturation'] > TOLP:
            bad.append('saturation-not-0')
        if abs(X['lightness'] - C['lightness']) > TOLP:
            bad.append('lightness-changed')
        if abs(X['alpha'] - C['alpha']) > TOLA:
            bad.append('alpha-changed')
        if bad:
            report('+'.join(bad))
        else:
            ctx.stat('grayscale_ok')
        return
    # delta laws
    ch, sg, a = law['channel'], law['sign'], law['amount']
    bad = []
    if ch == 'alpha':
        want = min(1.0, max(0.0, C['alpha'] + sg * a))
        clamped = not (0 <= C['alpha'] + sg * a <= 1)
        if abs(X['alpha'] - want) > TOLA:
            bad.append('alpha-not-moved-by-amount' + ('(clamped-case)' if clamped else ''))
        d = [x for x in differences(X, C) if x != 'alpha']
        if d:
            bad.append('+'.join(d) + '-changed')
    else:
        if ch == 'saturation' and (C['lightness'] <= TOLP or C['lightness'] >= 100 - TOLP):
            ctx.stat('saturation_of_black_or_white_not_judged')
            return
        raw = C[ch] + sg * a
        want = min(100.0, max(0.0, raw))
        clamped = not (0 <= raw <= 100)
        ctx.seen('delta-case', '%s/%s' % (name, 'clamped' if clamped else ('boundary' if raw in (0, 100) else 'inside')))
        if abs(X[ch] - want) > TOLP:
            if clamped and abs(X[ch] - raw) <= TOLP:
                ctx.violation('%s|%s-not-clamped' % (name, ch), case, detail)
                return
            else:
                bad.append('%s-not-moved-by-amount%s' % (ch, '(clamped-case)' if clamped else ''))
        if abs(X['alpha'] - C['alpha']) > TOLA:
            bad.append('alpha-changed')
        inside = lambda v: TOLP < v < 100 - TOLP
        if ch == 'lightness':
            # hue and saturation are only meaningful while the lightness is strictly inside 0..100%, before and after
            if inside(C['lightness']) and inside(want):
                # saturation = chroma / (1 - |2l-1|) is ill-conditioned next to black and white
                span = min(1 - abs(2 * C['lightness'] / 100 - 1), 1 - abs(2 * want / 100 - 1))
                if abs(X['saturation'] - C['saturation']) > max(TOLP, 1e-7 / max(span, 1e-12)):
                    bad.append('saturation-changed')
                if C['saturation'] > TOLP and hue_diff(X['hue'], C['hue']) > max(hue_tol(C), hue_tol(X)):
                    bad.append('hue-changed')
        else:
            if abs(X['lightness'] - C['lightness']) > TOLP:
                bad.append('lightness-changed')
            if C['saturation'] > TOLP and want > TOLP and hue_diff(X['hue'], C['hue']) > max(hue_tol(C), hue_tol(X)):
                bad.append('hue-changed')
    if bad:
        report('+'.join(bad))
    else:
        ctx.stat('delta_ok')


def check_cases(ctx, items):
    """items: list of (base model dict, [laws])"""
    exprs = []
    for base, laws in items:
        c = base['expr']
        exprs += ['color.%s(%s)' % (f, c) for f in FUNCS]
        for lw in laws:
            exprs += ['color.%s(%s)' % (f, lw['x']) for f in FUNCS]
            exprs.append('%s == %s' % (lw['x'], c))
    res = ev.evaluate_many(ctx, exprs, precision=12, chunk=19)
    i = 0
    for base, laws in items:
        C, bad = read_obs(res[i:i + 9])
        i += 9
        ctx.ran(9)
        ctx.seen('origin', base['origin'])
        for lw in laws:
            rx = res[i:i + 10]
            i += 10
            ctx.ran(10)
            if C is None:
                continue
            X, bad = read_obs(rx[:9])
            if X is None:
                if bad[0] == 'err':
                    # every generated call is valid Sass: an error is a failure of the law's left-hand side.  Oracle-side
                    # class: the first argument name and whether that channel of the base colour sits on its range bound
                    # (where the colour's own value can exceed the bound by an ulp).
                    names = [a for a in lw.get('args', '').split('+') if a]
                    own = lw['law'] == 'change-identity' and C is not None
                    if own and any(C[a] >= 100 - 1e-9 or C[a] <= 1e-9 for a in names if a in ('saturation', 'lightness', 'whiteness', 'blackness')):
                        sig = '%s|error|own-value-at-range-bound' % lw['law']
                    else:
                        sig = '%s|error|args=%s' % (lw['law'], '+'.join(names) or 'none')
                    ctx.violation(sig, {'base': base, 'law': lw}, {'x_expr': lw['x'], 'error': bad[1][:200]})
                elif bad[0] == 'ok':
                    ctx.violation('%s|result-not-a-colour|written-as=%s' % (lw['law'], FAMILY[base['origin']]), {'base': base, 'law': lw},
                                  {'x_expr': lw['x'], 'observed': bad[1][:200]})
                else:
                    ctx.undecided('harness:' + str(bad[1]))
                continue
            eq = {'true': True, 'false': False}.get(rx[9][1]) if rx[9][0] == 'ok' else None
            judge(ctx, base, lw, C, X, eq)
        if C is None:
            ctx.stat('base_channels_unavailable')


def check_case(ctx, case):
    check_cases(ctx, [(case['base'], [case['law']])])


def worker(ctx):
    rng = ctx.rng
    first = True
    # a fixed family in every run: primaries, secondaries, greys, black, white, transparent
    fixed = ['red', 'lime', 'blue', 'yellow', 'cyan', 'magenta', 'black', 'white', 'gray', 'transparent', '#808080', 'rgba(0, 0, 0, 0.5)',
             'hsl(0, 100%, 50%)', 'hsl(120, 0%, 50%)', 'hsl(240, 100%, 100%)', 'hsl(60, 100%, 0%)', 'hwb(0 0% 0%)', 'hwb(90 50% 50%)']
    while not ctx.expired():
        items = []
        for _ in range(6):
            if rng.random() < 0.05:
                e = rng.choice(fixed)
                pc = colors.parse_css_color(e)
                m = c2._finish('name' if e.isalpha() else ('hsl' if e.startswith('hsl') else 'hwb' if e.startswith('hwb') else 'rgb'),
                               e, c2.F(round(pc[0] * 1000), 1000), c2.F(round(pc[1] * 1000), 1000), c2.F(round(pc[2] * 1000), 1000), c2.F(str(pc[3])))
            else:
                m = c2.gen_color(rng, hostile=False)
            if not m['gamut']:
                continue
            items.append((c2.public(m), gen_laws(rng, m, 5)))
        check_cases(ctx, items)
        if first and items:
            ctx.sample({'base': items[0][0]['expr'], 'laws': [l['x'] for l in items[0][1]]})
            first = False
