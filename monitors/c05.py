"""C05 - compilation is deterministic and isolated (fresh-process reference vs histories vs concurrent threads; built-in fingerprint)."""
import re
from . import sanitizers
from .lib import corpus, proggen
from .lib.driver import Driver

PROP = 'C05'
LEVEL = 'exploration'
BUDGET = {'quick': 30, 'thorough': 420}
FLOOR = {'quick': 3000, 'thorough': 60000}
WORKERS = 8
RULE = ('inputs: sass-spec corpus inputs, generated programs and an attack set that tries to leak state between compilations '
        '(configuring or assigning built-in modules, `as *` plus !global writes, user functions/mixins named like built-ins or like '
        'functions another job leaves undefined, module files with the same name and different contents in consecutive loaders, '
        'modules configured differently by consecutive jobs, !default against an earlier definition).  Inputs that mention random or '
        'unique-id are filtered out lexically.  For every (input, style, precision) a REFERENCE result is taken from a fresh process that '
        'compiles only that input.  Then (a) sequential histories: the same jobs at random positions of a 1..50-job history in one '
        'long-lived process (the job thread is reused); (b) concurrent histories: 2..16 threads behind a start barrier, each running a '
        'random job list, with yield injection at the hook points.  A case is (input, options, kind of history); it is non-trivial when '
        'it ran after at least one other job in the same process or while another thread was compiling; distinct by input text + '
        'options + history kind + the job that ran just before it on the same thread.  Oracle: status, output bytes and error text equal the reference; the digest of all built-in modules\' '
        'variables and function names, taken after every history, equals the one of a fresh process.')
LEVEL_TEXT = ('Relational monitor over histories: every compilation is compared byte for byte with the same compilation done alone in a '
              'fresh process, so any state that survives a compilation or leaks between threads shows up as a difference; the thorough '
              'tier adds Miri (many seeds) and ThreadSanitizer on harness/src/conc.rs.')
LEVEL_NOTE = ('Trusted: process isolation as the reference, the driver\'s history runner.  Schedules are the ones the OS produces plus yield '
              'injection; Miri explores seeds on a tiny workload.  The evidence reports histories, jobs, threads and distinct interleavings.')
TECHNIQUE = 'runtime monitoring: differential comparison of histories and concurrent runs against fresh-process references; built-in fingerprint; Miri and ThreadSanitizer lanes in the thorough tier'

NONDET = re.compile(r'random|unique[-_]id', re.I)

LIB1 = {'_lib.scss': '$v: 1 !default; $w: 10; @function f($x) { @return $x + $v; } @mixin m { q: $w; } .lib { v: $v; }'}
LIB2 = {'_lib.scss': '$v: 2 !default; $w: 20; @function f($x) { @return $x * $v; } @mixin m { r: $w; } .lib { v: $v; other: yes; }'}
# the same url resolving to different candidate files in consecutive loaders (a resolution cache that outlives a compilation)
T_IDX = {'theme/_index.scss': '$c: red; .theme { from: index; }'}
T_BOTH = {'_theme.scss': '$c: blue; .theme { from: partial; }', 'theme/_index.scss': '$c: red; .theme { from: index; }'}
T_PLAIN = {'theme.scss': '$c: green; .theme { from: plain; }', '_theme.scss': '$c: blue; .theme { from: partial; }'}
T_CSS = {'theme.css': '.theme { from: css; }'}
T_CSS_SCSS = {'theme.css': '.theme { from: css; }', 'theme/index.scss': '$c: red; .theme { from: index; }'}
ATTACKS = [
    (T_IDX, '@use "theme"; a { b: theme.$c; }'),
    (T_BOTH, '@use "theme"; a { b: theme.$c; }'),
    (T_PLAIN, '@use "theme"; a { b: theme.$c; }'),
    (T_IDX, '@import "theme"; a { b: $c; }'),
    (T_BOTH, '@import "theme"; a { b: $c; }'),
    (T_PLAIN, '@import "theme"; a { b: $c; }'),
    (T_CSS, '@import "theme"; a { b: c; }'),
    (T_CSS_SCSS, '@import "theme"; a { b: c; }'),
    (T_CSS, '@use "theme"; a { b: c; }'),
    (T_CSS_SCSS, '@use "theme"; a { b: c; }'),
    (T_IDX, '@use "sass:meta"; a { @include meta.load-css("theme"); }'),
    (T_BOTH, '@use "sass:meta"; a { @include meta.load-css("theme"); }'),
    (T_BOTH, '@forward "theme"; a { b: c; }'),
    (T_IDX, '@forward "theme"; a { b: c; }'),
    ({}, '@use "sass:math" with ($pi: 3); a { b: math.$pi; }'),
    ({}, '@use "sass:math"; math.$pi: 3; a { b: math.$pi; }'),
    ({}, '@use "sass:math"; a { b: math.$pi; c: math.$e; d: math.div(1, 3); }'),
    ({}, '@use "sass:math" as m; m.$pi: 3; a { b: m.$pi; }'),
    ({}, '@use "sass:math" as m; m.$e: 2 !default; m.$epsilon: 1; a { b: m.$e; }'),
    ({}, '@use "sass:math" as pi; pi.$pi: 3; a { b: pi.$pi; }'),
    ({}, '@use "sass:math" as string; string.$pi: 4; a { b: string.$pi; }'),
    ({}, '@use "sass:string" as math; math.$pi: 5; a { b: c; }'),
    ({}, '@use "sass:math" as m; m.$max-safe-integer: 1; m.$min-number: 1; a { b: m.$max-safe-integer; }'),
    ({}, '@use "sass:math" as m; @use "sass:math"; m.$pi: 6; a { b: math.$pi; }'),
    ({}, '@forward "sass:math" as m-*; $m-pi: 7 !global; a { b: c; }'),
    ({}, '@use "sass:math" as m; a { b: m.$pi; c: m.$e; d: m.$epsilon; e: m.$max-safe-integer; f: m.$min-safe-integer; g: m.$max-number; h: m.$min-number; }'),
    ({}, '@use "sass:math" as *; $pi: 3 !global; a { b: $pi; }'),
    ({}, '@use "sass:math" as *; a { b: $pi; c: $e; }'),
    ({}, '@use "sass:math" as *; $pi: 4; a { b: $pi; c: max(1, 2); }'),
    ({}, '@forward "sass:math" with ($pi: 3); a { b: c; }'),
    ({}, '@use "sass:meta"; @include meta.load-css("sass:math", $with: (pi: 3)); a { b: c; }'),
    ({}, '@use "sass:color"; color.$x: 1; a { b: c; }'),
    ({}, '@use "sass:map"; @use "sass:list"; a { b: map.get((k: v), k); c: list.nth(a b c, 2); }'),
    ({}, '@function lighten($c, $a) { @return wrong; } a { b: lighten(red, 10%); }'),
    ({}, 'a { b: lighten(red, 10%); c: darken(red, 10%); }'),
    ({}, '@function nth($l, $n) { @return hijacked; } a { b: nth(1 2 3, 2); }'),
    ({}, 'a { b: nth(1 2 3, 2); c: length(1 2 3); }'),
    ({}, '@function foo($x) { @return $x * 2; } @mixin bar { z: 1; } a { b: foo(2); @include bar; }'),
    ({}, 'a { b: foo(2); }'),
    ({}, 'a { @include bar; }'),
    ({}, '$x: 1 !default; $y: 5 !global; a { b: $x; c: $y; }'),
    ({}, 'a { b: $x; }'),
    ({}, '$x: 7; a { b: $x; }'),
    ({}, '$x: 1 !default; a { b: $x; }'),
    (LIB1, '@use "lib"; a { b: lib.$v; c: lib.f(3); @include lib.m; }'),
    (LIB2, '@use "lib"; a { b: lib.$v; c: lib.f(3); @include lib.m; }'),
    (LIB1, '@use "lib" with ($v: 5); a { b: lib.$v; c: lib.f(3); }'),
    (LIB2, '@use "lib" with ($v: 6); a { b: lib.$v; c: lib.f(3); }'),
    (LIB1, '@use "lib"; lib.$w: 99; a { b: lib.$w; @include lib.m; }'),
    (LIB1, '@use "lib"; a { b: lib.$w; @include lib.m; }'),
    (LIB1, '@import "lib"; $v: 3; a { b: $v; c: f(1); }'),
    (LIB2, '@import "lib"; a { b: $v; c: f(1); }'),
    (LIB1, '@use "lib" as *; $w: 5; a { b: $w; @include m; }'),
    (LIB1, '@use "sass:meta"; a { @include meta.load-css("lib", $with: (v: 9)); }'),
    (LIB1, '@use "sass:meta"; a { @include meta.load-css("lib"); }'),
    (LIB1, '@forward "lib" with ($v: 8); a { b: c; }'),
    ({}, '@use "sass:meta"; a { b: meta.function-exists("foo"); c: meta.mixin-exists("bar"); d: meta.global-variable-exists("x"); e: meta.variable-exists("y"); }'),
    ({}, '@use "sass:meta"; @function foo() { @return 1; } $x: 1; a { b: meta.function-exists("foo"); d: meta.global-variable-exists("x"); }'),
    ({}, '@use "sass:selector"; a { b: selector.extend(".a .b", ".b", ".c"); } .x { @extend .y; } .y { z: 1; }'),
    ({}, '.y { z: 2; } .q { @extend .y; }'),
    ({}, '%p { z: 1; } .r { @extend %p; }'),
    ({}, '@debug "d"; @warn "w"; a { b: c; }'),
    ({}, 'a { b: 1 + ; }'),
    ({}, 'a { b: 10px / 3; c: (10px / 3); d: percentage(0.123456789); }'),
    ({}, '@use "sass:math"; a { b: math.$max-safe-integer; c: math.$epsilon; d: math.$min-number; }'),
]


def jobs_pool(ctx):
    """-> list of job dicts (without ids)"""
    r = ctx.rng
    pool = []
    for files, src in ATTACKS:
        for style in ('expanded', 'compressed'):
            j = {'src': src, 'style': style, 'precision': r.choice([5, 10, 10]), 'kind': 'attack'}
            if files:
                j['files'] = files
                j['entry'] = 'main.scss'
            pool.append(j)
    corp = [c for c in corpus.load() if not NONDET.search(c['src']) and not c['mock'] and len(c['src']) < 4000]
    for c in r.sample(corp, min(len(corp), 40 if ctx.quick else 400)):
        pool.append({'src': c['src'], 'style': r.choice(['expanded', 'compressed']), 'precision': r.choice([10, 10, 3]), 'kind': 'corpus'})
    for _ in range(30 if ctx.quick else 250):
        src = proggen.program(r, nonascii=0.1)
        if NONDET.search(src):
            continue
        pool.append({'src': src, 'style': r.choice(['expanded', 'compressed']), 'precision': r.choice([10, 5, 0, 20]), 'kind': 'generated'})
    return pool


def strip(job):
    return {k: v for k, v in job.items() if k != 'kind'}


def outcome(r):
    return (r.get('status'), r.get('out'), r.get('out_hex'), r.get('err'))


def reference(ctx, pool):
    """Every job alone in its own fresh process."""
    refs = []
    fp = None
    for j in pool:
        d = Driver(ctx.driver_bin)
        try:
            r = d.call(dict(strip(j), fp=True))
        finally:
            d.close()
        refs.append(r)
        if r.get('status') in ('ok', 'err') and fp is None:
            fp = r.get('fp')
    return refs, fp


def compare(ctx, job, ref, got, how, mk_case, prev=None):
    ctx.ran()
    if ref.get('status') not in ('ok', 'err') or got.get('status') in ('timeout', 'crash', 'harness-error'):
        ctx.undecided('reference-or-run-unusable:%s/%s' % (ref.get('status'), got.get('status')))
        return
    ctx.nontrivial((job['src'], job.get('style'), job.get('precision'), how, prev['src'] if prev else None))
    ctx.stat('compared:' + how)
    ctx.seen('input_kinds', job['kind'] + ':' + ref.get('status'))
    if outcome(ref) != outcome(got):
        what = 'status' if ref.get('status') != got.get('status') else ('output' if ref.get('status') == 'ok' else 'error-text')
        ctx.violation('%s|%s-differs-from-fresh-process|input=%s' % (how, what, job['kind']), dict(mk_case(), job=strip(job)),
                      {'reference': {k: ref.get(k) for k in ('status', 'out', 'err')}, 'observed': {k: got.get(k) for k in ('status', 'out', 'err', 'panic_msg')}})


def check_case(ctx, case):
    # replay: the recorded history is run again against fresh references
    pool = case['jobs']
    refs, fp = reference(ctx, pool)
    run_history(ctx, pool, refs, fp, case)


def run_history(ctx, pool, refs, fp, case):
    if case['how'] == 'sequential':
        order = case['order']
        res = ctx.batch([dict(strip(pool[i]), fp=(k == len(order) - 1)) for k, i in enumerate(order)], timeout=60)
        for k, (i, r) in enumerate(zip(order, res)):
            compare(ctx, pool[i], refs[i], r, 'sequential-history',
                    lambda k=k: {'how': 'sequential', 'jobs': [pool[x] for x in order[:k + 1]], 'order': list(range(k + 1))},
                    prev=pool[order[k - 1]] if k else None)
        last = res[-1] if res else {}
        if fp and last.get('fp') and last['fp'] != fp:
            ctx.violation('sequential-history|built-in-modules-changed', {'how': 'sequential', 'jobs': [pool[x] for x in order], 'order': list(range(len(order)))},
                          {'fresh': fp, 'after_history': last.get('fp')})
        return
    threads = case['threads']
    r = ctx.driver.call({'op': 'history', 'threads': [[strip(pool[i]) for i in t] for t in threads], 'yield_p': case['yield_p'], 'seed': case['seed']},
                        timeout=180)
    if r.get('status') != 'ok':
        ctx.undecided('history-' + str(r.get('status')))
        return
    def conc_case():
        used = sorted(set(i for t in threads for i in t))
        remap = {i: k for k, i in enumerate(used)}
        return {'how': 'concurrent', 'jobs': [pool[i] for i in used], 'threads': [[remap[i] for i in t] for t in threads],
                'yield_p': case['yield_p'], 'seed': case['seed']}
    tags = []
    for ti, (t, results) in enumerate(zip(threads, r['threads'])):
        if not isinstance(results, list):
            ctx.undecided('thread-result-missing')
            continue
        for k, (i, res) in enumerate(zip(t, results)):
            compare(ctx, pool[i], refs[i], res, 'concurrent-history', conc_case, prev=pool[t[k - 1]] if k else None)
            for e in res.get('events', []):
                tags.append((e[0], ti))
    if fp and r.get('fp') and r['fp'] != fp:
        ctx.violation('concurrent-history|built-in-modules-changed', conc_case(), {'fresh': fp, 'after': r.get('fp')})
    tags.sort()
    seq = tuple(t for _, t in tags[:300])
    ctx.seen('interleavings', hash(seq) & 0xffffffffffff)
    ctx.stat('event_thread_switches', sum(1 for a, b in zip(seq, seq[1:]) if a != b))
    ctx.seen('threads', len(threads))


def worker(ctx):
    pool = jobs_pool(ctx)
    refs, fp = reference(ctx, pool)
    ctx.stat('reference_processes', len(refs))
    # taking the references (one process per job) is preparation: the history phase gets at least 60 % of the budget
    import time
    ctx.deadline = max(ctx.deadline, time.monotonic() + 0.6 * BUDGET[ctx.tier])
    n = len(pool)
    natt = 2 * len(ATTACKS)
    ctx.sample({'attack_job': strip(pool[0]), 'generated_job': strip(pool[-1])})
    while not ctx.expired():
        r = ctx.rng
        if r.random() < 0.5:
            k = r.randint(1, 50)
            # attack jobs are over-represented and placed next to their victims
            order = [r.randrange(natt) if r.random() < 0.5 else r.randrange(n) for _ in range(k)]
            run_history(ctx, pool, refs, fp, {'how': 'sequential', 'order': order})
            ctx.stat('sequential_histories')
        else:
            T = r.choice([2, 4, 8, 16])
            threads = [[r.randrange(natt) if r.random() < 0.4 else r.randrange(n) for _ in range(r.randint(3, 20))] for _ in range(T)]
            run_history(ctx, pool, refs, fp, {'how': 'concurrent', 'threads': threads, 'yield_p': r.choice([0, 655, 6553, 32768]), 'seed': r.getrandbits(32)})
            ctx.stat('concurrent_histories')


def finish(merged, tier, seed):
    if tier != 'thorough':
        return {'sanitizer_lanes': 'thorough tier only'}
    return sanitizers.run_lanes(merged, PROP)
