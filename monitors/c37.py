"""C37 - @use/@forward configuration and visibility rules (scenario templates over <= 3 files, each with a small model)."""
import itertools, re

PROP = 'C37'
LEVEL = 'exploration'
BUDGET = {'quick': 30, 'thorough': 400}
FLOOR = {'quick': 3000, 'thorough': 30000}
EXHAUSTIVE = {'quick': True, 'thorough': True}
RULE = ('scenario templates over main.scss (entry), an optional middle module and a library module, with generated member, file, '
        'namespace and prefix names.  Templates: with (configuration of !default / plain / unknown / function-local / repeated '
        'variables, null, every `as` form), fwith (configuration through @forward: with, with !default overridden or not, '
        'pass-through, through a prefix, through show/hide), loaded (configuring a module that is already loaded, and the '
        'permitted order), ns (namespace from the URL: one and two directories, ./, ../, leading underscore, extension, index file, `as name`, '
        '`as *`; access through the expected namespace, the default namespace after `as`, and without a namespace), vis (members of '
        'a module used by a used module, of a sibling, of the entry file, of a forwarded module inside the forwarder), fwd (all '
        '63 show and 63 hide subsets of 2 variables + 2 functions + 2 mixins, with and without `as prefix-*`, function and mixin '
        'sharing one name, read through `mid.` and through `as *`; every member probed under its exposed name, under its original '
        'name when prefixed, plus an absent name), builtin (all seven sass: modules: @use with, @forward with, assignment to an '
        'existing and to a new variable, through `as name`), private ($-x/$_x, -f()/_f(), mixins; through the namespace, `as *` '
        'and @forward).  The whole template x variant space is enumerated once per run (sharded) and then repeated with fresh random '
        'names (plain, with - or _, a member name that already starts with the prefix).  One compilation per expected error, one '
        'per group of expected values.  Distinct by (template, variant, probe, names); every probe is non-trivial.  Oracle: the '
        'model of each template says for every access whether it yields the value a specific declaration holds (compared as '
        'text: integers, identifiers, quoted strings, short lists), is plain CSS text (an unknown function call), or is an '
        'error.')
LEVEL_TEXT = ('Reference-model monitor, bounded-exhaustive over the template x variant table and randomized over names: every '
              'access form is observed through the emitted value or the presence of an error.')
LEVEL_NOTE = ('Trusted: the per-template models (dart-sass semantics of @use/@forward as documented and pinned by sass-spec), the '
              'in-memory loader.  Which error is reported is not checked, only that there is one; an expected error that arises for '
              'another reason is therefore not noticed.')
TECHNIQUE = 'runtime monitoring: scenario templates with generated names against small visibility/configuration models'
ASSUMPTIONS = ['not judged (the statement is silent): two modules with one namespace, one member name reachable through two `as *` '
               'modules, assignment to a built-in variable through `as *`, `!default` inside an @use with-clause, writes through '
               'forwarding modules (listed C03 finding)']

DECL = re.compile(r'([a-z][a-z0-9_-]*):\s*([^;{}]*);')
BUILTINS = ['math', 'color', 'list', 'map', 'meta', 'selector', 'string']
MATH_VARS = ['pi', 'e', 'epsilon', 'max-safe-integer', 'min-safe-integer', 'max-number', 'min-number']
KINDS = ('var', 'fn', 'mx')


# ----------------------------------------------------------------------------------------------------------------------
# names

def norm(n):
    return n.replace('_', '-')


def fresh(rng, used, style='plain'):
    """An identifier that is no CSS/Sass word (it contains a digit), does not start with - or _, and differs from
    every used one even after -/_ normalisation."""
    while True:
        a = rng.choice('abcdefghijkmnopqrstuvwxyz') + ''.join(rng.choice('abcdefghijklmnopqrstuvwxyz0123456789') for _ in range(rng.randint(0, 2)))
        b = str(rng.randint(0, 9)) + ''.join(rng.choice('abcdefghijklmnopqrstuvwxyz0123456789') for _ in range(rng.randint(0, 2)))
        if style == 'dash':
            n = a + '-' + rng.choice('abcxyz') + b
        elif style == 'under':
            n = a + '_' + rng.choice('abcxyz') + b
        else:
            n = a + b
        if norm(n) not in used:
            used.add(norm(n))
            return n


def gen_names(rng, style):
    """All names a case may need.  style: plain | dash | under | mixed."""
    used = set(['main', 'index'])
    pick = (lambda: style) if style != 'mixed' else (lambda: rng.choice(['plain', 'dash', 'under']))
    n = {'style': style}
    n['lib'] = fresh(rng, used, 'dash' if style in ('dash', 'mixed') and rng.random() < 0.5 else 'plain')
    n['mid'] = fresh(rng, used)
    n['dir'] = fresh(rng, used)
    n['sub'] = fresh(rng, used)
    n['as'] = fresh(rng, used, 'dash' if style == 'dash' else 'plain')
    n['pre'] = fresh(rng, used) + rng.choice(['-', '_', ''])
    for k in ('va', 'vb', 'fa', 'fb', 'ma', 'mb', 'vd', 've', 'vn', 'vc', 'vl', 'fr', 'fl', 'md', 'zz', 'sh', 'g'):
        n[k] = fresh(rng, used, pick())
    for k in ('pa', 'pb', 'pc', 'pd', 'pe', 'pf', 'pg', 'ph', 'pi'):     # CSS property names written by mixins / rules
        n[k] = 'w' + fresh(rng, used)        # never q<digits> / c<digits>, the properties of reads
    vals = rng.sample(range(10, 99), 12)
    n['vals'] = vals
    return n


def cfg_value(rng, kind, used):
    if kind == 'int':
        return str(rng.randint(100, 999))
    if kind == 'ident':
        return fresh(rng, used)
    if kind == 'string':
        return '"%s %s"' % (fresh(rng, used), fresh(rng, used))
    return '%s %s' % (fresh(rng, used), rng.randint(100, 999))       # space separated list


# ----------------------------------------------------------------------------------------------------------------------
# rendering helpers

def ref(ns, kind, name):
    """Source text of an access.  ns: '' (no namespace) or 'name.'"""
    if kind == 'var':
        return '%s$%s' % (ns, name)
    if kind == 'fn':
        return '%s%s()' % (ns, name)
    return '@include %s%s' % (ns, name)


class Reads:
    """Collects accesses written into one rule `.r { ... }`; each has an output property and an expected text."""

    def __init__(self, tag='q'):
        self.tag = tag                      # 'q' in the probing file, 'c' for positive controls written into modules
        self.lines = []
        self.want = {}
        self.n = 0

    def add(self, ns, kind, name, expect, mixin_prop=None):
        if kind == 'mx':
            self.lines.append('  %s;' % ref(ns, kind, name))
            if expect is not None:
                self.want['%s:%s' % (self.tag, mixin_prop)] = expect
        else:
            self.n += 1
            prop = '%s%d' % (self.tag, self.n)
            self.lines.append('  %s: %s;' % (prop, ref(ns, kind, name)))
            if expect is not None:
                self.want['%s:%s' % (self.tag, prop)] = expect

    def rule(self):
        return '.r%s {\n%s\n}\n' % (self.tag, '\n'.join(self.lines))


def member_src(kind, name, value, prop=None, default=False):
    if kind == 'var':
        return '$%s: %s%s;' % (name, value, ' !default' if default else '')
    if kind == 'fn':
        return '@function %s() { @return %s; }' % (name, value)
    return '@mixin %s { %s: %s; }' % (name, prop, value)


def probe(pid, files, exp, want=None, sig='', entry='main.scss'):
    """exp: 'value' (every '<rule tag>:<property>' in want has exactly that text), 'prefix' (starts with it), 'error' (the
    compilation fails), 'plain' (an unknown function: left as CSS text, or refused - but it does not reach a member)."""
    return {'id': pid, 'files': files, 'entry': entry, 'exp': exp, 'want': want or {}, 'sig': sig}


def denied(ns, kind, name):
    """A read that must not reach a member -> (Reads, exp)."""
    r = Reads()
    if ns == '' and kind == 'fn':
        r.add(ns, kind, name, name + '()')        # a function call without namespace that names no function is plain CSS
        return r, 'plain'
    r.add(ns, kind, name, None)
    return r, 'error'


def use_line(url, as_=None, with_=None):
    s = '@use "%s"' % url
    if as_:
        s += ' as %s' % as_
    if with_ is not None:
        s += ' with (%s)' % with_
    return s + ';'


def ns_of(default, as_):
    if as_ == '*':
        return ''
    return (as_ or default) + '.'


# ----------------------------------------------------------------------------------------------------------------------
# template: with

WITH_TARGETS = ['default', 'default2', 'null', 'trailing-comma', 'not-default', 'unknown', 'local-default', 'repeated',
                'default+not-default', 'default+unknown']
AS_FORMS = ['default', 'name', 'star']


def cfg_lib(n):
    v = n['vals']
    return '\n'.join([
        '$%s: %d !default;' % (n['vd'], v[0]),
        '$%s: %d !default;' % (n['ve'], v[1]),
        '$%s: %d;' % (n['vn'], v[2]),
        '$%s: $%s;' % (n['vc'], n['vd']),
        '@function %s() { @return $%s; }' % (n['fr'], n['vd']),
        '@function %s() { $%s: %d !default; @return $%s; }' % (n['fl'], n['vl'], v[3], n['vl']),
        '@mixin %s { %s: $%s; }' % (n['md'], n['pa'], n['vd']),
        '.rl { %s: $%s; }' % (n['pb'], n['vd']),              # what the module itself sees while it is loaded
    ]) + '\n'


def cfg_reads(n, ns, d, e, prefix=''):
    """Reads of everything cfg_lib declares, given the values $vd and $ve are expected to hold."""
    v = n['vals']
    r = Reads()
    r.add(ns, 'var', prefix + n['vd'], d)
    r.add(ns, 'var', prefix + n['ve'], e)
    r.add(ns, 'var', prefix + n['vn'], str(v[2]))
    r.add(ns, 'var', prefix + n['vc'], d)
    r.add(ns, 'fn', prefix + n['fr'], d)
    r.add(ns, 'fn', prefix + n['fl'], str(v[3]))
    r.add(ns, 'mx', prefix + n['md'], d, n['pa'])
    r.want['l:' + n['pb']] = d
    return r


def t_with(v, n):
    x, y = v['x'], v['y']
    d0, e0 = str(n['vals'][0]), str(n['vals'][1])
    t = v['target']
    cfgs = {
        'default': ('$%s: %s' % (n['vd'], x), x, e0),
        'default2': ('$%s: %s, $%s: %s' % (n['vd'], x, n['ve'], y), x, y),
        'null': ('$%s: null' % n['vd'], d0, e0),
        'trailing-comma': ('$%s: %s,' % (n['ve'], y), d0, y),
        'not-default': ('$%s: %s' % (n['vn'], x), None, None),
        'unknown': ('$%s: %s' % (n['zz'], x), None, None),
        'local-default': ('$%s: %s' % (n['vl'], x), None, None),
        'repeated': ('$%s: %s, $%s: %s' % (n['vd'], x, n['vd'], y), None, None),
        'default+not-default': ('$%s: %s, $%s: %s' % (n['vd'], x, n['vn'], y), None, None),
        'default+unknown': ('$%s: %s, $%s: %s' % (n['zz'], y, n['vd'], x), None, None),
    }
    cfg, d, e = cfgs[t]
    as_ = {'default': None, 'name': n['as'], 'star': '*'}[v['as']]
    ns = ns_of(n['lib'], as_)
    r = cfg_reads(n, ns, d or d0, e or e0)
    files = {'main.scss': use_line(n['lib'], as_, cfg) + '\n' + r.rule(), '_%s.scss' % n['lib']: cfg_lib(n)}
    if d is None:
        off = {'default+not-default': 'not-default', 'default+unknown': 'unknown'}.get(t, t)
        return [probe('configure', files, 'error', sig='configure|offending=%s' % off)]
    return [probe('configure', files, 'value', r.want, sig='configure|use-with|%s' % t)]


def v_with(rng):
    for t in WITH_TARGETS:
        for a in AS_FORMS:
            for k in ('int', 'ident', 'string', 'list'):
                used = set()
                yield {'target': t, 'as': a, 'x': cfg_value(rng, k, used), 'y': cfg_value(rng, k, used), 'vk': k}


# ----------------------------------------------------------------------------------------------------------------------
# template: fwith (configuration through @forward)

FWITH = ['forward-with', 'forward-with-default-kept', 'forward-with-default-overridden', 'forward-with-overridden-without-default',
         'pass-through', 'pass-through-prefix', 'pass-through-prefix-original-name', 'pass-through-hidden', 'pass-through-shown',
         'pass-through-not-shown', 'pass-through-not-default', 'forward-with-not-default', 'forward-with-unknown',
         'pass-through-other-hidden']
FWITH_OFFENDING = {'forward-with-overridden-without-default': 'already-configured-by-forward',
                   'pass-through-prefix-original-name': 'not-forwarded', 'pass-through-hidden': 'not-forwarded',
                   'pass-through-not-shown': 'not-forwarded', 'pass-through-not-default': 'not-default',
                   'forward-with-not-default': 'not-default', 'forward-with-unknown': 'unknown'}


def t_fwith(v, n):
    x, y = v['x'], v['y']
    d0, e0 = str(n['vals'][0]), str(n['vals'][1])
    t = v['variant']
    p = n['pre']
    vd, ve, vn, zz, fr = n['vd'], n['ve'], n['vn'], n['zz'], n['fr']
    # variant -> (forward clause, main's with clause or None, expected $vd or None for error, member prefix)
    table = {
        'forward-with': ('with ($%s: %s)' % (vd, x), None, x, ''),
        'forward-with-default-kept': ('with ($%s: %s !default)' % (vd, x), None, x, ''),
        'forward-with-default-overridden': ('with ($%s: %s !default)' % (vd, x), '$%s: %s' % (vd, y), y, ''),
        'forward-with-overridden-without-default': ('with ($%s: %s)' % (vd, x), '$%s: %s' % (vd, y), None, ''),
        'pass-through': ('', '$%s: %s' % (vd, y), y, ''),
        'pass-through-prefix': ('as %s*' % p, '$%s%s: %s' % (p, vd, y), y, p),
        'pass-through-prefix-original-name': ('as %s*' % p, '$%s: %s' % (vd, y), None, p),
        'pass-through-hidden': ('hide $%s' % vd, '$%s: %s' % (vd, y), None, ''),
        'pass-through-shown': ('show $%s, %s' % (vd, fr), '$%s: %s' % (vd, y), y, ''),
        'pass-through-not-shown': ('show $%s' % ve, '$%s: %s' % (vd, y), None, ''),
        'pass-through-not-default': ('', '$%s: %s' % (vn, y), None, ''),
        'forward-with-not-default': ('with ($%s: %s)' % (vn, x), None, None, ''),
        'forward-with-unknown': ('with ($%s: %s)' % (zz, x), None, None, ''),
        'pass-through-other-hidden': ('hide $%s, %s' % (ve, n['fl']), '$%s: %s' % (vd, y), y, ''),
    }
    clause, mw, d, pre = table[t]
    ns = n['mid'] + '.'
    files = {'_%s.scss' % n['mid']: '@forward "%s"%s;\n' % (n['lib'], (' ' + clause) if clause else ''),
             '_%s.scss' % n['lib']: cfg_lib(n)}
    # the pass-through variants differ only in the @forward clause the configuration travels through
    sig = 'configure|%s' % ('pass-through' if t.startswith('pass-through') else t)
    if d is None:
        r = Reads()
        r.add('', 'fn', n['g'], None)        # nothing of the module is read: the configuration itself must be refused
        files['main.scss'] = use_line(n['mid'], None, mw) + '\n' + r.rule()
        return [probe('configure', files, 'error', sig='configure|offending=%s' % FWITH_OFFENDING[t])]
    if t in ('pass-through-shown', 'pass-through-other-hidden'):
        r = Reads()
        r.add(ns, 'var', vd, d)
        r.add(ns, 'fn', fr, d)
        r.want['l:' + n['pb']] = d
    else:
        r = cfg_reads(n, ns, d, e0, pre)
    files['main.scss'] = use_line(n['mid'], None, mw) + '\n' + r.rule()
    return [probe('configure', files, 'value', r.want, sig=sig)]


def v_fwith(rng):
    for t in FWITH:
        for k in ('int', 'ident', 'string'):
            used = set()
            yield {'variant': t, 'x': cfg_value(rng, k, used), 'y': cfg_value(rng, k, used), 'vk': k}


# ----------------------------------------------------------------------------------------------------------------------
# template: loaded (configuring a module that was already loaded)

LOADED = ['loaded-by-used-module', 'loaded-by-forwarding-module', 'configured-first-then-shared']


def t_loaded(v, n):
    x = v['x']
    t = v['variant']
    lib = {'_%s.scss' % n['lib']: cfg_lib(n)}
    e0 = str(n['vals'][1])
    cfg = '$%s: %s' % (n['vd'], x)
    if t == 'configured-first-then-shared':
        # main configures the library, then loads a module that uses the (now loaded) library without configuration
        mid = '@use "%s";\n@function %s() { @return %s.$%s; }\n' % (n['lib'], n['g'], n['lib'], n['vd'])
        r = cfg_reads(n, n['lib'] + '.', x, e0)
        r.add(n['mid'] + '.', 'fn', n['g'], x)
        files = dict(lib)
        files['_%s.scss' % n['mid']] = mid
        files['main.scss'] = use_line(n['lib'], None, cfg) + '\n' + use_line(n['mid']) + '\n' + r.rule()
        return [probe('configure', files, 'value', r.want, sig='configure|%s' % t)]
    mid = ('@use "%s";\n' if t == 'loaded-by-used-module' else '@forward "%s";\n') % n['lib']
    r = Reads()
    r.add(n['lib'] + '.', 'var', n['vd'], None)
    files = dict(lib)
    files['_%s.scss' % n['mid']] = mid
    files['main.scss'] = use_line(n['mid']) + '\n' + use_line(n['lib'], None, cfg) + '\n' + r.rule()
    return [probe('configure', files, 'error', sig='configure|offending=already-loaded')]


def v_loaded(rng):
    for t in LOADED:
        for k in ('int', 'ident'):
            yield {'variant': t, 'x': cfg_value(rng, k, set()), 'vk': k}


# ----------------------------------------------------------------------------------------------------------------------
# template: ns (namespace derivation)

def simple_lib(n, which=('a',)):
    v = n['vals']
    out = []
    for i, w in enumerate(which):
        out.append(member_src('var', n['v' + w], v[3 * i]))
        out.append(member_src('fn', n['f' + w], v[3 * i + 1]))
        out.append(member_src('mx', n['m' + w], v[3 * i + 2], n['p' + w]))
    return '\n'.join(out) + '\n'


def member(n, kind, w='a'):
    """(name, expected text, mixin property) of member w of the simple library."""
    i = 'ab'.index(w)
    k = KINDS.index(kind)
    return n[{'var': 'v', 'fn': 'f', 'mx': 'm'}[kind] + w], str(n['vals'][3 * i + k]), n['p' + w]


def v_ns(rng):
    for place in ('beside', 'subdir', 'deep', 'dot', 'parent', 'index', 'index-plain', 'index-deep'):
        for us in (False, True):
            for ext in (False, True):
                for partial in (False, True):
                    if us and not partial:
                        continue
                    if ext and partial and not us:
                        continue            # `lib.scss` naming `_lib.scss`: a matter of URL resolution (C04), not of namespaces
                    if place.startswith('index') and (us or ext or partial):
                        continue
                    for a in AS_FORMS:
                        yield {'place': place, 'us': us, 'ext': ext, 'partial': partial, 'as': a}


def t_ns(v, n):
    lib = n['lib']
    fname = ('_' if v['partial'] else '') + lib + '.scss'
    entry = 'main.scss'
    place = v['place']
    seg = ('_' if v['us'] else '') + lib + ('.scss' if v['ext'] else '')
    default = lib
    if place == 'beside':
        path, url = fname, seg
    elif place == 'subdir':
        path, url = n['dir'] + '/' + fname, n['dir'] + '/' + seg
    elif place == 'deep':
        path, url = '%s/%s/%s' % (n['dir'], n['sub'], fname), './%s/%s/%s' % (n['dir'], n['sub'], seg)
    elif place == 'dot':
        path, url = fname, './' + seg
    elif place == 'parent':
        entry = n['sub'] + '/main.scss'
        path, url = fname, '../' + seg
    else:
        path = n['dir'] + ('/_index.scss' if place == 'index' else '/index.scss')
        url = n['dir']
        default = n['dir']
        if place == 'index-deep':
            path, url = n['sub'] + '/' + path, n['sub'] + '/' + url
    as_ = {'default': None, 'name': n['as'], 'star': '*'}[v['as']]
    base = {path: simple_lib(n)}
    sig0 = 'ns|url-underscore=%s|url-extension=%s|index=%s|as=%s' % ('yes' if v['us'] else 'no', 'yes' if v['ext'] else 'no',
                                                                     'yes' if place.startswith('index') else 'no', v['as'])
    probes = []
    # 1. all three kinds through the expected namespace
    r = Reads()
    for k in KINDS:
        name, val, prop = member(n, k)
        r.add(ns_of(default, as_), k, name, val, prop)
    files = dict(base)
    files[entry] = use_line(url, as_) + '\n' + r.rule()
    probes.append(probe('expected-namespace', files, 'value', r.want, sig0 + '|through=expected-namespace', entry))
    # 2. wrong ways: one compilation each
    wrong = []
    if as_ is not None:
        wrong += [('default-namespace-after-as', default + '.', k) for k in KINDS]
    if as_ != '*':
        wrong += [('no-namespace', '', k) for k in KINDS]
    for how, ns, k in wrong:
        name, val, prop = member(n, k)
        r, exp = denied(ns, k, name)
        files = dict(base)
        files[entry] = use_line(url, as_) + '\n' + r.rule()
        probes.append(probe('%s:%s' % (how, k), files, exp, r.want, sig0 + '|through=%s' % how, entry))
    return probes


# ----------------------------------------------------------------------------------------------------------------------
# template: vis (what is NOT reachable)

def v_vis(rng):
    for mid_as in AS_FORMS:
        for main_as in AS_FORMS:
            yield {'variant': 'used-by-used-module', 'mid_as': mid_as, 'main_as': main_as}
    for main_as in AS_FORMS:
        yield {'variant': 'sibling', 'main_as': main_as}
        yield {'variant': 'forwarded-inside-forwarder', 'main_as': main_as}
    yield {'variant': 'entry-file-variable'}


def t_vis(v, n):
    t = v['variant']
    lib = {'_%s.scss' % n['lib']: simple_lib(n)}
    probes = []
    if t == 'used-by-used-module':
        mas = {'default': None, 'name': n['as'], 'star': '*'}[v['mid_as']]
        aas = {'default': None, 'name': n['zz'], 'star': '*'}[v['main_as']]
        # positive control: the middle module itself reaches the library and emits what it reads
        rc = Reads('c')
        for k in KINDS:
            name, val, prop = member(n, k)
            rc.add(ns_of(n['lib'], mas), k, name, val, prop)
        mid = use_line(n['lib'], mas) + '\n' + rc.rule()
        base = dict(lib)
        base['_%s.scss' % n['mid']] = mid
        files = dict(base)
        files['main.scss'] = use_line(n['mid'], aas) + '\n'
        probes.append(probe('control', files, 'value', rc.want, 'vis|%s|control' % t))
        ways = [('through-middle-namespace', ns_of(n['mid'], aas))]
        if aas != '*':
            ways.append(('no-namespace', ''))
        ways.append(('library-namespace-in-entry', ns_of(n['lib'], mas) if mas != '*' else n['lib'] + '.'))
        seen = set()
        for how, ns in ways:
            if ns in seen:
                continue
            seen.add(ns)
            for k in KINDS:
                name, val, prop = member(n, k)
                r, exp = denied(ns, k, name)
                files = dict(base)
                files['main.scss'] = use_line(n['mid'], aas) + '\n' + r.rule()
                probes.append(probe('%s:%s' % (how, k), files, exp, r.want, 'vis|%s|middle-uses-as=%s' % (t, v['mid_as'])))
        return probes
    if t == 'sibling':
        aas = {'default': None, 'name': n['as'], 'star': '*'}[v['main_as']]
        for how, ns in (('entry-namespace', ns_of(n['lib'], aas)), ('no-namespace', '')):
            for k in KINDS:
                if ns == '' and how == 'entry-namespace':
                    continue
                name, val, prop = member(n, k)
                r, exp = denied(ns, k, name)
                files = dict(lib)
                files['_%s.scss' % n['mid']] = r.rule()
                files['main.scss'] = use_line(n['lib'], aas) + '\n' + use_line(n['mid']) + '\n'
                probes.append(probe('%s:%s' % (how, k), files, exp, r.want, 'vis|%s|%s' % (t, how)))
        return probes
    if t == 'forwarded-inside-forwarder':
        # @forward does not make the members available in the forwarding module itself
        aas = {'default': None, 'name': n['as'], 'star': '*'}[v['main_as']]
        for k in KINDS:
            name, val, prop = member(n, k)
            r, exp = denied('', k, name)
            files = dict(lib)
            files['_%s.scss' % n['mid']] = '@forward "%s";\n%s' % (n['lib'], r.rule())
            files['main.scss'] = use_line(n['mid'], aas) + '\n'
            probes.append(probe('inside-forwarder:%s' % k, files, exp, r.want, 'vis|%s' % t))
        return probes
    # entry-file-variable: a variable of the entry file is not visible inside a module it uses
    r = Reads()
    r.add('', 'var', n['g'], None)
    files = {'_%s.scss' % n['mid']: r.rule(), 'main.scss': '$%s: 1;\n%s\n' % (n['g'], use_line(n['mid']))}
    probes.append(probe('entry-variable-in-module', files, 'error', None, 'vis|%s' % t))
    rc = Reads('c')
    rc.add('', 'var', n['g'], '1')
    files = {'_%s.scss' % n['mid']: '', 'main.scss': '$%s: 1;\n%s\n%s' % (n['g'], use_line(n['mid']), rc.rule())}
    probes.append(probe('control', files, 'value', rc.want, 'vis|%s|control' % t))
    return probes


# ----------------------------------------------------------------------------------------------------------------------
# template: fwd (show / hide / prefix)

FWD_MEMBERS = [('var', 'a'), ('var', 'b'), ('fn', 'a'), ('fn', 'b'), ('mx', 'a'), ('mx', 'b')]


def v_fwd(rng):
    for main_as in ('default', 'star'):
        for prefix in (False, True):
            yield {'clause': 'none', 'set': [], 'prefix': prefix, 'main_as': main_as, 'shared': False}
            for clause in ('show', 'hide'):
                for bits in range(1, 64):
                    yield {'clause': clause, 'set': [i for i in range(6) if bits >> i & 1], 'prefix': prefix, 'main_as': main_as,
                           'shared': False}
                # a function and a mixin with one name: a bare name in the list covers both
                for s in ([2], [0, 2], [3], [0]):
                    yield {'clause': clause, 'set': s, 'prefix': prefix, 'main_as': main_as, 'shared': True}


def fwd_model(v, n):
    """-> (library source, clause text, {(kind, normalised exposed name): (expected text, mixin prop)}, members)"""
    mem = []
    for i, (k, w) in enumerate(FWD_MEMBERS):
        name, val, prop = member(n, k, w)
        if v['shared'] and (k, w) == ('mx', 'a'):
            name = n['fa']                                     # mixin a is called like function a
        mem.append({'kind': k, 'name': name, 'val': val, 'prop': prop, 'listed': i in v['set']})
    if v['shared']:
        for m in mem:
            if m['kind'] == 'mx' and m['name'] == n['fa']:
                m['listed'] = 2 in v['set']
    pre = n['pre'] if v['prefix'] else ''
    src = '\n'.join(member_src(m['kind'], m['name'], m['val'], m['prop']) for m in mem) + '\n'
    items = []
    for m in mem:
        if m['listed']:
            it = ('$' if m['kind'] == 'var' else '') + pre + m['name']
            if it not in items:
                items.append(it)
    clause = ''
    if pre:
        clause += ' as %s*' % pre
    if v['clause'] != 'none':
        clause += ' %s %s' % (v['clause'], ', '.join(items))
    exposed = {}
    for m in mem:
        vis = True if v['clause'] == 'none' else (m['listed'] if v['clause'] == 'show' else not m['listed'])
        if vis:
            exposed[(m['kind'], norm(pre + m['name']))] = (m['val'], m['prop'])
    return src, clause, exposed, mem


def t_fwd(v, n):
    src, clause, exposed, mem = fwd_model(v, n)
    pre = n['pre'] if v['prefix'] else ''
    aas = {'default': None, 'star': '*'}[v['main_as']]
    ns = ns_of(n['mid'], aas)
    base = {'_%s.scss' % n['lib']: src, '_%s.scss' % n['mid']: '@forward "%s"%s;\n' % (n['lib'], clause)}
    sig0 = 'fwd|clause=%s|prefix=%s' % (v['clause'], 'yes' if pre else 'no')
    # candidate accesses: every member under its exposed name, under its original name when prefixed, one absent name
    cands = []
    for m in mem:
        cands.append((m['kind'], pre + m['name'], 'listed' if m['listed'] else 'not-listed', 'exposed-name'))
        if pre:
            cands.append((m['kind'], m['name'], 'listed' if m['listed'] else 'not-listed', 'original-name'))
    for k in KINDS:
        cands.append((k, pre + n['zz'], 'absent', 'absent-name'))
    probes = []
    done = set()
    for k, name, listed, how in cands:
        if (k, norm(name)) in done:
            continue
        done.add((k, norm(name)))
        hit = exposed.get((k, norm(name)))
        sig = sig0 + '|kind=%s|member=%s|name=%s' % (k, listed, how)
        if hit is not None:
            # visible: own compilation per kind keeps signatures narrow and still needs few jobs
            r = Reads()
            r.add(ns, k, name, hit[0], hit[1])
            files = dict(base)
            files['main.scss'] = use_line(n['mid'], aas) + '\n' + r.rule()
            probes.append(probe('%s:%s:%s' % (k, how, listed), files, 'value', r.want, sig))
            continue
        r, exp = denied(ns, k, name)
        files = dict(base)
        files['main.scss'] = use_line(n['mid'], aas) + '\n' + r.rule()
        probes.append(probe('%s:%s:%s' % (k, how, listed), files, exp, r.want, sig))
    return probes


# ----------------------------------------------------------------------------------------------------------------------
# template: builtin

def v_builtin(rng):
    for m in BUILTINS:
        for op in ('use-with', 'forward-with', 'assign-new', 'assign-new-as'):
            yield {'module': m, 'op': op}
    for var in MATH_VARS:
        for op in ('use-with', 'assign', 'assign-as', 'forward-with'):
            yield {'module': 'math', 'op': op, 'var': var}
    yield {'module': 'user', 'op': 'assign'}
    yield {'module': 'user', 'op': 'assign-new'}
    yield {'module': 'math', 'op': 'control'}


def t_builtin(v, n):
    m, op = v['module'], v['op']
    var = v.get('var') or n['zz']
    sig = 'builtin|%s|%s|variable=%s' % ('user-module' if m == 'user' else 'sass:' + m, op, 'existing' if v.get('var') else 'new')
    if m == 'user':
        lib = {'_%s.scss' % n['lib']: cfg_lib(n)}
        if op == 'assign':
            # contrast: a user module's variable can be assigned through the namespace, and the module sees it
            r = Reads()
            r.add(n['lib'] + '.', 'var', n['vd'], '777')
            r.add(n['lib'] + '.', 'fn', n['fr'], '777')
            r.add(n['lib'] + '.', 'var', n['vc'], str(n['vals'][0]))
            files = dict(lib)
            files['main.scss'] = '%s\n%s.$%s: 777;\n%s' % (use_line(n['lib']), n['lib'], n['vd'], r.rule())
            return [probe('assign', files, 'value', r.want, sig)]
        files = dict(lib)
        files['main.scss'] = '%s\n%s.$%s: 777;\n' % (use_line(n['lib']), n['lib'], n['zz'])
        return [probe('assign-undeclared', files, 'error', None, sig)]
    if op == 'control':
        files = {'main.scss': '@use "sass:math";\n.rq {\n  q1: math.$pi;\n  q2: math.$e;\n}\n'}
        return [probe('control', files, 'prefix', {'q:q1': '3.14159', 'q:q2': '2.71828'}, sig)]
    if op == 'use-with':
        main = '@use "sass:%s" with ($%s: 3);\n' % (m, var)
    elif op == 'forward-with':
        main = '@forward "sass:%s" with ($%s: 3);\n' % (m, var)
    elif op in ('assign', 'assign-new'):
        main = '@use "sass:%s";\n%s.$%s: 3;\n' % (m, m, var)
    else:
        main = '@use "sass:%s" as %s;\n%s.$%s: 3;\n' % (m, n['as'], n['as'], var)
    return [probe(op, {'main.scss': main + '.rq {\n  q1: 1;\n}\n'}, 'error', None, sig)]


# ----------------------------------------------------------------------------------------------------------------------
# template: private

def v_private(rng):
    for k in KINDS:
        for decl in '-_':
            for acc in '-_':
                for via in ('namespace', 'as-name', 'star', 'forward', 'forward-star'):
                    yield {'kind': k, 'decl': decl, 'acc': acc, 'via': via}


def t_private(v, n):
    k = v['kind']
    base_name, val, prop = member(n, k)
    dname, aname = v['decl'] + base_name, v['acc'] + base_name
    # the library uses its own private member (positive control) and exports a public function that reads it
    src = member_src(k, dname, val, prop) + '\n'
    rc = Reads('c')
    rc.add('', k, dname, val, prop)
    libsrc = src + rc.rule()
    lib = {'_%s.scss' % n['lib']: libsrc}
    via = v['via']
    if via in ('namespace', 'as-name', 'star'):
        as_ = {'namespace': None, 'as-name': n['as'], 'star': '*'}[via]
        head = use_line(n['lib'], as_) + '\n'
        ns = ns_of(n['lib'], as_)
        files0 = dict(lib)
    else:
        as_ = '*' if via == 'forward-star' else None
        head = use_line(n['mid'], as_) + '\n'
        ns = ns_of(n['mid'], as_)
        files0 = dict(lib)
        files0['_%s.scss' % n['mid']] = '@forward "%s";\n' % n['lib']
    sig = 'private|member-reached-from-outside'
    probes = []
    files = dict(files0)
    files['main.scss'] = head
    probes.append(probe('control', files, 'value', rc.want, 'private|used-inside-its-module'))
    r, exp = denied(ns, k, aname)
    files = dict(files0)
    files['main.scss'] = head + r.rule()
    probes.append(probe('access', files, exp, r.want, sig))
    return probes


# ----------------------------------------------------------------------------------------------------------------------

TEMPLATES = {
    'with': (v_with, t_with), 'fwith': (v_fwith, t_fwith), 'loaded': (v_loaded, t_loaded), 'ns': (v_ns, t_ns),
    'vis': (v_vis, t_vis), 'fwd': (v_fwd, t_fwd), 'builtin': (v_builtin, t_builtin), 'private': (v_private, t_private),
}
ORDER = ['with', 'fwith', 'loaded', 'ns', 'vis', 'builtin', 'private', 'fwd']


def all_cases(rng, style_of):
    """One pass over the whole template x variant table.  style_of(i) gives the name style of case i."""
    i = 0
    for t in ORDER:
        for v in TEMPLATES[t][0](rng):
            yield i, t, v
            i += 1


RULE_RE = re.compile(r'\.r([a-z])\s*\{([^{}]*)\}')


def observed_class(p, r):
    """-> (class, info): 'ok' (every wanted text is there), 'other-value', 'not-reachable', 'value-missing', 'error',
    'parse-error', 'panic'."""
    st = r.get('status')
    if st == 'ok':
        got = {}
        for rm in RULE_RE.finditer(r.get('out', '')):
            for m in DECL.finditer(rm.group(2)):
                got.setdefault('%s:%s' % (rm.group(1), m.group(1)), m.group(2).strip())
        cls = 'ok'
        for prop, want in p['want'].items():
            g = got.get(prop)
            if g is None:
                return 'value-missing', got
            if not (g.startswith(want) if p['exp'] == 'prefix' else g == want):
                # a call that reached no function is left as CSS text: the member was not reachable
                cls = 'not-reachable' if g.endswith('()') and not want.endswith('()') and cls != 'other-value' else 'other-value'
        return cls, got
    if st == 'err':
        return ('parse-error' if r.get('kind') == 'parse' else 'error'), (r.get('err') or '')[:300]
    return st, r.get('panic_msg')


def judge(ctx, case, p, r):
    ctx.ran()
    st = r.get('status')
    if st not in ('ok', 'err', 'panic'):
        ctx.undecided(str(st))
        return
    obs, info = observed_class(p, r)
    t = case['t']
    ctx.nontrivial((t, case['v'], p['id'], case['n']))
    ctx.seen('templates', t)
    ctx.seen('probe_classes', p['sig'])
    ctx.seen('outcomes', '%s: expected %s, observed %s' % (t, p['exp'], obs))
    ctx.seen('name_styles', case['n'].get('style'))
    refused = p['exp'] in ('error', 'plain')
    detail = {'probe': p['id'], 'files': p['files'], 'entry': p['entry'],
              'expected': {'error': 'an error', 'plain': 'plain CSS text (or an error), not a member: %s' % p['want']}.get(p['exp'], p['want']),
              'observed': info if st != 'ok' else r.get('out', '')[:400]}
    if st == 'panic':
        if refused:
            ctx.undecided('panic-where-refusal-expected', str(info)[:120])     # C01's business
        else:
            ctx.violation('%s|expected=value|observed=panic' % p['sig'], case, detail)
        return
    if refused:
        if st == 'err' or (p['exp'] == 'plain' and obs == 'ok'):
            return
        ctx.violation('%s|expected=refused|observed=accepted' % p['sig'], case, detail)
        return
    if obs == 'ok':
        return
    if obs == 'parse-error' and t == 'with' and case['v']['as'] != 'default':
        # `@use ... as x with (...)` refused by the parser: one defect, whatever is configured
        ctx.violation('use-syntax|as+with|as=%s|expected=accepted|observed=parse-error' % case['v']['as'], case, detail)
        return
    if obs in ('parse-error', 'error'):
        obs = 'not-reachable'
    ctx.violation('%s|expected=value|observed=%s' % (p['sig'], obs), case, detail)


def run_cases(ctx, cases):
    jobs, owners = [], []
    for c in cases:
        for p in TEMPLATES[c['t']][1](c['v'], c['n']):
            if c.get('only') and p['id'] != c['only']:
                continue
            jobs.append({'files': p['files'], 'entry': p['entry']})
            owners.append((c, p))
    res = ctx.batch(jobs) if jobs else []
    for (c, p), r in zip(owners, res):
        cc = dict(c, only=p['id'])
        judge(ctx, cc, p, r)
    return len(jobs)


def check_case(ctx, case):
    run_cases(ctx, [case])


def worker(ctx):
    rng = ctx.rng
    rnd = 0
    while True:
        # round 0 enumerates the whole table with plain names; later rounds repeat it with other name styles
        batch = []
        completed = True
        for i, t, v in all_cases(rng, None):
            if i % ctx.nshards != ctx.shard:
                continue
            style = 'plain' if rnd == 0 else rng.choice(['plain', 'dash', 'under', 'mixed', 'mixed'])
            n = gen_names(rng, style)
            if rnd > 0 and t == 'fwd' and rng.random() < 0.3:
                # a member whose own name starts with the prefix
                n['va'] = n['pre'] + n['va'] if n['pre'][-1:] in '-_' else n['va']
            batch.append({'t': t, 'v': v, 'n': n})
            if len(batch) >= 60:
                run_cases(ctx, batch)
                if not ctx.samples:
                    for c in batch[:1]:
                        ps = TEMPLATES[c['t']][1](c['v'], c['n'])
                        ctx.sample({'case': c, 'probe': ps[0]})
                batch = []
                if ctx.expired():
                    completed = False
                    break
        if batch and completed:
            run_cases(ctx, batch)
            if not ctx.samples:
                c = batch[0]
                ctx.sample({'case': c, 'probe': TEMPLATES[c['t']][1](c['v'], c['n'])[0]})
        if not completed:
            break
        if rnd == 0:
            ctx.stat('space_completed')
        rnd += 1
        ctx.stat('rounds_completed')
        if ctx.expired():
            break
