"""C07 - output is well framed and correctly encoded (safety monitor over every successful output)."""
import re
from .lib import css, corpus, proggen

PROP = 'C07'
LEVEL = 'exploration'
BUDGET = {'quick': 30, 'thorough': 600}
FLOOR = {'quick': 3000, 'thorough': 50000}
RULE = ('generated programs with non-ASCII text in every position, empty bodies and deep nests, plus the sass-spec '
        'corpus, each in both styles; a case counts when compilation succeeded with non-empty output and the source '
        'passes the precondition filter (balanced outside strings; no string with a delimiter, newline or backslash '
        'that interpolation/unquote could expose); distinct by hash of (source, style).  Oracle: final newline exactly '
        'once; {} [] () balanced outside strings/comments/url(); non-ASCII only behind @charset (expanded) / BOM '
        '(compressed); compressed output has no newline outside custom-property values and comments.')
LEVEL_TEXT = ('Safety monitor over outputs: a CSS scanner written for this purpose checks the framing rules on every '
              'successful output of the run (10^4..10^6 outputs).  Held = no framing or encoding violation observed.')
LEVEL_NOTE = 'Trusted: the CSS scanner (monitors/lib/css.py) and the precondition filter on sources. Only inputs produced by the generators/corpus are covered.'
DESIGN = 'C07'
TECHNIQUE = 'runtime monitoring: output-framing invariant checked on every successful compilation'
ASSUMPTIONS = ['sources whose strings contain delimiters that interpolation or unquote() could expose are skipped']

_STR = re.compile(r'"((?:[^"\\\n]|\\.)*)"|\'((?:[^\'\\\n]|\\.)*)\'', re.S)


def source_ok(src):
    if css.balance(re.sub(r'//[^\n]*', '', src)) is not None:
        return False
    risky = False
    for m in _STR.finditer(src):
        body = m.group(1) if m.group(1) is not None else m.group(2)
        if re.search(r'[{}()\[\]\\\n;]|/\*|\*/', body or ''):
            risky = True
            break
    if risky and ('#{' in src or 'unquote' in src or 'selector' in src or '@import' in src or 'url(' in src):
        return False
    if 'unquote' in src and re.search(r'[{}\[\]()]', ''.join((m.group(1) or m.group(2) or '') for m in _STR.finditer(src))):
        return False
    return True


def features(src):
    f = []
    if re.search(r'\\ ["\']', src) or re.search(r'\\20 ?["\']', src):
        f.append('escaped-space-ends-string')
    return f


def check_output(src, style, out):
    """Returns list of (signature, detail)."""
    v = []
    if out == '':
        return v
    if not out.endswith('\n'):
        v.append(('framing|no-final-newline', out[-40:]))
    elif out.endswith('\n\n'):
        v.append(('framing|more-than-one-final-newline', out[-40:]))
    body = out
    nonascii = any(ord(c) > 127 for c in out)
    if style == 'expanded':
        has = out.startswith('@charset "UTF-8";\n')
        rest = out[len('@charset "UTF-8";\n'):] if has else out
    else:
        has = out.startswith('﻿')
        rest = out[1:] if has else out
    if any(ord(c) > 127 for c in rest) and not has:
        v.append(('encoding|non-ascii-without-marker|' + style, out[:60]))
    if out.startswith('﻿') and style == 'expanded' and nonascii:
        v.append(('encoding|bom-in-expanded', out[:30]))
    if out.startswith('@charset') and style == 'compressed' and nonascii and not has:
        v.append(('encoding|charset-in-compressed', out[:30]))
    b = css.balance(rest)
    if b is not None:
        kind = re.sub(r"'.*", '', b).strip().replace('%r', '')
        kind = b.split(' ')[0] + ' ' + (b.split(' ')[1] if len(b.split(' ')) > 1 else '')
        sig = 'unbalanced|' + kind.strip()
        for f in features(src):
            sig += '|' + f
        v.append((sig, b))
    if style == 'compressed':
        # newlines allowed: the final one, inside custom-property values, inside comments
        t = rest[:-1] if rest.endswith('\n') else rest
        if '\n' in t:
            toks = css.scan(t)
            in_custom = False
            depth = 0
            prev_sig = None
            bad = None
            for i, (kind, tx) in enumerate(toks):
                if kind == 'other' and tx.startswith('--') and prev_sig in (None, '{', ';', '}'):
                    j = i + 1
                    while j < len(toks) and toks[j][0] in ('ws', 'other'):
                        j += 1
                    if j < len(toks) and toks[j] == ('punct', ':'):
                        in_custom = True
                        depth = 0
                if in_custom and kind == 'punct':
                    if tx in '{([':
                        depth += 1
                    elif tx in '})]':
                        if depth == 0:
                            in_custom = False
                        else:
                            depth -= 1
                    elif tx == ';' and depth == 0:
                        in_custom = False
                if '\n' in tx and kind != 'comment' and not in_custom:
                    bad = ''.join(x for _, x in toks[max(0, i - 3):i + 3])
                    # where: walk back to the start of the statement
                    j = i
                    while j > 0 and not (toks[j - 1][0] == 'punct' and toks[j - 1][1] in '{};'):
                        j -= 1
                    while j < i and toks[j][0] in ('ws', 'comment'):
                        j += 1
                    head = toks[j][1] if j < len(toks) else ''
                    # a statement that ends in '{' is a prelude, one with ':' before the newline a declaration
                    k = i
                    d2 = 0
                    end = None
                    while k < len(toks):
                        if toks[k][0] == 'punct' and toks[k][1] in '([':
                            d2 += 1
                        elif toks[k][0] == 'punct' and toks[k][1] in ')]':
                            d2 -= 1
                        elif toks[k][0] == 'punct' and toks[k][1] in '{};' and d2 <= 0:
                            end = toks[k][1]
                            break
                        k += 1
                    if head.startswith('@'):
                        name = head.lower()
                        known = ('@media', '@supports', '@import', '@keyframes', '@font-face', '@charset', '@namespace', '@page')
                        where = 'prelude-of-' + (name if name in known else 'unknown-at-rule')
                    elif end == '{':
                        where = 'selector'
                    else:
                        where = 'declaration'
                    break
                if kind != 'ws' and kind != 'comment':
                    prev_sig = tx
            if bad is not None:
                v.append(('compressed|newline-in-' + where, bad))
    return v


def check_cases(ctx, cases):
    jobs = [{'src': c['src'], 'style': c['style'], 'precision': c.get('precision', 10)} for c in cases]
    for c, r in zip(cases, ctx.batch(jobs)):
        ctx.ran()
        if r.get('status') != 'ok':
            ctx.stat('status_' + str(r.get('status')))
            continue
        out = r.get('out', '')
        if 'out_hex' in r:
            ctx.violation('encoding|output-not-utf8', c, r['out_hex'][:200])
            continue
        if out == '':
            ctx.stat('empty_output')
            continue
        ctx.nontrivial((c['src'], c['style']))
        ctx.stat('checked_' + c['style'])
        if any(ord(ch) > 127 for ch in out):
            ctx.stat('outputs_with_non_ascii')
        for sig, detail in check_output(c['src'], c['style'], out):
            ctx.violation(sig, c, {'problem': detail, 'out': out[:400]})


def check_case(ctx, case):
    check_cases(ctx, [case])


def deep_nest(rng):
    """2..62 nested blocks (at-rules are not merged by rsass, style rules are flattened): framing and indentation at depth."""
    d = rng.choice([2, 5, 10, 20, 30, 39, 40, 41, 42, 43, 45, 50, 55, 60, 62])
    kinds = rng.choice([['media'], ['media', 'supports'], ['media', 'rule'], ['media', 'supports', 'rule', 'unknown'], ['unknown'], ['rule']])
    open_, n_at = [], 0
    for i in range(d):
        k = rng.choice(kinds)
        if k == 'media':
            open_.append('@media (min-width: %dpx) {' % (i + 1))
        elif k == 'supports':
            open_.append('@supports (display: grid) {')
        elif k == 'unknown':
            open_.append('@foo bar%d {' % i)
        else:
            open_.append('.r%d {' % i)
    inner = rng.choice(['x { y: z; }', '.é { content: "ü"; }', '/* c */ x { y: z; w: 1px 2px; }', 'x { y: z; } q { r: s; }'])
    return ' '.join(open_) + ' ' + inner + ' ' + '}' * d


def worker(ctx):
    rng = ctx.rng
    corp = [c for c in corpus.load() if c['kind'] == 'ok']
    ci = ctx.shard
    first = True
    while not ctx.expired():
        batch = []
        for _ in range(60):
            k = rng.random()
            if k < 0.1:
                src = deep_nest(rng)
                fam = 'deep-nest'
            elif k < 0.6:
                src = proggen.program(rng, nonascii=rng.choice([0, 0.2, 0.6]))
                fam = 'generated'
            else:
                if ci >= len(corp) and ctx.quick:
                    ci = ctx.shard
                src = corp[ci % len(corp)]['src']
                ci += ctx.nshards
                fam = 'corpus'
            if not source_ok(src):
                ctx.stat('skipped_by_precondition')
                continue
            for style in ('expanded', 'compressed'):
                batch.append({'family': fam, 'src': src, 'style': style, 'precision': rng.choice([10, 10, 5, 0, 20])})
        check_cases(ctx, batch)
        if first and batch:
            ctx.sample(batch[0]); first = False
    ctx.stat('space_completed')
