"""C39 - loader failures are reported, never absorbed (exhaustive single-fault injection + random multi-fault plans)."""
import re
from .lib import loadgraph as lg

PROP = 'C39'
LEVEL = 'fault_enumeration'
BUDGET = {'quick': 20, 'thorough': 400}
FLOOR = {'quick': 5000, 'thorough': 100000}
RULE = ('random acyclic file graphs of 2..4 files using @use, @forward, @import and meta.load-css, with the load statements placed '
        'at top level, nested in a style rule (@import), inside a user mixin, an @if or an @each that runs twice (load-css), with '
        '"with" configuration on some @use, and with plain-CSS targets.  For every graph the fault-free run is recorded through the '
        'logging in-memory loader (N lookups, M reads); then ONE run per lookup index k in [0,N) with lookup k failing and one per read '
        'index j in [0,M) with read j failing (exhaustive single faults for that graph), plus random plans of 2..3 faults; after every '
        'faulted run the same job is run again with a fresh fault-free loader in the same process.  A case is (graph, fault plan); it is '
        'non-trivial when the loader reports that an injected fault was reached.  Oracle: a run that reached an injected fault returns '
        'an error value (not CSS, not a panic, not a process death); the following fault-free run returns exactly the baseline bytes.')
LEVEL_TEXT = ('Fault enumeration: every single loader-call index of every generated graph is failed once (lookups and reads), with the '
              'real Context/Loader plumbing executing; the oracle needs no model beyond "reached fault => Err" and byte equality with the '
              'fault-free baseline afterwards.')
LEVEL_NOTE = ('Trusted: the fault-injecting in-memory loader of the harness (it counts calls, fails the planned indices and reports whether '
              'a planned fault was reached).  Single faults are exhaustive per generated graph; the graphs themselves are sampled.')
TECHNIQUE = 'runtime monitoring: exhaustive single-fault injection at every loader call index, plus random multi-fault plans, with recovery check'

WRAPS = {'import': ['plain', 'in-rule'], 'load-css': ['plain', 'in-mixin', 'in-if', 'in-each'], 'use': ['plain', 'with'], 'forward': ['plain']}


def gen_case(rng):
    n = rng.choice([2, 3, 3, 4, 4])
    g = lg.random_graph(rng, n, max_out=2, acyclic=True, p_edge=0.85, variants=('plain', 'dot', 'updown', 'ext', 'underscore', 'rootrel', 'rootrel'))
    for es in g['edges']:
        for e in es:
            e.append(rng.choice(WRAPS[e[0]]))
    # add a plain css file and import it from the entry: by its name, or by its name with the .css extension (a url that would
    # become a plain-CSS @import if the file did not exist - a failing lookup must not turn it into one)
    g['css'] = rng.choice([None, None, None, 'plain', 'plain.css', 'plain.css'])
    return g


def render(g):
    files = dict(lg.KEEP)
    for i, path in enumerate(g['files']):
        head, tail = [], []
        if any(e[0] == 'load-css' for e in g['edges'][i]):
            head.append('@use "sass:meta";')
        n = 0
        cfg_used = False
        for e in g['edges'][i]:
            k, t, v, w = e
            url = lg.spell(path, g['files'][t], v)
            if k == 'use':
                n += 1
                if w == 'with' and not cfg_used and not any(ee[1] == t for ee in g['edges'][i] if ee is not e):
                    # configure only a module that nobody else loads first (otherwise "already loaded" is the legitimate outcome)
                    head.append('@use "%s" with ($k%d: 2);' % (url, t))
                    cfg_used = True
                else:
                    head.append('@use "%s" as n%d;' % (url, n))
            elif k == 'forward':
                head.append('@forward "%s";' % url)
            elif k == 'import':
                tail.append('.w%d { @import "%s"; }' % (i, url) if w == 'in-rule' else '@import "%s";' % url)
            else:
                inc = '@include meta.load-css("%s");' % url
                if w == 'in-mixin':
                    tail.append('@mixin ld%d_%d { %s } @include ld%d_%d;' % (i, len(tail), inc, i, len(tail)))
                elif w == 'in-if':
                    tail.append('@if 1 + 1 == 2 { %s }' % inc)
                elif w == 'in-each':
                    tail.append('@each $q in a b { %s }' % inc)
                else:
                    tail.append(inc)
        body = '$k%d: 1 !default;\n.f%d{x:$k%d}' % (i, i, i)
        files[path] = '\n'.join(head + [body] + tail) + '\n'
    if g.get('css'):
        files['plain.css'] = '.p{x:y}\n'
        files[g['files'][0]] += '@import "%s";\n' % (g['css'] if isinstance(g['css'], str) else 'plain')
    return files


def cand_class(name):
    for suf, cls in (('.import.scss', 'import-only'), ('/_index.scss', 'index'), ('/index.scss', 'index'), ('.css', 'css'), ('.scss', 'scss')):
        if name.endswith(suf):
            return cls + ('-partial' if name.rsplit('/', 1)[-1].startswith('_') else '')
    return 'other'


def check_case(ctx, case):
    g = case['graph']
    files = render(g)
    base_job = {'files': files, 'entry': g['files'][0]}
    plans = case.get('plans')
    base = ctx.compile(**base_job)
    if base.get('status') not in ('ok', 'err'):
        ctx.undecided('baseline-' + str(base.get('status')))
        return
    if base.get('status') == 'err':
        ctx.stat('baseline_is_error')
        ctx.undecided('baseline-is-error', (base.get('err') or '')[:160].replace('\n', ' | '))
        return
    N, M = base.get('finds', 0), base.get('reads', 0)
    calls = base.get('calls', [])
    find_names = [c[1] for c in calls if c[0] == 'find']
    read_names = [c[1] for c in calls if c[0] == 'read']
    if plans is None:
        plans = [{'find': [k], 'read': []} for k in range(N)] + [{'find': [], 'read': [j]} for j in range(M)]
        for _ in range(3):
            plans.append({'find': sorted(ctx.rng.sample(range(N), min(N, ctx.rng.randint(0, 2)))),
                          'read': sorted(ctx.rng.sample(range(M), min(M, ctx.rng.randint(1, 2))))})
        case = dict(case, plans=plans)
    jobs = []
    for p in plans:
        jobs.append(dict(base_job, fault=p))
        jobs.append(base_job)
    res = ctx.batch(jobs)
    for kinds in g['edges']:
        for e in kinds:
            ctx.seen('load_shapes', '%s/%s' % (e[0], e[3]))
    for idx, p in enumerate(plans):
        r, again = res[2 * idx], res[2 * idx + 1]
        ctx.ran()
        single = len(p['find']) + len(p['read']) == 1
        st = r.get('status')
        if st in ('timeout', 'harness-error'):
            ctx.undecided(st)
            continue
        hit = r.get('faults_hit', 0)
        if st == 'crash':
            hit = 1                      # the process died with the fault plan active
        if not hit:
            ctx.stat('fault_not_reached')
            continue
        ctx.nontrivial({'g': g, 'p': p})
        one = {'graph': g, 'plans': [p]}
        if p['find'] and single:
            what, cls = 'lookup', cand_class(find_names[p['find'][0]]) if p['find'][0] < len(find_names) else 'other'
        elif p['read'] and single:
            what, cls = 'read', cand_class(read_names[p['read'][0]]) if p['read'][0] < len(read_names) else 'other'
        else:
            what, cls = 'multi', 'multi'
        ctx.seen('faulted', '%s:%s' % (what, cls))
        ctx.stat('fault_reached:' + what)
        if st != 'err':
            obs = {'ok': 'css-returned', 'panic': 'panic', 'crash': 'process-death'}.get(st, st)
            if st == 'ok':
                obs += '-equal-to-baseline' if r.get('out') == base.get('out') else '-partial'
            ctx.violation('fault=%s|candidate=%s|observed=%s' % (what, cls, obs), one,
                          {'plan': p, 'status': st, 'out': (r.get('out') or '')[:300], 'panic': r.get('panic_msg'), 'calls': r.get('calls', [])[-6:],
                           'files': files})
            continue
        ctx.seen('error_kinds', r.get('kind'))
        if again.get('status') in ('timeout', 'harness-error', 'crash'):
            ctx.undecided('recovery-run-' + again.get('status'))
        elif again.get('status') != 'ok' or again.get('out') != base.get('out'):
            ctx.violation('recovery|later-fault-free-compilation-differs', one,
                          {'plan': p, 'after': {k: again.get(k) for k in ('status', 'out', 'err')}, 'baseline': base.get('out', '')[:300]})
    return case


def worker(ctx):
    first = True
    while not ctx.expired():
        g = gen_case(ctx.rng)
        case = check_case(ctx, {'graph': g})
        ctx.stat('graphs')
        if first and case:
            ctx.sample({'graph': g, 'files': render(g), 'plans': case['plans'][:4]})
            first = False
