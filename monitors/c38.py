"""C38 - library entry points agree with each other (relational monitor over the public API)."""
import os, shutil, tempfile
from .lib import gen, proggen, css, corpus
from .lib.driver import outbytes

PROP = 'C38'
LEVEL = 'exploration'
BUDGET = {'quick': 25, 'thorough': 400}
FLOOR = {'quick': 1000, 'thorough': 30000}
RULE = ('generated stylesheets, sass-spec corpus inputs (those that load no file) and hostile byte strings, each with a style in '
        '{expanded, compressed} and a precision in 0..=20: (1) compile_scss(bytes) is compared with FsContext::for_cwd().transform('
        'SourceFile::scss_bytes(bytes)); (2) the bytes are written to a file in a scratch directory and compile_scss_path(file) is '
        'compared with compile_scss(bytes); (3) generated values v: compile_value(v) is compared with the text after `y: ` in the '
        'output of `x{y:v}` whenever that stylesheet compiles to exactly one declaration.  Distinct by (input, style, precision, '
        'relation).  Non-trivial = the input compiles to non-empty CSS or fails with an error (both outcomes are compared).  Oracle: '
        'equal status, equal output bytes; for errors the same error variant and the same first line of the message (positions name '
        'the source differently: "-" vs the file name).')
LEVEL_TEXT = ('Relational monitor: the entry points are executed on the same bytes and their results compared; no model of the '
              'compiler is needed, so any disagreement is a violation.')
LEVEL_NOTE = 'Trusted: the driver\'s mapping of the job field "api" to the four entry points.  Inputs that load files by relative url are left out (the statement excludes them).'
TECHNIQUE = 'runtime monitoring: differential comparison of public entry points on identical inputs'
ASSUMPTIONS = ['scratch directories are created under $TMPDIR (or /tmp) by the check itself and removed when it ends']

import re
NONDET = re.compile(r'random|unique[-_]id', re.I)
LOADS = ('@import', '@use', '@forward', 'load-css', 'load_css')
VALUES = [v for v in gen.HOSTILE_VALUES if '$undefined' not in v]
# values whose text is produced DURING evaluation (interpolation, string concatenation): the format of the scope matters there
FORMAT_SENSITIVE = ['"w-#{(1/3)}"', 'a#{0.5}b', '"#{(a, b)}"', '"#{0.75}"', '#{(1/3)}px', '"x" + 0.5', 'a + (2/3)', '"#{(1, 2, 3)}"',
                    'x#{(0.125)}', '"#{1/3} #{0.5}"', 'unquote("#{.5}")', '"#{(a b, c d)}"', 'w#{(2/3)}-#{(1/7)}', '"#{-0.5}"']


def first_line(r):
    return (r.get('err') or '').split('\n', 1)[0]


def same(a, b):
    if a.get('status') != b.get('status'):
        return False
    if a.get('status') == 'ok':
        return outbytes(a) == outbytes(b)
    if a.get('status') == 'err':
        return a.get('kind') == b.get('kind') and first_line(a) == first_line(b)
    return True


def usable(*rs):
    return all(r.get('status') in ('ok', 'err') for r in rs)


def check_case(ctx, case):
    fmt = {'style': case['style'], 'precision': case['precision']}
    if case['rel'] == 'value':
        v = case['value']
        a = ctx.compile(api='value', src=v, **fmt)
        b = ctx.compile(api='compile_scss', src='x{y:%s}' % v, **fmt)
        ctx.ran()
        if not usable(a, b):
            ctx.undecided('run-unusable')
            return
        if b['status'] != 'ok':
            ctx.stat('value:declaration-does-not-compile')
            return
        out = css.strip_header(b.get('out', ''))
        if case['style'] == 'expanded':
            m = out.startswith('x {\n  y: ') and out.endswith(';\n}\n') and out.count('\n') == 3
            text = out[len('x {\n  y: '):-len(';\n}\n')] if m else None
        else:
            m = out.startswith('x{y:') and out.endswith('}\n') and out.count('\n') == 1
            text = out[len('x{y:'):-len('}\n')] if m else None
        if text is None:
            ctx.stat('value:not-exactly-one-declaration')
            return
        ctx.nontrivial(case)
        ctx.seen('value_outcomes', a['status'])
        if a['status'] != 'ok':
            ctx.violation('compile_value|fails-where-the-declaration-compiles|%s' % a.get('kind'), case, {'declaration_value': text, 'error': first_line(a)})
        elif a.get('out') != text:
            ctx.violation('compile_value|text-differs-from-declaration|%s' % case['style'], case, {'declaration_value': text, 'compile_value': a.get('out')})
        return
    src = case['src']
    a = ctx.compile(api='compile_scss', src=src, **fmt)
    if case['rel'] == 'cwd':
        b = ctx.compile(api='cwd', src=src, **fmt)
    else:
        d = tempfile.mkdtemp(prefix='verif-c38-')
        try:
            p = os.path.join(d, 'in.scss')
            with open(p, 'wb') as f:
                f.write(src.encode('utf-8') if isinstance(src, str) else bytes.fromhex(src['hex']))
            b = ctx.compile(api='path', path=p, **fmt)
        finally:
            shutil.rmtree(d, ignore_errors=True)
    ctx.ran()
    if not usable(a, b):
        ctx.undecided('run-unusable')
        return
    if a['status'] == 'err' or a.get('out'):
        ctx.nontrivial(case)
    ctx.seen('outcomes', '%s:%s' % (case['rel'], a['status']))
    if not same(a, b):
        what = 'status' if a['status'] != b['status'] else ('output' if a['status'] == 'ok' else 'error')
        ctx.violation('compile_scss-vs-%s|%s-differs' % ('for_cwd-transform' if case['rel'] == 'cwd' else 'compile_scss_path', what), case,
                      {'compile_scss': {k: a.get(k) for k in ('status', 'out', 'err', 'kind')}, 'other': {k: b.get(k) for k in ('status', 'out', 'err', 'kind')}})


def worker(ctx):
    r = ctx.rng
    corp = [c['src'] for c in corpus.load() if not c['mock'] and not any(l in c['src'] for l in LOADS) and len(c['src']) < 3000]
    first = True
    while not ctx.expired():
        for _ in range(40):
            k = r.random()
            fmt = {'style': r.choice(['expanded', 'compressed']), 'precision': r.randint(0, 20)}
            if k < 0.35:
                kv = r.random()
                v = r.choice(FORMAT_SENSITIVE) if kv < 0.25 else r.choice(VALUES) if kv < 0.6 else gen.hostile_value(r)
                bare = re.sub(r'#\{[^{}]*\}', '', v)       # interpolation is fine; a stray brace would end the declaration
                if '$undefined' in v or ';' in v or '{' in bare or '}' in bare or '&' in v or NONDET.search(v):
                    continue          # `&` is the parent selector (not a css value); random()/unique-id() differ per call
                case = dict(fmt, rel='value', value=v)
            else:
                kk = r.random()
                if kk < 0.45:
                    src = proggen.program(r, nonascii=0.2 if r.random() < 0.3 else 0.0)
                elif kk < 0.85:
                    src = r.choice(corp)
                else:
                    src = 'a { b: %s; }' % gen.hostile_value(r)
                if NONDET.search(src):
                    continue
                if any(l in src for l in LOADS if l != '@use') or '@use "' in src.replace('@use "sass:', '') or "@use '" in src.replace("@use 'sass:", ''):
                    continue
                case = dict(fmt, rel=r.choice(['cwd', 'path']), src=src)
            if first:
                ctx.sample(case)
                first = False
            check_case(ctx, case)
