"""C01 - compilation never panics or aborts (safety monitor over job status events)."""
import re
from .lib import gen, corpus
from .lib.driver import src as enc

PROP = 'C01'
LEVEL = 'exploration'
BUDGET = {'quick': 40, 'thorough': 900}
FLOOR = {'quick': 3000, 'thorough': 100000}
RULE = ('inputs: hazard-directed grammar families (parent-selector suffixes, non-finite colors, @for bounds at the '
        'i64 limits, unit powers, mixed nests up to combined depth 64, hostile arguments to every built-in '
        'function, error-rendering stressors, malformed UTF-8), truncations/byte mutations/splices of the sass-spec '
        'corpus, and the corpus itself; each compiled as SCSS and as CSS, both styles, precision 0..=20, on an 8 MiB '
        'stack in a checked-arithmetic build.  A case is counted when it is inside the precondition (<= 64 KiB, '
        'lexical nesting depth <= 64 counting every { ( [ ) and produced a definite status; distinct by hash of '
        '(bytes, syntax, style, precision).  Oracle: status is ok or err, the error renders with Display and Debug; '
        'never panic, never a signal.  Watchdog kills are inconclusive.')
LEVEL_TEXT = ('Safety monitor: every generated, mutated and corpus input is executed by the real library on an 8 MiB '
              'stack in a checked-arithmetic build and the job status is observed; held means no panic, abort or '
              'stack overflow on the ~10^5 (quick) / ~10^6 (thorough) distinct in-precondition inputs of this run.')
LEVEL_NOTE = ('Says nothing about inputs the generators do not produce. Trusted: the driver (catch_unwind, panic hook, '
              'process-death attribution) and the lexical depth measure. Watchdog kills are inconclusive.')
TECHNIQUE = 'runtime monitoring: panic/abort/signal observation under grammar-directed and mutation workloads'
ASSUMPTIONS = ['lexical nesting depth over-approximates the real nesting, so counted inputs are inside the precondition',
               'a panic that only a checked-arithmetic build shows is a panic (cargo test uses that configuration)']

# Inputs that failed on the pinned tree during design: always part of the workload, so that a known finding is
# reported (or seen to be gone) on every run.
WITNESSES = [
    '*{&b{x:y}}',
    '@media x{' * 41 + 'a{b:c}' + '}' * 41,
    'a{b: hsl(math.div(0,0),1%,1%) == hsl(math.div(0,0),1%,1%)}',
    '@use "sass:math"; a{b: hsl(math.div(0,0),1%,1%) == hsl(math.div(0,0),1%,1%)}',
    'a{@for $i from 9223372036854775806 through 9223372036854775807 {b: $i}}',
    '$x:1px; @for $i from 1 through 8 {$x: $x*$x !global} a{b:$x}',
    'a{$x:1px; @for $i from 1 through 8 {$x: $x*$x} b:$x}',
    '@function f(){@return f()} a{b:f()}',
    '@mixin m{@include m} a{@include m}',
    '$c: call(get-function("calc", $css: true), 1, 2); a{b: calc($c)}',
    'a{b: ' + '+'.join(['1'] * 30000) + '}',
    'a{b: ' + '*'.join(['2'] * 30000) + '}',
    ' '.join(['.a'] * 20000) + '{b:c}',
]


def norm_loc(loc):
    loc = re.sub(r':\d+$', '', loc or '')
    for key in ('rsass/src/', 'rsass-cli/src/', '/library/', '/registry/src/'):
        i = loc.find(key)
        if i >= 0:
            loc = loc[i + len(key) if key.startswith('rsass') else i + 1:]
            if key == '/registry/src/':
                loc = loc.split('/', 3)[-1]     # drop the host-specific registry directory
            break
    return loc


def norm_msg(msg):
    msg = (msg or '').split('{')[0].split('"')[0]
    msg = re.sub(r'\d+', '#', msg)
    return msg.strip()[:70]


def signature(case, r):
    st = r.get('status')
    if st == 'panic':
        where = r.get('where', 'compile')
        loc = r.get('panic_loc') or ''
        if 'rsass/src/' not in loc and r.get('panic_fn'):
            # panic raised inside std or a dependency: name the rsass function that called into it
            place = 'in ' + re.sub(r'::\{\{closure\}\}|<|>', '', r['panic_fn'])[:90]
        else:
            place = norm_loc(loc)
        return '%s|%s|%s' % ('panic' if where == 'compile' else 'panic-rendering-error-' + where,
                             place, norm_msg(r.get('panic_msg')))
    if st == 'crash':
        s = 'abort|%s' % (r.get('signal') or r.get('rc'))
        if gen.recursion_suspect(case_text(case)):
            s += '|user-level-recursion'
        elif case.get('family') in ('longflat', 'witness'):
            t = case_text(case)
            flat = longflat_kind(t)
            if flat:
                s += '|long-flat-' + flat
        return s
    return None


def longflat_kind(t):
    """which kind of long flat chain (>= 5000 operands) the input is, if any - computed from the input text"""
    if len(t) < 10000 or gen.nest_depth(t) > 3:
        return None
    for name, pat in (('sum', r'(?:\d\+){5000}'), ('product', r'(?:\d\*){5000}'), ('minus', r'(?:\d - ){5000}'), ('descendant', r'(?:\.a ){5000}'),
                      ('child', r'(?:\.a>){5000}'), ('string-concat', r'(?:"s"\+){3000}'), ('and', r'(?:true and ){3000}'), ('eq-chain', r'(?:\d == ){3000}')):
        if re.search(pat, t):
            return name
    return 'other'


def case_bytes(case):
    s = case['src']
    if isinstance(s, dict):
        return bytes.fromhex(s['hex'])
    return s.encode('utf-8')


def case_text(case):
    t = case_bytes(case).decode('utf-8', 'replace')
    for v in (case.get('files') or {}).values():
        t += '\n' + (v if isinstance(v, str) else '')
    return t


def job_of(case):
    j = {'src': case['src'], 'syntax': case['syntax'], 'style': case['style'], 'precision': case['precision'],
         'entry': 'main.scss'}
    if case.get('files'):
        j['files'] = case['files']
    return j


def in_precondition(case):
    b = case_bytes(case)
    if len(b) > 65536 or gen.nest_depth(b) > 64:
        return False
    for v in (case.get('files') or {}).values():
        vb = v.encode() if isinstance(v, str) else bytes.fromhex(v['hex'])
        if len(vb) > 65536 or gen.nest_depth(vb) > 64:
            return False
    return True


def judge(ctx, case, r):
    st = r.get('status')
    ctx.ran()
    if st in ('ok', 'err'):
        ctx.nontrivial((case['src'], case['syntax'], case['style'], case['precision']))
        ctx.stat('status_' + st)
        ctx.stat('family_' + case.get('family', '?'))
        if st == 'err':
            ctx.seen('error_kinds', r.get('kind', '?'))
        return
    if st == 'timeout':
        ctx.undecided('watchdog', 'family=%s src=%s' % (case.get('family'), str(case['src'])[:300]))
        return
    if st == 'harness-error':
        ctx.undecided('harness-error')
        return
    sig = signature(case, r)
    if sig:
        ctx.nontrivial((case['src'], case['syntax'], case['style'], case['precision']))
        ctx.violation(sig, case, {k: r.get(k) for k in ('status', 'where', 'panic_msg', 'panic_loc', 'panic_fn', 'signal', 'rc')})


def check_cases(ctx, cases):
    cases = [c for c in cases if in_precondition(c)]
    res = ctx.batch([job_of(c) for c in cases], timeout=4 if ctx.quick else 10)
    for c, r in zip(cases, res):
        judge(ctx, c, r)


def check_case(ctx, case):
    check_cases(ctx, [case])


# ------------------------------------------------------------------ generators

PARENTS = ['*', ':hover', '::before', '[a]', '[a="b"]', 'a + b', 'a >', '> a', '%p', 'a b', '.a', '#a', 'a, b',
           ':not(a)', ':is(a, b)', 'a:hover', '*|a', 'a|*', '|a', '&', '@at-root x', '100%', 'from', 'a::after',
           ':nth-child(2n+1)', ':not(*)', '*.a', '[a]:b', '~ a', 'a ~', '+', 'é', '\\31 a', 'a\\,b']
SUFFIXES = ['&b', '&-x', '&_y', '&1', '&.c', '&:d', '&[e]', '&#f', '&', '& &', '&&', '&b&', 'a&', '.a&', '& > &',
            ':not(&)', ':is(&, &b)', '&::before', '&:not(&-x)', '& + &b', '*&', '&*', '&|a', '[&]', '&%p',
            '#{&}b', '@at-root &b', '@at-root #{&}b', '&é', '&\\31', '&--', '&-', '&__x', '&100%']


def fam_amp(rng):
    p = rng.choice(PARENTS)
    s = rng.choice(SUFFIXES)
    r = rng.random()
    if r < 0.55:
        return '%s{%s{x:y}}' % (p, s)
    if r < 0.7:
        return '%s{%s{%s{x:y}}}' % (p, rng.choice(SUFFIXES), s)
    if r < 0.8:
        return '%s{@media print{%s{x:y}}}' % (p, s)
    if r < 0.9:
        f = rng.choice(['selector.append', 'selector.nest', 'selector.unify', 'selector.extend', 'selector.replace',
                        'selector.is-superselector', 'selector.parse', 'selector.simple-selectors'])
        args = [p, s.replace('&', rng.choice(['', 'c', '*']))][:rng.choice([1, 2, 2])]
        if 'extend' in f or 'replace' in f:
            args.append(rng.choice(PARENTS))
        return '@use "sass:selector"; a{b: %s(%s)}' % (f, ', '.join('"%s"' % a.replace('"', "'") for a in args))
    return '%s{@at-root{%s{x:y}} @extend %s; }' % (p, s, rng.choice(PARENTS))


NONFINITE = ['math.div(0,0)', 'math.div(1,0)', 'math.div(-1,0)', '-1*math.div(0,0)', '1e308*10', 'math.sqrt(-1)',
             'math.log(0)', 'math.acos(2)', '1e300', '-1e300', '1e-320']


def fam_color(rng):
    def ch(): return rng.choice(NONFINITE + ['1', '50%', '0', '255', '-1', '1e3'])
    ctor = rng.choice(['hsl(%s, %s, %s)', 'rgb(%s, %s, %s)', 'hwb(%s %s %s)', 'hsla(%s, %s, %s, .5)',
                       'rgba(%s, %s, %s, 0.5)', 'hsl(%s %s %s)', 'rgb(%s %s %s)'])
    c = ctor % (ch(), ch() if 'rgb' in ctor else rng.choice(['1%', '50%', ch()]),
                ch() if 'rgb' in ctor else rng.choice(['1%', '50%', ch()]))
    if rng.random() < 0.3:
        c = rng.choice(['rgba(red, %s)', 'color.change(red, $alpha: %s)', 'color.adjust(red, $hue: %s)',
                        'color.scale(red, $lightness: %s)', 'adjust-hue(red, %s)', 'lighten(red, %s)',
                        'mix(red, blue, %s)', 'color.change(red, $saturation: %s)', 'opacify(red, %s)']) % ch()
    uses = ['$c == $c', '$c != $c', '$c == red', 'red == $c', 'index(($c, red), $c)', 'map.get(($c: 1), $c)',
            'map.merge(($c: 1), ($c: 2))', '$c', 'inspect($c)', 'lighten($c, 10%)', 'mix($c, $c)', 'mix($c, red, 50%)',
            'color.hue($c)', 'color.whiteness($c)', 'color.blackness($c)', 'red($c)', 'alpha($c)', 'invert($c)',
            'complement($c)', 'grayscale($c)', 'ie-hex-str($c)', 'color.adjust($c, $red: 1)', '$c + 1', '$c < $c',
            'list.index($c red, red)', 'map.has-key((red: 1), $c)', '(a: $c) == (a: $c)', '[$c] == [$c]',
            'color.scale($c, $lightness: 10%)', 'color.change($c, $hue: 10)', 'saturation($c)', 'max($c, $c)',
            'hsl(hue($c), saturation($c), lightness($c))', 'rgba($c, .5)', 'if($c == $c, a, b)', '#{$c}',
            'string.length(inspect($c))', 'math.round(hue($c))', 'adjust-hue($c, 10deg)', 'opacity($c)',
            'color.hwb(hue($c), color.whiteness($c), color.blackness($c))', 'fade-out($c, .1)']
    k = rng.randint(1, 4)
    return gen.USE_ALL + '$c: %s; a{%s}' % (c, ' '.join('p%d: %s;' % (i, rng.choice(uses)) for i in range(k)))


def fam_for(rng):
    base = rng.choice([2 ** 63 - 1, -2 ** 63, 2 ** 63, 2 ** 62, 2 ** 53, 2 ** 31, 2 ** 32, 0, 2 ** 63 - 2, -2 ** 63 + 1,
                       10 ** 19, -10 ** 19, 2 ** 64])
    a = base + rng.randint(-3, 3)
    b = a + rng.randint(-3, 3)
    if rng.random() < 0.15:
        b = rng.choice(['math.div(1,0)', 'math.div(0,0)', '1.5', '-math.div(1,0)', '2.0000000001'])
        a = rng.choice([a, 0, 1])
    u1 = rng.choice(['', '', 'px', 'in', '%', 'x'])
    u2 = rng.choice(['', '', u1, 's', 'x'])
    if abs(base) < 100 and rng.random() < 0.5:
        u1, u2 = rng.choice([('in', 'cm'), ('px', 'in'), ('cm', 'mm'), ('s', 'ms'), ('deg', 'turn')])
    if rng.random() < 0.5:
        a, b = b, a
    return '@use "sass:math"; a{@for $i from %s%s %s %s%s {b: $i}}' % (a, u1, rng.choice(['to', 'through']), b, u2)


def fam_units(rng):
    u = rng.choice(['px', 'em', 'in', 's', 'deg', '%', 'x', 'dpi'])
    u2 = rng.choice(['px', 'cm', 'ms', 'rad', 'y', 'Hz', 'dppx'])
    k = rng.randint(1, 10)
    op = rng.choice(['$x*$x', '$x*$x*$x', 'math.div(1,$x)*math.div(1,$x)', '$x*$y', 'math.div($x,$y)*math.div($x,$y)',
                     'math.div($x*$x, $y)', '$x*1%s' % u2, 'math.div(1%s, $x*$x)' % u2])
    use = rng.choice(['$x', 'inspect($x)', '$x == $x', '$x < $x', 'math.div($x,$x)', '$x + $x', 'math.unit($x)',
                      'math.is-unitless($x)', 'math.compatible($x, $y)', '$x * 0', 'math.abs($x)', 'math.max($x,$y)',
                      '$x - $y', 'math.sqrt($x)', 'math.pow($x, 2)', 'calc($x + 1px)', 'math.div($x, $x * $x)'])
    return ('@use "sass:math"; $x:1%s; $y: 2%s; @for $i from 1 through %d {$x: %s !global} a{b:%s}' % (u, u2, k, op, use))


BLOCK_OPEN = ['a{', '.a,b{', '&-x{', '@media x{', '@media (a:b) and (c:d){', '@supports (a:b){', '@at-root{',
              '@at-root .z{', '@if true{', '@each $i in 1{', '@for $i from 1 through 1{', '@x y{', '@keyframes k{',
              'b:{', '@font-face{', '@include m{', '@while $w{$w:false;', '@-moz-document x{', ':is(&){']
VAL_OPEN = ['(', 'f(', 'calc(', '#{', '[', 'min(', 'if(true,', 'not(', 'math.abs(', 'string.quote(', 'url(#{', '-(',
            'selector.parse(', '(a:']


def fam_nest(rng):
    total = rng.choice([8, 20, 40, 41, 42, 50, 60, 62, 63, 64])
    d1 = rng.randint(0, total)
    if rng.random() < 0.3:
        d1 = total
    opens = [rng.choice(BLOCK_OPEN[:5]) if rng.random() < 0.6 else rng.choice(BLOCK_OPEN) for _ in range(d1)]
    if rng.random() < 0.3:
        opens = [rng.choice(BLOCK_OPEN[:8])] * d1
    # selector lists multiply: keep at most 5 list-valued levels (2^5 selectors)
    lists = 0
    for i, o in enumerate(opens):
        if ',' in o:
            lists += 1
            if lists > 5:
                opens[i] = 'a{'
    s = '@use "sass:math";@use "sass:string";@use "sass:selector";@mixin m{@content} $w:true;'
    body = ''.join(opens)
    d2 = total - d1
    vopens, close = [], []
    budget = d2
    # mixed openers make the parser backtrack exponentially (slow, not wrong): at most 12 mixed levels,
    # the rest of the depth budget is one homogeneous opener
    mixed = rng.randint(0, 12)
    homog = rng.choice(['(', '(', '[', 'f(', 'calc(', '#{', 'min(', 'not('])
    while budget > 0:
        o = (rng.choice(VAL_OPEN) if rng.random() < 0.7 else '(') if len(vopens) < mixed else homog
        n = gen.open_count(o)
        if n > budget:
            o = '('
            n = 1
        vopens.append(o)
        close.append({'(': ')', '[': ']', '{': '}'}[o[-1]] if o[-1] in '([{' else ')')
        budget -= n
    if rng.random() < 0.5:
        vopens.reverse()
        close.reverse()
    val = ''.join(vopens) + rng.choice(['1', 'a', '1px', '$w', '"s"', '&']) + ''.join(
        (c + ')' * (gen.open_count(o) - 1)) if gen.open_count(o) > 1 else c for o, c in zip(reversed(vopens), reversed(close)))
    where = rng.choice(['decl', 'decl', 'sel', 'prop', 'at', 'var'])
    inner = {'decl': 'p: %s;' % val, 'sel': '#{%s}{x:y}' % val if d2 else 'x:y;', 'prop': '#{%s}: v;' % val if d2 else 'x:y;',
             'at': '@media #{%s}{x:y}' % val if d2 else 'x:y;', 'var': '$v: %s; p: $v;' % val}[where]
    closers = '}' * d1
    if rng.random() < 0.1:
        closers = closers[:rng.randint(0, len(closers))]
    return s + body + inner + closers


POSITIONS = ['a{b: %s}', '#{%s}{x:y}', '@media #{%s}{a{b:c}}', 'a{#{%s}: x}', '@if %s {a{b:c}}', '@each $i in %s {a{b:$i}}',
             'a{b: map.get((%s: 1), k)}', '$v: %s; a{b: $v; c: inspect($v); d: $v == $v}',
             '@function f($a...){@return $a} a{b: f(%s)}', '@mixin m($a: %s){b: $a} a{@include m}',
             'a{b: calc(%s)}', 'a{--x: #{%s}}', '@supports (%s) {a{b:c}}', 'a{b: "#{%s}"}', '@error %s;', '@warn %s;',
             'a{@extend #{%s};}', '@include #{%s};', 'a:not(#{%s}){x:y}', '@import %s;', '@use "sass:math" as %s;',
             'a{b: %s !important}', '@while %s {a{b:c} }', 'a{b: -%s}', 'a{b: +%s}', 'a{b: not %s}', 'a{b: (%s)...}',
             '@media screen and (min-width: %s){a{b:c}}', '@at-root (without: %s){a{b:c}}', '@keyframes #{%s}{from{a:b}}',
             'a{b: f(%s...)}', 'a{b: rgb(%s...)}', '@function g($x){@return %s} a{b:g(1)}', '[a=#{%s}]{x:y}',
             'a{b: if(%s, 1, 2)}', '@forward "sass:math" show %s;', '@charset %s;', 'a{b: 1 + %s; c: %s * 2; d: %s == 1}']


def fam_value(rng):
    v = gen.hostile_value(rng)
    pos = rng.choice(POSITIONS) if rng.random() < 0.6 else POSITIONS[0]
    if pos.startswith('@while'):
        pos = '$n: 0; @while ($n < 2) and (%s) {$n: $n + 1 !global; a{b:c}}'
    return gen.USE_ALL + pos.replace('%s', v)


def fam_call(rng):
    m = rng.choice(list(gen.MODULE_FUNCS))
    f = rng.choice(gen.MODULE_FUNCS[m])
    name = '%s.%s' % (m, f) if rng.random() < 0.8 else rng.choice(gen.GLOBAL_FUNCS)
    n = rng.choice([0, 1, 1, 2, 2, 2, 3, 3, 4, 5])
    args = []
    for i in range(n):
        a = gen.hostile_value(rng, 1)
        if rng.random() < 0.15:
            a = '$%s: %s' % (rng.choice(['number', 'string', 'list', 'map', 'color', 'n', 'index', 'key', 'start-at',
                                         'end-at', 'amount', 'weight', 'alpha', 'hue', 'red', 'args', 'x', 'limit',
                                         'separator', 'bracketed', 'selector', 'selectors', 'name', 'module', 'css',
                                         'value', 'lightness', 'saturation', 'whiteness', 'blackness', 'insert',
                                         'substring', 'color1', 'color2', 'map1', 'map2', 'list1', 'list2', 'min',
                                         'max', 'base', 'exponent', 'y', 'condition', 'if-true', 'if-false']), a)
        args.append(a)
    if rng.random() < 0.08:
        args.append(rng.choice(['(1 2 3)...', '(a: 1)...', '()...', '$l...', 'null...', '(1,2)..., (a: b)...']))
    return gen.USE_ALL + '$l: 1 2; a{b: %s(%s)}' % (name, ', '.join(args))


def fam_errpos(rng):
    """Errors whose rendering has to quote awkward source text."""
    pad = rng.choice(['', ' ', '\t', '\t\t', 'é', ' ', '\U0001F600', '/* é */', 'x' * rng.choice([100, 1000, 5000]),
                      '\r\n', '\r', '\n\n\n', '\f', ' ', '"é" ', 'é' * 300, '﻿', '\x00', '\x7f'])
    bad = rng.choice(['a{b: $undef}', 'a{b: 1 +}', 'a{b: f(}', '@include nope;', 'a{b: math.div()}', '@error "x";',
                      'a{b: 1px + 1s}', '@use "nope";', '@import "nope";', 'a{b: map.get(1, 2)}', '}', 'a{', 'a{b:', '@',
                      '@if', '@each $i', '@function f', 'a{b: "x', "a{b: 'x", '/* x', 'a{b: url(', '#{', 'a{b: #{}', '$x:',
                      '@mixin m($a, $a){}', 'a{@extend}', '@return 1;', 'a{b: nth(1, 5)}', '@forward "x" show;', '@use "sass:math" with ($pi: 3);',
                      'a{b: lighten(1, 2)}', 'a{b: call(1)}', '&b{x:y}', 'a{b: 1 % "a"}', 'a{b: -}', '@media {a{b:c}}',
                      '@include m($a...: 1);', 'a { b: c(d: e) }', '@debug', '@at-root (with', 'a{b: selector.parse("{")}',
                      'a{b: hsl(1, 2, 3)}', '@function f(){} a{b: f()}', 'a{&: b}', 'a{b: c;;; d}', '@else {}', 'a{b: 1..}'])
    layout = rng.choice(['%s%s', '%s\n%s', '%s' + '\n' * rng.randint(1, 5) + '%s', 'x{y:z}\n%s%s', '%s%s\n' + 'q{r:s}\n' * 3])
    src = layout % (pad, bad)
    if rng.random() < 0.3:
        src = gen.USE_ALL + src
    if rng.random() < 0.25:
        # error inside a loaded file or a mixin defined elsewhere: multi-position traces
        kind = rng.choice(['@import "lib";', '@use "lib";', '@use "lib" as *; a{@include m}', '@use "lib"; a{b: lib.f()}',
                           '@use "sass:meta"; a{@include meta.load-css("lib")}', '@forward "lib";'])
        lib = rng.choice(['@mixin m{%s}', '@function f(){@return 1; %s}', '%s', 'b{%s}', '@mixin m{@include n} @mixin n{%s}'])
        return kind + pad, {'lib.scss': lib.replace('%s', bad if '{' not in bad else 'b: $undef;') + pad}
    return src, None


SPECIAL = [b'\x00', b'\xff', b'\x80', b'\xc3', b'\xe2\x82', b'\xf0\x9f', b'\xed\xa0\x80', b'\\', b'"', b"'", b'#{', b'/*',
           b'*/', b'//', b'{', b'}', b'(', b')', b';', b':', b'@', b'$', b'&', b'%', b'!', b'\n', b'\r', b'\t', b'\\\n',
           b'\xef\xbb\xbf', b'u+', b'url(', b'e', b'-', b'.', b'1e999', b'\\0', b'\\110000 ', b'\\d800 ', b'[', b']',
           b'...', b',', b'=', b'|', b'~', b'+', b'>', b'*', b'^', b'<', b'`', b'\x0c', b'\x1b', b'\xe2\x80\xa8']


def mutate(rng, b, other):
    r = rng.random()
    if not b:
        return rng.choice(SPECIAL)
    if r < 0.35:
        return b[:rng.randint(0, len(b))]
    if r < 0.6:
        i = rng.randint(0, len(b))
        return b[:i] + rng.choice(SPECIAL) + b[i:]
    if r < 0.7:
        i = rng.randint(0, len(b) - 1)
        return b[:i] + rng.choice(SPECIAL) + b[i + 1:]
    if r < 0.8:
        i, j = sorted((rng.randint(0, len(b)), rng.randint(0, len(b))))
        return b[:i] + b[j:]
    if r < 0.9:
        i = rng.randint(0, len(b))
        j = rng.randint(0, len(other))
        return b[:i] + other[j:]
    i, j = sorted((rng.randint(0, len(b)), rng.randint(0, len(b))))
    return b[:j] + b[i:j] * rng.randint(1, 3) + b[j:]


def cfg(rng, case):
    case['syntax'] = 'css' if rng.random() < 0.25 else 'scss'
    case['style'] = rng.choice(['expanded', 'compressed'])
    case['precision'] = rng.choice([0, 1, 5, 10, 20, rng.randint(0, 20)])
    return case


def fam_longflat(rng):
    """Long FLAT inputs: nesting depth 1..2, tens of thousands of operands (inside the 64 KiB / depth 64 precondition)."""
    n = rng.choice([200, 2000, 8000, 15000, 30000])
    k = rng.choice(['sum', 'product', 'minus', 'and', 'eq-chain', 'space-list', 'comma-list', 'descendant', 'child', 'compound', 'selector-list',
                    'args', 'declarations', 'rules', 'string-concat', 'interpolations', 'map', 'if-chain'])
    if k == 'sum':
        return 'a{b: ' + '+'.join(['1'] * n) + '}'
    if k == 'product':
        return 'a{b: ' + '*'.join(['1'] * n) + '}'
    if k == 'minus':
        return 'a{b: ' + ' - '.join(['1'] * n) + '}'
    if k == 'and':
        return 'a{b: ' + ' and '.join(['true'] * min(n, 10000)) + '}'
    if k == 'eq-chain':
        return 'a{b: ' + ' == '.join(['1'] * min(n, 12000)) + '}'
    if k == 'space-list':
        return 'a{b: ' + ' '.join(['x'] * n) + '}'
    if k == 'comma-list':
        return 'a{b: ' + ','.join(['1'] * n) + '}'
    if k == 'descendant':
        return ' '.join(['.a'] * min(n, 20000)) + '{b:c}'
    if k == 'child':
        return '>'.join(['.a'] * min(n, 20000)) + '{b:c}'
    if k == 'compound':
        return '.a' + '.b' * min(n, 30000) + '{b:c}'
    if k == 'selector-list':
        return ','.join(['.a'] * min(n, 20000)) + '{b:c}'
    if k == 'args':
        return 'a{b: f(' + ','.join(['1'] * n) + ')}'
    if k == 'declarations':
        return 'a{' + 'b:c;' * min(n, 15000) + '}'
    if k == 'rules':
        return 'a{b:c}' * min(n, 10000)
    if k == 'string-concat':
        return 'a{b: ' + '+'.join(['"s"'] * min(n, 15000)) + '}'
    if k == 'interpolations':
        return 'a{b: ' + '#{1}' * min(n, 15000) + '}'
    if k == 'map':
        return '$m: (' + ','.join('k%d:%d' % (i, i) for i in range(min(n, 6000))) + '); a{b: length($m)}'
    return '@if false {a{b:c}} ' + ' '.join('@else if false {a{b:c}}' for _ in range(min(n, 2500))) + ' @else {a{b:d}}'


CHAN_FUNCS = ['rgb', 'rgba', 'hsl', 'hsla', 'hwb', 'color.hwb', 'lab', 'lch', 'oklab', 'oklch', 'color', 'color.change', 'color.adjust',
              'color.scale', 'color.mix', 'color.to-space', 'color.channel', 'mix', 'invert', 'grayscale', 'adjust-hue']
CHAN_ELEMS = ['0', '30%', '40%', '120deg', '1', '0.5', '255', 'none', 'var(--x)', 'calc(1 + 2)', 'a', '"s"', 'null', '()', 'srgb', 'hsl', '1e9', '-1',
              'math.div(0, 0)', '100% 50%', '(1 2)', '[1]', 'red', '#123']


def fam_channels(rng):
    """colour (and other) functions given channel lists of every shape: lengths 0..5, every separator, also the short slash and
    comma lists that only list.append / list.join can build, bracketed and nested lists, a / alpha part in any position"""
    def lst(depth=0):
        n = rng.choice([0, 1, 1, 2, 3, 3, 4, 5])
        els = [rng.choice(CHAN_ELEMS) if depth or rng.random() < 0.8 else '(%s)' % lst(1) for _ in range(n)]
        k = rng.random()
        sep = rng.choice(['space', 'comma', 'slash'])
        if k < 0.35:
            e = '()'
            for x in els:
                e = 'list.append(%s, %s, $separator: %s)' % (e, x, sep)
            return e
        if k < 0.45:
            return 'list.join((), (%s), %s)' % (' '.join(els) if els else '', sep)
        if k < 0.55:
            return 'list.slash(%s)' % ', '.join(els) if len(els) >= 2 else 'list.join((), (), slash)'
        if k < 0.65:
            return '[%s]' % ' '.join(els)
        if k < 0.8 and els:
            return '%s / %s' % (' '.join(els), rng.choice(CHAN_ELEMS))
        return {'space': ' ', 'comma': ', ', 'slash': ' / '}[sep].join(els) if els else '()'
    f = rng.choice(CHAN_FUNCS)
    args = [lst()] + [rng.choice(CHAN_ELEMS) for _ in range(rng.choice([0, 0, 0, 1, 2]))]
    named = rng.random() < 0.15
    call = '%s(%s)' % (f, ', '.join(('$channels: ' + a) if (named and i == 0) else a for i, a in enumerate(args)))
    return '@use "sass:list"; @use "sass:color"; @use "sass:math"; a{b: %s}' % call


FAMILIES = [('channels', fam_channels, 8), ('longflat', fam_longflat, 2), ('amp', fam_amp, 10), ('color', fam_color, 10), ('for', fam_for, 5), ('units', fam_units, 6),
            ('nest', fam_nest, 10), ('value', fam_value, 18), ('call', fam_call, 18), ('errpos', fam_errpos, 8),
            ('mutate', None, 12), ('corpus', None, 6)]


def worker(ctx):
    rng = ctx.rng
    corp = corpus.load()
    if ctx.shard == 0:
        ws = []
        for w in WITNESSES:
            for style in ('expanded', 'compressed'):
                ws.append({'family': 'witness', 'src': w, 'syntax': 'scss', 'style': style, 'precision': 10})
        check_cases(ctx, ws)
        ctx.sample(ws[0])
    names = [f[0] for f in FAMILIES]
    weights = [f[2] for f in FAMILIES]
    fns = {f[0]: f[1] for f in FAMILIES}
    ci = ctx.shard
    while not ctx.expired():
        batch = []
        for _ in range(150):
            fam = rng.choices(names, weights)[0]
            files = None
            if fam == 'mutate':
                a = rng.choice(corp)['src'].encode()
                b = rng.choice(corp)['src'].encode()
                s = mutate(rng, a, b)
                if rng.random() < 0.3:
                    s = mutate(rng, s, b)
                s = enc(s)
            elif fam == 'corpus':
                s = corp[ci % len(corp)]['src']
                ci += ctx.nshards
            elif fam == 'errpos':
                s, files = fns[fam](rng)
            else:
                s = fns[fam](rng)
            case = cfg(rng, {'family': fam, 'src': s})
            if files:
                case['files'] = files
            if fam in ('nest', 'amp', 'for', 'units', 'color') and case['syntax'] == 'css' and rng.random() < 0.7:
                case['syntax'] = 'scss'
            batch.append(case)
        check_cases(ctx, batch)
        if batch:
            ctx.sample(batch[0], 2)
    ctx.stat('space_completed')
