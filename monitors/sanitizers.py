"""Sanitizer lanes for the concurrency properties (C05, C06): the self-checking concurrent workload harness/src/conc.rs under
Miri (many seeds = many schedules) and under ThreadSanitizer.  Used by the thorough tier only; every lane is three-valued:
'clean', 'report' (a violation) or 'inconclusive' (tool could not run, timeout)."""
import os, re, subprocess, time, json, hashlib
from .lib import build

MIRI_SEEDS = int(os.environ.get('VERIF_MIRI_SEEDS', '7'))


def _run(cmd, env, cwd, timeout):
    t0 = time.monotonic()
    try:
        r = subprocess.run(cmd, cwd=cwd, env=env, stdout=subprocess.PIPE, stderr=subprocess.STDOUT, text=True, timeout=timeout)
        return r.returncode, r.stdout, time.monotonic() - t0
    except subprocess.TimeoutExpired as e:
        out = e.stdout.decode('utf-8', 'replace') if isinstance(e.stdout, bytes) else (e.stdout or '')
        return None, out, time.monotonic() - t0


def miri_lane():
    """cargo +nightly miri run of conc with 3 threads x 1 round: one warm-up run (seed 0, also compiles), then the remaining
    seeds in parallel processes (every seed is a different schedule of Miri's randomized preemption)."""
    d = build.prepare_harness(build.REPO)
    base = dict(os.environ, CARGO_NET_OFFLINE='true', CARGO_TARGET_DIR=os.path.join(build.OUT, 'target-miri'))
    base.pop('RUSTFLAGS', None)
    cmd = ['cargo', '+nightly', 'miri', 'run', '--offline', '--bin', 'conc', '--', '3', '1', '0']
    t0 = time.monotonic()

    def flags(a, b):
        return dict(base, MIRIFLAGS='-Zmiri-disable-isolation -Zmiri-many-seeds=%d..%d' % (a, b))
    outs = []
    rc, out, _ = _run(cmd, flags(0, 1), d, 2400)
    outs.append((rc, out))
    if rc == 0 and MIRI_SEEDS > 1:
        nproc = min(6, MIRI_SEEDS - 1)
        bounds = [1 + (MIRI_SEEDS - 1) * k // nproc for k in range(nproc + 1)]
        procs = [subprocess.Popen(cmd, cwd=d, env=flags(a, b), stdout=subprocess.PIPE, stderr=subprocess.STDOUT, text=True)
                 for a, b in zip(bounds, bounds[1:]) if b > a]
        deadline = time.monotonic() + 2400
        for pr in procs:
            try:
                o, _ = pr.communicate(timeout=max(1, deadline - time.monotonic()))
                outs.append((pr.returncode, o))
            except subprocess.TimeoutExpired:
                pr.kill()
                outs.append((None, ''))
    res = {'tool': 'miri', 'seeds': MIRI_SEEDS, 'wall_s': round(time.monotonic() - t0, 1), 'threads': 3}
    out = '\n'.join(o for _, o in outs)
    runs = len(re.findall(r'^CONC ', out, re.M))
    res['completed_runs'] = runs
    if 'Undefined Behavior' in out or 'data race' in out.lower():
        res['verdict'] = 'report'
        res['report'] = out[-3000:]
    elif re.search(r'^(MISMATCH|IDS|REFERENCE-ERROR)', out, re.M):
        res['verdict'] = 'report'
        res['report'] = '\n'.join(l for l in out.splitlines() if re.match(r'MISMATCH|IDS|REFERENCE', l))[:3000]
    elif any(rc is None for rc, _ in outs):
        res['verdict'] = 'inconclusive' if runs == 0 else 'clean'
        res['why'] = 'some seed ranges timed out; %d runs completed' % runs
    elif all(rc == 0 for rc, _ in outs) and runs >= 1:
        res['verdict'] = 'clean'
    else:
        res['verdict'] = 'inconclusive'
        res['why'] = 'rc=%s: %s' % ([rc for rc, _ in outs], out[-800:])
    return res


def tsan_lane():
    """conc built with -Zsanitizer=thread and -Zbuild-std, 16 threads x 40 rounds, with and without yield injection."""
    d = build.prepare_harness(build.REPO)
    td = os.path.join(build.OUT, 'target-tsan')
    env = dict(os.environ, CARGO_NET_OFFLINE='true', CARGO_TARGET_DIR=td,
               RUSTFLAGS='-Zsanitizer=thread -Cforce-frame-pointers=yes -Cunsafe-allow-abi-mismatch=sanitizer', TSAN_OPTIONS='halt_on_error=0 exitcode=66 second_deadlock_stack=1')
    rc, out, dt = _run(['cargo', '+nightly', 'build', '--offline', '--release', '--bin', 'conc', '-Zbuild-std', '--target', 'x86_64-unknown-linux-gnu'], env, d, 3000)
    res = {'tool': 'thread-sanitizer', 'build_s': round(dt, 1)}
    if rc != 0:
        # retry without the abi-mismatch flag (older/newer nightlies differ)
        env['RUSTFLAGS'] = '-Zsanitizer=thread -Cforce-frame-pointers=yes'
        rc, out, dt2 = _run(['cargo', '+nightly', 'build', '--offline', '--release', '--bin', 'conc', '-Zbuild-std', '--target', 'x86_64-unknown-linux-gnu'], env, d, 3000)
        res['build_s'] = round(dt + dt2, 1)
    if rc != 0:
        res['verdict'] = 'inconclusive'
        res['why'] = 'build failed: ' + out[-800:]
        return res
    exe = os.path.join(td, 'x86_64-unknown-linux-gnu', 'release', 'conc')
    reports, runs, bad = [], 0, []
    t0 = time.monotonic()
    for args in (['16', '40', '0'], ['16', '40', '6553'], ['8', '60', '32768', 'warm'], ['4', '100', '655']):
        rc, out, dt = _run([exe] + args, env, d, 1200)
        if rc is None:
            res.setdefault('timeouts', 0)
            res['timeouts'] += 1
            continue
        runs += 1
        blocks = re.findall(r'WARNING: ThreadSanitizer: [^\n]*\n(?:.*\n)*?SUMMARY: ThreadSanitizer: [^\n]*', out)
        reports += blocks
        if re.search(r'^(MISMATCH|IDS|REFERENCE-ERROR)', out, re.M):
            bad.append('\n'.join(l for l in out.splitlines() if re.match(r'MISMATCH|IDS|REFERENCE', l))[:1000])
    res['runs'] = runs
    res['wall_s'] = round(time.monotonic() - t0, 1)
    # de-duplicate reports by their SUMMARY line with addresses and line numbers stripped
    keys = {}
    for b in reports:
        m = re.search(r'SUMMARY: ThreadSanitizer: ([^\n]*)', b)
        k = re.sub(r'0x[0-9a-f]+|:\d+', '', m.group(1) if m else b[:100])
        keys.setdefault(k, b)
    res['distinct_reports'] = len(keys)
    if keys or bad:
        res['verdict'] = 'report'
        res['report'] = (list(keys.values())[0][:3000] if keys else bad[0])
    elif runs:
        res['verdict'] = 'clean'
    else:
        res['verdict'] = 'inconclusive'
        res['why'] = 'no run completed'
    return res


def run_lanes(merged, prop):
    """Called from a monitor's finish(): runs both lanes, turns reports into violations, returns evidence keys."""
    lanes = []
    for lane in (tsan_lane, miri_lane):
        try:
            lanes.append(lane())
        except Exception as e:          # harness trouble is never a violation
            lanes.append({'tool': lane.__name__, 'verdict': 'inconclusive', 'why': repr(e)[:300]})
    for l in lanes:
        if l['verdict'] == 'report':
            sig = 'sanitizer|%s|%s' % (l['tool'], hashlib.sha1(re.sub(r'0x[0-9a-f]+|:\d+|\d+', '', l.get('report', '')[:400]).encode()).hexdigest()[:10])
            merged['violations'].append({'sig': sig, 'case': {'lane': l['tool'], 'cmd': 'see monitors/sanitizers.py'}, 'detail': {'report': l.get('report', '')[:2500]}})
            merged['vcount'][sig] += 1
    return {'sanitizer_lanes': [{k: v for k, v in l.items() if k != 'report'} for l in lanes]}
