"""C40 - the command-line tool mirrors the library (real process: exit status, stdout, stderr vs library results)."""
import os, shutil, subprocess, tempfile
from .lib import build, proggen

PROP = 'C40'
LEVEL = 'exploration'
BUDGET = {'quick': 30, 'thorough': 400}
FLOOR = {'quick': 150, 'thorough': 4000}
RULE = ('invocations of the rsass binary built from the working tree with 1..3 input files, --style expanded|compressed (also -t and '
        'the default), --precision 0..12 (and the default 5), with and without --load-path/-I; inputs are generated stylesheets (valid '
        'ones, and ones that fail: syntax errors, undefined variables, @error, missing imports) that may @import/@use a partial which '
        'lives next to the input file, only in the load path, or in both with different contents; inputs in different directories.  '
        'The library result for the same file and Format is computed by the driver through FsContext::for_path + push_path.  Distinct by '
        '(file contents, layout, options); non-trivial = more than one input, a load, a failing input or a non-default option.  Oracle: all '
        'inputs compile => exit 0, stdout = concatenation of the library outputs in argument order, nothing else; some input fails => exit '
        'status != 0, stderr has a line starting "Error:", stdout = the outputs of the inputs before the first failing one.')
LEVEL_TEXT = ('Relational monitor at the process boundary: the real binary is executed and its exit status, stdout and stderr are compared '
              'with the results of the library entry points for the same files and format.')
LEVEL_NOTE = 'Trusted: the driver\'s "fs" job (FsContext::for_path + push_path + with_format), process plumbing of the monitor.'
TECHNIQUE = 'runtime monitoring: differential comparison of CLI process results with library results over generated invocations'
ASSUMPTIONS = ['scratch directories are created under $TMPDIR (or /tmp) by the check itself and removed when it ends']

BAD = ['a { b: $undefined; }', 'a { b: c', '@error "boom";', '@import "missing-file";', 'a { b: 1px + 1s; }', '@use "nowhere";',
       'a { @include nomixin; }', '@function f() { } a { b: f(); }', 'a { b: math.div(1, 2); }', '}', 'a { b: nth(1 2, 5); }']


def gen_case(rng):
    n = rng.choice([1, 1, 2, 2, 3])
    inputs = []
    for i in range(n):
        d = rng.choice(['', 'x', 'y/z'])
        kind = rng.random()
        dep = None
        if kind < 0.2:
            src = rng.choice(BAD)
            ok = False
        else:
            src = proggen.program(rng, nonascii=0.15 if rng.random() < 0.3 else 0.0)
            if 'random' in src or 'unique' in src:
                src = 'a { b: c; }'
            ok = None
            if rng.random() < 0.5:
                where = rng.choice(['beside', 'loadpath', 'both', 'nowhere'])
                stmt = rng.choice(['@import "dep%d";', '@use "dep%d";', '@use "dep%d" as q;'])
                dep = {'where': where, 'name': '_dep%d.scss' % i}
                head = stmt % i
                # @use must come first; proggen programs start with @use lines of sass: modules, which is fine either way
                src = head + '\n' + src
        inputs.append({'dir': d, 'name': 'in%d.scss' % i, 'src': src, 'dep': dep})
    opts = []
    style = rng.choice([None, 'expanded', 'compressed', 'compressed'])
    if style:
        opts += [rng.choice(['--style', '-t']), style]
    prec = rng.choice([None, None] + list(range(0, 13)))
    if prec is not None:
        opts += ['--precision', str(prec)]
    lp = rng.random() < 0.7
    lpflag = rng.choice(['--load-path', '-I'])
    return {'inputs': inputs, 'opts': opts, 'style': style or 'expanded', 'precision': 5 if prec is None else prec, 'lp': lp, 'lpflag': lpflag}


def check_case(ctx, case, cli=None):
    cli = cli or build.build_cli()
    root = tempfile.mkdtemp(prefix='verif-c40-')
    try:
        lpdir = os.path.join(root, 'lp')
        os.makedirs(lpdir)
        paths = []
        for inp in case['inputs']:
            d = os.path.join(root, 'w', inp['dir'])
            os.makedirs(d, exist_ok=True)
            p = os.path.join(d, inp['name'])
            with open(p, 'w', encoding='utf-8') as f:
                f.write(inp['src'])
            paths.append(p)
            dep = inp['dep']
            if dep:
                if dep['where'] in ('beside', 'both'):
                    with open(os.path.join(d, dep['name']), 'w') as f:
                        f.write('.dep-beside-%s { w: here; }\n' % inp['name'][:-5])
                if dep['where'] in ('loadpath', 'both'):
                    with open(os.path.join(lpdir, dep['name']), 'w') as f:
                        f.write('.dep-loadpath-%s { w: there; }\n' % inp['name'][:-5])
        lps = [lpdir] if case['lp'] else []
        lib = ctx.batch([{'api': 'fs', 'path': p, 'load_paths': lps, 'style': case['style'], 'precision': case['precision']} for p in paths])
        if any(r.get('status') not in ('ok', 'err') for r in lib):
            ctx.undecided('library-run-' + str([r.get('status') for r in lib]))
            return
        argv = [cli] + case['opts'] + ([case['lpflag'], lpdir] if case['lp'] else []) + paths
        try:
            pr = subprocess.run(argv, stdout=subprocess.PIPE, stderr=subprocess.PIPE, timeout=60, cwd=root)
        except subprocess.TimeoutExpired:
            ctx.undecided('cli-timeout')
            return
        ctx.ran()
        nontrivial = len(paths) > 1 or case['opts'] or any(i['dep'] for i in case['inputs']) or any(r['status'] == 'err' for r in lib)
        if nontrivial:
            ctx.nontrivial({k: case[k] for k in ('inputs', 'opts', 'lp')})
        from .lib.driver import outbytes
        want = b''
        failing = None
        for k, r in enumerate(lib):
            if r['status'] == 'err':
                failing = k
                break
            want += outbytes(r)
        shape = '%d-inputs|%s' % (len(paths), 'fails-at-%d' % failing if failing is not None else 'all-compile')
        ctx.seen('shapes', shape)
        ctx.seen('options', ' '.join(case['opts'][::2]) + (' ' + case['lpflag'] if case['lp'] else ''))
        for i in case['inputs']:
            if i['dep']:
                ctx.seen('dep_layouts', i['dep']['where'])
        detail = {'argv': argv[1:], 'exit': pr.returncode, 'stdout': pr.stdout.decode('utf-8', 'replace')[:600], 'stderr': pr.stderr.decode('utf-8', 'replace')[:400],
                  'library': [{k: r.get(k) for k in ('status', 'out', 'err')} for r in lib]}
        if pr.returncode < 0:
            ctx.violation('cli-killed-by-signal', case, detail)
            return
        if failing is None:
            if pr.returncode != 0:
                ctx.violation('all-compile|exit-status-nonzero', case, detail)
            elif pr.stdout != want:
                ctx.violation('all-compile|stdout-differs-from-library|%s' % ('one-input' if len(paths) == 1 else 'several-inputs'), case, detail)
            return
        if pr.returncode == 0:
            ctx.violation('an-input-fails|exit-status-zero|failing-input-%s' % ('first' if failing == 0 else 'later'), case, detail)
            return
        if not any(l.startswith('Error:') for l in pr.stderr.decode('utf-8', 'replace').splitlines()):
            ctx.violation('an-input-fails|no-Error-line-on-stderr', case, detail)
            return
        if pr.stdout != want:
            ctx.violation('an-input-fails|stdout-is-not-the-output-of-the-inputs-before-it', case, detail)
    finally:
        shutil.rmtree(root, ignore_errors=True)


def prepare(tier, seed, driver_bin):
    # built once, before the workers' budgets start
    try:
        build.build_cli()
    except RuntimeError:
        pass


def worker(ctx):
    try:
        cli = build.build_cli()
    except RuntimeError as e:
        ctx.undecided('cli-build-failed', str(e))
        return
    first = True
    while not ctx.expired():
        c = gen_case(ctx.rng)
        if first:
            ctx.sample({'opts': c['opts'], 'lp': c['lp'], 'inputs': [{'dir': i['dir'], 'dep': i['dep'], 'src': i['src'][:300]} for i in c['inputs']]})
            first = False
        check_case(ctx, c, cli)
