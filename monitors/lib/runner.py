"""Runs a monitor: workers, budgets, verdicts, known findings, evidence, replay files."""
import hashlib, json, multiprocessing as mp, os, random, sys, time, traceback, collections

from . import build
from .driver import Driver

VERIF = build.VERIF
EVID = os.path.join(VERIF, 'evidence')
REPLAYS = os.path.join(VERIF, 'out', 'replays')
NPROC = int(os.environ.get('VERIF_NPROC', '16'))


def h64(obj):
    s = obj if isinstance(obj, (bytes, str)) else json.dumps(obj, sort_keys=True, default=str)
    if isinstance(s, str):
        s = s.encode('utf-8', 'surrogatepass')
    return int.from_bytes(hashlib.blake2b(s, digest_size=8).digest(), 'big')


class Ctx:
    """What a monitor's worker sees."""

    def __init__(self, prop, tier, seed, shard, nshards, driver_bin, budget_s, replay=False):
        self.prop, self.tier, self.seed = prop, tier, seed
        self.shard, self.nshards = shard, nshards
        self.quick = tier == 'quick'
        self.rng = random.Random(int.from_bytes(hashlib.sha256(
            ('%s|%s|%s' % (seed, prop, shard)).encode()).digest()[:8], 'big'))
        self.driver_bin = driver_bin
        self.driver = Driver(driver_bin) if driver_bin else None
        self.t0 = time.monotonic()
        self.deadline = self.t0 + budget_s
        self.evals = 0
        self.distinct = set()
        self.violations = []          # dicts: sig, case, detail
        self.vcount = collections.Counter()
        self.samples = []
        self.stats = collections.Counter()
        self.sets = collections.defaultdict(set)   # named sets of small hashables (merged by union)
        self.inconclusive = []
        self.replay = replay

    # ---- budget
    def time_left(self):
        return self.deadline - time.monotonic()

    def expired(self):
        return time.monotonic() >= self.deadline

    # ---- accounting
    def ran(self, n=1):
        self.evals += n

    def nontrivial(self, key):
        """Count a distinct non-trivial case (key: any JSON-able description of the case)."""
        if len(self.distinct) < 3_000_000:
            self.distinct.add(h64(key))

    def sample(self, case, limit=3):
        if len(self.samples) < limit:
            self.samples.append(case)

    def stat(self, name, n=1):
        self.stats[name] += n

    def seen(self, setname, item):
        s = self.sets[setname]
        if len(s) < 200_000:
            s.add(item)

    def violation(self, sig, case, detail):
        """sig: narrow signature string (oracle side); case: replayable JSON; detail: what was observed."""
        self.vcount[sig] += 1
        if self.vcount[sig] <= 3:
            self.violations.append({'sig': sig, 'case': case, 'detail': detail})

    def undecided(self, reason, detail=None):
        self.stat('inconclusive:' + reason)
        if len(self.inconclusive) < 20:
            self.inconclusive.append(reason if detail is None else '%s: %s' % (reason, detail))

    # ---- driver helpers
    def compile(self, **job):
        r = self.driver.call(job)
        return r

    def batch(self, jobs, timeout=None):
        return self.driver.batch(jobs, timeout)

    def result(self):
        d = self.driver
        return {
            'evals': self.evals, 'distinct': self.distinct, 'violations': self.violations,
            'vcount': dict(self.vcount), 'samples': self.samples, 'stats': dict(self.stats),
            'sets': {k: v for k, v in self.sets.items()}, 'inconclusive': self.inconclusive,
            'driver': {'restarts': d.restarts, 'crashes': d.crashes, 'timeouts': d.timeouts} if d else {},
        }


def _worker(mod, prop, tier, seed, shard, nshards, driver_bin, budget_s, conn):
    try:
        ctx = Ctx(prop, tier, seed, shard, nshards, driver_bin, budget_s)
        try:
            mod.worker(ctx)
        finally:
            if ctx.driver:
                ctx.driver.close()
        conn.send(('ok', ctx.result()))
    except BaseException:
        conn.send(('error', traceback.format_exc()))
    finally:
        conn.close()


def load_known(prop):
    """Listed findings of one property: known_findings.json plus known/<prop>.json (same entry format; the
    per-property files exist so that monitors can be developed independently; tools/kf.py merge folds them in)."""
    out = {}
    for p in (os.path.join(VERIF, 'known_findings.json'), os.path.join(VERIF, 'known', prop + '.json')):
        if not os.path.exists(p):
            continue
        data = json.load(open(p))
        for f in data.get('findings', []):
            if f.get('property') == prop:
                out[f['signature']] = f
    return out


def write_evidence(prop, ev):
    os.makedirs(EVID, exist_ok=True)
    p = os.path.join(EVID, prop + '.json')
    with open(p + '.tmp', 'w') as f:
        json.dump(ev, f, indent=1, default=str, ensure_ascii=True)
        f.write('\n')
    os.replace(p + '.tmp', p)


def clip(x, n=1500):
    s = json.dumps(x, default=str)
    if len(s) <= n:
        return x
    return {'clipped': s[:n] + '...'}


def run_monitor(mod, tier, seed):
    prop = mod.PROP
    t0 = time.monotonic()
    nshards = min(NPROC, getattr(mod, 'WORKERS', NPROC))
    budget_s = mod.BUDGET[tier]
    try:
        driver_bin, conc_bin = build.build_driver()
    except RuntimeError as e:
        # The tree does not build: nothing observed.  Not a violation of the property.
        ev = {'property_id': prop, 'tier': tier, 'seed': seed, 'level': mod.LEVEL,
              'coverage': {'evaluations': 0, 'distinct_nontrivial': 0, 'rule': getattr(mod, 'RULE', ''),
                           'samples': [], 'inconclusive': True, 'reason': 'build failed: %s' % e},
              'wall_s': round(time.monotonic() - t0, 2), 'violations': 0}
        write_evidence(prop, ev)
        print('INCONCLUSIVE property=%s reason=build-failed' % prop)
        return 0
    build_s = round(time.monotonic() - t0, 1)
    if hasattr(mod, 'prepare'):
        shared = mod.prepare(tier, seed, driver_bin)
    procs = []
    for s in range(nshards):
        a, b = mp.Pipe(duplex=False)
        p = mp.Process(target=_worker, args=(mod, prop, tier, seed, s, nshards, driver_bin, budget_s, b))
        p.start()
        b.close()
        procs.append((p, a))
    merged = {'evals': 0, 'distinct': set(), 'violations': [], 'vcount': collections.Counter(),
              'samples': [], 'stats': collections.Counter(), 'sets': collections.defaultdict(set),
              'inconclusive': [], 'driver': collections.Counter()}
    errors = []
    hard_deadline = time.monotonic() + budget_s * 4 + 300
    for p, a in procs:
        try:
            if a.poll(max(1.0, hard_deadline - time.monotonic())):
                kind, res = a.recv()
            else:
                kind, res = 'error', 'worker watchdog: no result'
                p.kill()
        except EOFError:
            kind, res = 'error', 'worker died without a result'
        p.join(timeout=30)
        if kind == 'error':
            errors.append(res)
            continue
        merged['evals'] += res['evals']
        merged['distinct'] |= res['distinct']
        merged['violations'] += res['violations']
        merged['vcount'].update(res['vcount'])
        merged['samples'] += res['samples']
        merged['stats'].update(res['stats'])
        for k, v in res['sets'].items():
            merged['sets'][k] |= v
        merged['inconclusive'] += res['inconclusive']
        merged['driver'].update(res['driver'])
    # every listed finding is re-checked on every run: the witness recorded with a finding that the generated workload
    # did not happen to hit is replayed through the monitor's own check_case (only its own signature is taken from that)
    replayed = []
    try:
        missing = [(sig, f) for sig, f in load_known(prop).items() if sig not in merged['vcount'] and f.get('witness') is not None]
        if missing and hasattr(mod, 'check_case') and not errors:
            wctx = Ctx(prop, tier, seed, 0, 1, driver_bin, 90)
            try:
                for sig, f in missing:
                    if wctx.expired():
                        break
                    before = len(wctx.violations)
                    try:
                        mod.check_case(wctx, f['witness'])
                    except Exception:
                        continue
                    for v in wctx.violations[before:]:
                        if v['sig'] == sig:
                            merged['violations'].append(v)
                            merged['vcount'][sig] += 1
                            replayed.append(sig)
                            break
            finally:
                if wctx.driver:
                    wctx.driver.close()
    except Exception:
        pass
    post = {}
    if hasattr(mod, 'finish'):
        # cross-worker checks (e.g. global uniqueness); may add violations
        post = mod.finish(merged, tier, seed) or {}
    post = dict(post, build_s=build_s, workers_done_s=round(time.monotonic() - t0, 1), known_findings_confirmed_by_witness_replay=sorted(set(replayed)))
    return conclude(mod, tier, seed, merged, errors, t0, post)


def conclude(mod, tier, seed, merged, errors, t0, post=None):
    prop = mod.PROP
    known = load_known(prop)
    by_sig = collections.OrderedDict()
    for v in merged['violations']:
        by_sig.setdefault(v['sig'], []).append(v)
    new, listed = [], []
    os.makedirs(os.path.join(REPLAYS, prop), exist_ok=True)
    for old in os.listdir(os.path.join(REPLAYS, prop)):     # replays of this run only
        try:
            os.unlink(os.path.join(REPLAYS, prop, old))
        except OSError:
            pass
    for sig, vs in by_sig.items():
        if sig in known:
            listed.append((sig, vs[0]))
            continue
        rp = os.path.join(REPLAYS, prop, '%016x.json' % h64(sig))
        with open(rp, 'w') as f:
            json.dump({'property': prop, 'signature': sig, 'case': vs[0]['case'], 'detail': vs[0]['detail'],
                       'count': merged['vcount'].get(sig, 1), 'seed': seed, 'tier': tier}, f, indent=1, default=str)
        new.append((sig, rp, vs[0]))
    for sig, v in listed:
        print('KNOWN-FINDING: property=%s %s -- %s (seen %d times)' % (
            prop, sig, known[sig].get('what', ''), merged['vcount'].get(sig, 1)))
    for sig, rp, v in new:
        print('VIOLATION property=%s replay=%s signature=%s' % (prop, rp, sig))
        print('  detail: %s' % json.dumps(clip(v['detail'], 600), default=str)[:800])
    nd = len(merged['distinct'])
    floor = getattr(mod, 'FLOOR', {}).get(tier, 2)
    inconclusive = None
    if errors:
        inconclusive = 'harness error in %d worker(s): %s' % (len(errors), errors[0][-800:])
    elif nd < floor:
        inconclusive = 'only %d distinct non-trivial cases (floor %d)' % (nd, floor)
    cov = {
        'evaluations': merged['evals'], 'distinct_nontrivial': nd,
        'rule': getattr(mod, 'RULE', ''),
        'samples': [clip(s) for s in merged['samples'][:6]],
        'stats': dict(sorted(merged['stats'].items())),
        'observed_sets': {k: (len(v), sorted(map(str, v))[:40]) for k, v in merged['sets'].items()},
        'driver': dict(merged['driver']),
        'profile': 'driver built from the working tree: opt-level=2, debug-assertions on, overflow-checks on, feature verif_hooks',
        'known_findings_seen': [s for s, _ in listed],
        'new_violation_signatures': [s for s, _, _ in new],
        'workers': min(NPROC, getattr(mod, 'WORKERS', NPROC)),
    }
    if post:
        cov.update(post)
    if getattr(mod, 'EXHAUSTIVE', {}).get(tier):
        cov['exhaustive'] = bool(merged['stats'].get('space_completed', 0) >= cov['workers']) and not errors
    if inconclusive:
        cov['inconclusive'] = True
        cov['reason'] = inconclusive
    if merged['inconclusive']:
        cov['undecided_cases'] = merged['inconclusive'][:20]
    ev = {'property_id': prop, 'tier': tier, 'seed': seed, 'level': mod.LEVEL, 'coverage': cov,
          'assumptions': getattr(mod, 'ASSUMPTIONS', []),
          'wall_s': round(time.monotonic() - t0, 2), 'violations': len(new)}
    write_evidence(prop, ev)
    print('%s property=%s tier=%s seed=%s evaluations=%d distinct_nontrivial=%d known=%d new=%d wall=%.1fs' % (
        'INCONCLUSIVE' if inconclusive and not new else ('VIOLATED' if new else 'HELD'),
        prop, tier, seed, merged['evals'], nd, len(listed), len(new), time.monotonic() - t0))
    if inconclusive:
        print('  reason: %s' % inconclusive[:2000])
    return 1 if new else 0


def replay(mod, path):
    data = json.load(open(path))
    driver_bin, _ = build.build_driver()
    ctx = Ctx(mod.PROP, 'quick', data.get('seed', 0), 0, 1, driver_bin, 600, replay=True)
    try:
        mod.check_case(ctx, data['case'])
    finally:
        ctx.driver.close()
    known = load_known(mod.PROP)
    rc = 0
    for v in ctx.violations:
        if v['sig'] in known:
            print('KNOWN-FINDING: property=%s %s' % (mod.PROP, v['sig']))
        else:
            print('VIOLATION property=%s replay=%s signature=%s' % (mod.PROP, path, v['sig']))
            print('  detail: %s' % json.dumps(v['detail'], default=str)[:3000])
            rc = 1
    if not ctx.violations:
        print('replay: no violation reproduced')
    return rc
