"""Reference color model: CSS named colors (CSS Color 4 table), exact HSL/HWB/RGB conversions, a CSS color parser."""
import re
from fractions import Fraction as F

NAMED = {
 'aliceblue': 0xf0f8ff, 'antiquewhite': 0xfaebd7, 'aqua': 0x00ffff, 'aquamarine': 0x7fffd4, 'azure': 0xf0ffff,
 'beige': 0xf5f5dc, 'bisque': 0xffe4c4, 'black': 0x000000, 'blanchedalmond': 0xffebcd, 'blue': 0x0000ff,
 'blueviolet': 0x8a2be2, 'brown': 0xa52a2a, 'burlywood': 0xdeb887, 'cadetblue': 0x5f9ea0, 'chartreuse': 0x7fff00,
 'chocolate': 0xd2691e, 'coral': 0xff7f50, 'cornflowerblue': 0x6495ed, 'cornsilk': 0xfff8dc, 'crimson': 0xdc143c,
 'cyan': 0x00ffff, 'darkblue': 0x00008b, 'darkcyan': 0x008b8b, 'darkgoldenrod': 0xb8860b, 'darkgray': 0xa9a9a9,
 'darkgreen': 0x006400, 'darkgrey': 0xa9a9a9, 'darkkhaki': 0xbdb76b, 'darkmagenta': 0x8b008b,
 'darkolivegreen': 0x556b2f, 'darkorange': 0xff8c00, 'darkorchid': 0x9932cc, 'darkred': 0x8b0000,
 'darksalmon': 0xe9967a, 'darkseagreen': 0x8fbc8f, 'darkslateblue': 0x483d8b, 'darkslategray': 0x2f4f4f,
 'darkslategrey': 0x2f4f4f, 'darkturquoise': 0x00ced1, 'darkviolet': 0x9400d3, 'deeppink': 0xff1493,
 'deepskyblue': 0x00bfff, 'dimgray': 0x696969, 'dimgrey': 0x696969, 'dodgerblue': 0x1e90ff, 'firebrick': 0xb22222,
 'floralwhite': 0xfffaf0, 'forestgreen': 0x228b22, 'fuchsia': 0xff00ff, 'gainsboro': 0xdcdcdc, 'ghostwhite': 0xf8f8ff,
 'gold': 0xffd700, 'goldenrod': 0xdaa520, 'gray': 0x808080, 'green': 0x008000, 'greenyellow': 0xadff2f,
 'grey': 0x808080, 'honeydew': 0xf0fff0, 'hotpink': 0xff69b4, 'indianred': 0xcd5c5c, 'indigo': 0x4b0082,
 'ivory': 0xfffff0, 'khaki': 0xf0e68c, 'lavender': 0xe6e6fa, 'lavenderblush': 0xfff0f5, 'lawngreen': 0x7cfc00,
 'lemonchiffon': 0xfffacd, 'lightblue': 0xadd8e6, 'lightcoral': 0xf08080, 'lightcyan': 0xe0ffff,
 'lightgoldenrodyellow': 0xfafad2, 'lightgray': 0xd3d3d3, 'lightgreen': 0x90ee90, 'lightgrey': 0xd3d3d3,
 'lightpink': 0xffb6c1, 'lightsalmon': 0xffa07a, 'lightseagreen': 0x20b2aa, 'lightskyblue': 0x87cefa,
 'lightslategray': 0x778899, 'lightslategrey': 0x778899, 'lightsteelblue': 0xb0c4de, 'lightyellow': 0xffffe0,
 'lime': 0x00ff00, 'limegreen': 0x32cd32, 'linen': 0xfaf0e6, 'magenta': 0xff00ff, 'maroon': 0x800000,
 'mediumaquamarine': 0x66cdaa, 'mediumblue': 0x0000cd, 'mediumorchid': 0xba55d3, 'mediumpurple': 0x9370db,
 'mediumseagreen': 0x3cb371, 'mediumslateblue': 0x7b68ee, 'mediumspringgreen': 0x00fa9a,
 'mediumturquoise': 0x48d1cc, 'mediumvioletred': 0xc71585, 'midnightblue': 0x191970, 'mintcream': 0xf5fffa,
 'mistyrose': 0xffe4e1, 'moccasin': 0xffe4b5, 'navajowhite': 0xffdead, 'navy': 0x000080, 'oldlace': 0xfdf5e6,
 'olive': 0x808000, 'olivedrab': 0x6b8e23, 'orange': 0xffa500, 'orangered': 0xff4500, 'orchid': 0xda70d6,
 'palegoldenrod': 0xeee8aa, 'palegreen': 0x98fb98, 'paleturquoise': 0xafeeee, 'palevioletred': 0xdb7093,
 'papayawhip': 0xffefd5, 'peachpuff': 0xffdab9, 'peru': 0xcd853f, 'pink': 0xffc0cb, 'plum': 0xdda0dd,
 'powderblue': 0xb0e0e6, 'purple': 0x800080, 'rebeccapurple': 0x663399, 'red': 0xff0000, 'rosybrown': 0xbc8f8f,
 'royalblue': 0x4169e1, 'saddlebrown': 0x8b4513, 'salmon': 0xfa8072, 'sandybrown': 0xf4a460, 'seagreen': 0x2e8b57,
 'seashell': 0xfff5ee, 'sienna': 0xa0522d, 'silver': 0xc0c0c0, 'skyblue': 0x87ceeb, 'slateblue': 0x6a5acd,
 'slategray': 0x708090, 'slategrey': 0x708090, 'snow': 0xfffafa, 'springgreen': 0x00ff7f, 'steelblue': 0x4682b4,
 'tan': 0xd2b48c, 'teal': 0x008080, 'thistle': 0xd8bfd8, 'tomato': 0xff6347, 'turquoise': 0x40e0d0,
 'violet': 0xee82ee, 'wheat': 0xf5deb3, 'white': 0xffffff, 'whitesmoke': 0xf5f5f5, 'yellow': 0xffff00,
 'yellowgreen': 0x9acd32,
}
assert len(NAMED) == 148, len(NAMED)


def hsl_to_rgb(h, s, l):
    """h in degrees, s and l in [0,1] -> r,g,b in [0,255] (exact with Fractions, floats otherwise)."""
    h = h % 360
    c = (1 - abs(2 * l - 1)) * s
    hp = h / 60
    x = c * (1 - abs(hp % 2 - 1))
    if hp < 1: r, g, b = c, x, 0
    elif hp < 2: r, g, b = x, c, 0
    elif hp < 3: r, g, b = 0, c, x
    elif hp < 4: r, g, b = 0, x, c
    elif hp < 5: r, g, b = x, 0, c
    else: r, g, b = c, 0, x
    m = l - c / 2
    return ((r + m) * 255, (g + m) * 255, (b + m) * 255)


def rgb_to_hsl(r, g, b):
    """r,g,b in [0,255] -> h degrees [0,360), s, l in [0,1]."""
    r, g, b = r / 255, g / 255, b / 255
    mx, mn = max(r, g, b), min(r, g, b)
    l = (mx + mn) / 2
    d = mx - mn
    if d == 0:
        return (0, 0, l)
    s = d / (1 - abs(2 * l - 1)) if abs(2 * l - 1) != 1 else 0
    if mx == r:
        h = ((g - b) / d) % 6
    elif mx == g:
        h = (b - r) / d + 2
    else:
        h = (r - g) / d + 4
    return ((h * 60) % 360, s, l)


def hwb_to_rgb(h, w, bl):
    if w + bl >= 1:
        g = w / (w + bl) * 255
        return (g, g, g)
    r, g, b = hsl_to_rgb(h, 1, 0.5)
    f = 1 - w - bl
    return (r / 255 * f * 255 + w * 255, g / 255 * f * 255 + w * 255, b / 255 * f * 255 + w * 255)


def rgb_to_hwb(r, g, b):
    h, _, _ = rgb_to_hsl(r, g, b)
    w = min(r, g, b) / 255
    bl = 1 - max(r, g, b) / 255
    return (h, w, bl)


_NUM = r'[-+]?(?:\d+\.?\d*|\.\d+)(?:[eE][-+]?\d+)?'
_HEX = re.compile(r'^#([0-9a-fA-F]{3,8})$')
_FUNC = re.compile(r'^(rgba?|hsla?|hwb)\(\s*(.*?)\s*\)$', re.I | re.S)


def _num(tok, pct_scale=None):
    m = re.match(r'^(' + _NUM + r')(%|deg|grad|rad|turn)?$', tok.strip())
    if not m:
        raise ValueError(tok)
    v = float(m.group(1))
    return v, m.group(2) or ''


def parse_css_color(text):
    """Returns (r, g, b, a) floats (r,g,b in 0..255, a in 0..1) or None when the text is not a CSS color this
    reference understands (hex 3/4/6/8, names, transparent, rgb[a](), hsl[a](), hwb(); comma or space syntax)."""
    t = text.strip()
    m = _HEX.match(t)
    if m:
        h = m.group(1)
        if len(h) in (3, 4):
            h = ''.join(c * 2 for c in h)
        if len(h) not in (6, 8):
            return None
        vals = [int(h[i:i + 2], 16) for i in range(0, len(h), 2)]
        a = vals[3] / 255 if len(vals) == 4 else 1.0
        return (float(vals[0]), float(vals[1]), float(vals[2]), a)
    low = t.lower()
    if low == 'transparent':
        return (0.0, 0.0, 0.0, 0.0)
    if low in NAMED:
        v = NAMED[low]
        return (float(v >> 16), float((v >> 8) & 255), float(v & 255), 1.0)
    m = _FUNC.match(t)
    if not m:
        return None
    fn = m.group(1).lower()
    body = m.group(2)
    alpha = 1.0
    try:
        if ',' in body:
            parts = [p.strip() for p in body.split(',')]
        else:
            if '/' in body:
                body, al = body.split('/', 1)
                parts = body.split() + [al.strip()]
            else:
                parts = body.split()
        if len(parts) == 4:
            v, u = _num(parts[3])
            alpha = v / 100 if u == '%' else v
            parts = parts[:3]
        if len(parts) != 3:
            return None
        if fn.startswith('rgb'):
            ch = []
            for p in parts:
                v, u = _num(p)
                ch.append(v * 255 / 100 if u == '%' else v)
            r, g, b = [min(255.0, max(0.0, c)) for c in ch]
        else:
            hv, hu = _num(parts[0])
            hv = {'': hv, 'deg': hv, 'grad': hv * 0.9, 'rad': hv * 57.29577951308232, 'turn': hv * 360}[hu]
            p1, u1 = _num(parts[1])
            p2, u2 = _num(parts[2])
            if u1 != '%' or u2 != '%':
                return None
            p1 = min(1.0, max(0.0, p1 / 100))
            p2 = min(1.0, max(0.0, p2 / 100))
            r, g, b = hsl_to_rgb(hv, p1, p2) if fn.startswith('hsl') else hwb_to_rgb(hv, p1, p2)
        return (r, g, b, min(1.0, max(0.0, alpha)))
    except (ValueError, KeyError):
        return None
