"""Selector generation, specialisation and canonical comparison (shared by C23, C24, C25).

Structure (plain tuples, hashable):
  simple   = (kind, text)     kind: type univ class id attr pc nth pcsel:<name> pe
  compound = (simple, ...)
  complex  = (compound, comb, compound, ...)   comb in ' ', '>', '+', '~'; a *relative* complex selector
             (only generated as an argument of :has) starts with a comb
  list     = (complex, ...)

render_*()            -> text
Gen(rng, **profile)   -> random compounds / complex selectors / lists over a small alphabet (so that relations between
                         two generated selectors happen by chance as well as by construction)
add_simple / add_ancestor / add_parent -> a *specialisation* of a complex selector (matches a subset of the elements)
canon(text)           -> canonical, hashable form of a selector list *text* (what rsass printed): simple selectors of a
                         compound as a sorted multiset, `*` elided in front of other simple selectors, identifiers and
                         strings with their escapes decoded, attribute-value quoting ignored, white space around
                         combinators / commas / inside nth arguments ignored.  Order of complex selectors and of compounds
                         is kept.  Raises SelSyntax for text that is not a selector list by the CSS grammar.
"""
import re
import unicodedata

COMBS = (' ', '>', '+', '~')


# ------------------------------------------------------------------ rendering

def render_compound(c):
    return ''.join(t for _, t in c)


def render_complex(cx, tight=False):
    out = []
    for i, part in enumerate(cx):
        if isinstance(part, str):
            if part == ' ':
                out.append(' ')
            elif tight:
                out.append(part)
            elif i == 0:
                out.append(part + ' ')
            else:
                out.append(' ' + part + ' ')
        else:
            out.append(render_compound(part))
    return ''.join(out)


def render_list(lst, tight=False):
    return (',' if tight else ', ').join(render_complex(cx, tight) for cx in lst)


def sass_quote(s):
    """The text of a Sass double-quoted string literal whose content is s (no interpolation is ever produced)."""
    return '"' + s.replace('\\', '\\\\').replace('"', '\\"').replace('#{', '#\\{').replace('\n', '\\a ') + '"'


def compounds(cx):
    return [p for p in cx if not isinstance(p, str)]


def has_kind(cx, prefix):
    return any(k.startswith(prefix) for c in compounds(cx) for k, _ in c)


def leading_combinator(cx):
    return bool(cx) and isinstance(cx[0], str)


def features(cx):
    """Small set describing what a complex selector contains (for evidence and signatures)."""
    f = set()
    for p in cx:
        if isinstance(p, str):
            f.add('comb' + {' ': '-desc', '>': '-child', '+': '-next', '~': '-sibling'}[p])
        else:
            for k, t in p:
                if k == 'attr':
                    m = re.match(r'\[[^=~|^$*\]]+(=|~=|\|=|\^=|\$=|\*=)?', t)
                    f.add('attr' + (m.group(1) or '') if m else 'attr')
                    if re.search(r' [a-zA-Z]\]$', t):
                        f.add('attr-modifier')
                else:
                    f.add(k)
    return f


# ------------------------------------------------------------------ generation

TYPES = ['a', 'b', 'div', 'span']
CLASSES = ['c', 'd', 'e', 'f']
IDS = ['i', 'j']
ATTRS = ['[x]', '[y]', '[x=y]', '[x="y z"]', '[x~=y]', '[x|=y]', '[x^=y]', '[x$=y]', '[x*=y]', '[x=y i]', '[x=y s]',
         '[x="y" i]', '[y^=z]']
PCS = [':hover', ':focus', ':first-child', ':checked', ':lang(en)']
NTHS = [':nth-child(2n+1)', ':nth-child(odd)', ':nth-of-type(3)', ':nth-last-child(-n+3)', ':nth-child(2n+1 of .c)']
PES = ['::before', '::after', ':before', '::first-line']
SELPSEUDOS = ['not', 'is', 'where', 'has', 'matches']


class Gen:
    def __init__(self, rng, types=TYPES, classes=CLASSES, ids=IDS, attrs=ATTRS, pcs=PCS, nths=NTHS, pes=PES,
                 selpseudos=SELPSEUDOS, p_pe=0.08, p_selpseudo=0.18, max_depth=1, p_univ=0.08, p_type=0.55):
        self.rng = rng
        self.types, self.classes, self.ids, self.attrs = types, classes, ids, attrs
        self.pcs, self.nths, self.pes, self.selpseudos = pcs, nths, pes, selpseudos
        self.p_pe, self.p_selpseudo, self.max_depth, self.p_univ, self.p_type = p_pe, p_selpseudo, max_depth, p_univ, p_type

    # -- simple selectors
    def cls(self):
        return ('class', '.' + self.rng.choice(self.classes))

    def selpseudo(self, depth=0, name=None):
        rng = self.rng
        name = name or rng.choice(self.selpseudos)
        n = rng.choice([1, 1, 2])
        if name == 'has' and rng.random() < 0.5:
            inner = tuple((rng.choice(['>', '+', '~']),) + self.complex(depth + 1, maxlen=2) for _ in range(n))
        else:
            inner = tuple(self.complex(depth + 1, maxlen=2) for _ in range(n))
        return ('pcsel:' + name, ':%s(%s)' % (name, render_list(inner)))

    def extra_simple(self, depth=0, allow_id=True, allow_selpseudo=True):
        """A simple selector that may be *added* to a compound (never a type, never a pseudo-element)."""
        rng = self.rng
        r = rng.random()
        if r < 0.40:
            return self.cls()
        if r < 0.50 and allow_id:
            return ('id', '#' + rng.choice(self.ids))
        if r < 0.68:
            return ('attr', rng.choice(self.attrs))
        if r < 0.82:
            return ('pc', rng.choice(self.pcs))
        if r < 0.90:
            return ('nth', rng.choice(self.nths))
        if allow_selpseudo and depth < self.max_depth:
            return self.selpseudo(depth)
        return self.cls()

    def compound(self, depth=0):
        rng = self.rng
        parts = []
        r = rng.random()
        if r < self.p_type:
            parts.append(('type', rng.choice(self.types)))
        elif r < self.p_type + self.p_univ:
            parts.append(('univ', '*'))
        for _ in range(rng.choice([0, 0, 1, 1, 2])):
            c = self.cls()
            if c not in parts:
                parts.append(c)
        if rng.random() < 0.15:
            parts.append(('id', '#' + rng.choice(self.ids)))
        if rng.random() < 0.2:
            parts.append(('attr', rng.choice(self.attrs)))
        if rng.random() < 0.2:
            parts.append(('pc', rng.choice(self.pcs)))
        if rng.random() < 0.08:
            parts.append(('nth', rng.choice(self.nths)))
        if depth < self.max_depth and rng.random() < self.p_selpseudo:
            parts.append(self.selpseudo(depth))
        if not parts:
            parts.append(self.cls())
        if len(parts) > 2 and rng.random() < 0.3:
            # any order of the non-type simple selectors is the same compound
            head = parts[:1] if parts[0][0] in ('type', 'univ') else []
            tail = parts[len(head):]
            rng.shuffle(tail)
            parts = head + tail
        if depth == 0 and rng.random() < self.p_pe:
            parts.append(('pe', rng.choice(self.pes)))
        return tuple(parts)

    def comb(self):
        return self.rng.choice([' ', ' ', ' ', '>', '>', '+', '~'])

    def complex(self, depth=0, maxlen=3):
        rng = self.rng
        n = rng.choice([1, 1, 2, 2, 3][:2 + maxlen - 1]) if maxlen < 3 else rng.choice([1, 1, 2, 2, 3])
        out = [self.compound(depth)]
        for _ in range(n - 1):
            # a pseudo-element is only meaningful on the last compound
            if out[-1] and out[-1][-1][0] == 'pe':
                out[-1] = out[-1][:-1] or (self.cls(),)
            out.append(self.comb())
            out.append(self.compound(depth))
        return tuple(out)

    def list(self, maxn=3, depth=0):
        return tuple(self.complex(depth) for _ in range(self.rng.randint(1, maxn)))


# ------------------------------------------------------------------ specialisation

def _insert_pos(compound):
    """Positions where a non-type, non-pseudo-element simple selector may be inserted."""
    lo = 1 if compound and compound[0][0] in ('type', 'univ') else 0
    hi = len(compound)
    for i, (k, _) in enumerate(compound):
        if k == 'pe':
            hi = i
            break
    return lo, max(lo, hi)


def add_simple(rng, cx, g, index=None):
    """cx with one more simple selector in one of its compounds -> (new complex, step description) or None.
    Never touches the arguments of a selector pseudo-class, never adds a pseudo-element, never adds a second id or
    a second type selector."""
    idxs = [i for i, p in enumerate(cx) if not isinstance(p, str)]
    i = rng.choice(idxs) if index is None else index
    comp = cx[i]
    has_type = bool(comp) and comp[0][0] in ('type', 'univ')
    has_id = any(k == 'id' for k, _ in comp)
    if not has_type and rng.random() < 0.2:
        new = ('type', rng.choice(g.types))
        ncomp = (new,) + comp
    else:
        for _ in range(8):
            new = g.extra_simple(allow_id=not has_id)
            if new not in comp:
                break
        else:
            return None
        lo, hi = _insert_pos(comp)
        pos = rng.randint(lo, hi)
        ncomp = comp[:pos] + (new,) + comp[pos:]
    where = 'last' if i == idxs[-1] else ('first' if i == idxs[0] else 'inner')
    return cx[:i] + (ncomp,) + cx[i + 1:], 'add-%s@%s' % (new[0], where)


def _front_compound(rng, g):
    c = g.compound(0)
    if c and c[-1][0] == 'pe':
        c = c[:-1] or (g.cls(),)
    return c


def add_ancestor(rng, cx, g):
    if leading_combinator(cx):
        return None
    return (_front_compound(rng, g), ' ') + cx, 'add-ancestor'


def add_parent(rng, cx, g):
    if leading_combinator(cx):
        return None
    return (_front_compound(rng, g), '>') + cx, 'add-parent'


def insert_ancestor(rng, cx, g):
    """`x y` -> `x z y`, `x > z y`, `x z > y` or `x > z > y`: an ancestor of y added between x and y.  Only at a
    *descendant* combinator (anywhere else the result would not be a specialisation)."""
    pos = [i for i, p in enumerate(cx) if p == ' ']
    if not pos:
        return None
    i = rng.choice(pos)
    return cx[:i] + (rng.choice([' ', '>']), _front_compound(rng, g), rng.choice([' ', '>'])) + cx[i + 1:], 'insert-ancestor'


def insert_sibling(rng, cx, g):
    """`x ~ y` -> `x ~ z ~ y`, `x + z ~ y`, `x ~ z + y`, `x + z + y` (a specialisation, but not one the C23 statement
    names: used only to build premises)."""
    pos = [i for i, p in enumerate(cx) if p == '~']
    if not pos:
        return None
    i = rng.choice(pos)
    return cx[:i] + (rng.choice(['~', '+']), _front_compound(rng, g), rng.choice(['~', '+'])) + cx[i + 1:], 'insert-sibling'


def specialise(rng, cx, g):
    """One random specialisation step -> (new complex, step) or None."""
    r = rng.random()
    if r < 0.45:
        return add_simple(rng, cx, g)
    if r < 0.65:
        return add_ancestor(rng, cx, g)
    if r < 0.85:
        return add_parent(rng, cx, g)
    return insert_ancestor(rng, cx, g) or add_simple(rng, cx, g)


def generalise(rng, cx):
    """The inverse of one specialisation step: drop one simple selector of a compound (never a pseudo-element, never
    the only simple selector, never `*`), or drop the leading compound together with a descendant / child
    combinator -> (more general complex, step) or None.  The original is a specialisation of the result."""
    opts = []
    for i, p in enumerate(cx):
        if isinstance(p, str):
            continue
        rest = [s for s in p if s[0] != 'pe']
        if len(rest) >= 2:
            for k, s in enumerate(p):
                if s[0] not in ('pe', 'univ'):
                    opts.append(('simple', i, k))
    if len(cx) >= 3 and not leading_combinator(cx) and cx[1] in (' ', '>'):
        opts.append(('front', 0, 0))
        opts.append(('front', 0, 0))
    if not opts:
        return None
    what, i, k = rng.choice(opts)
    if what == 'front':
        return cx[2:], 'drop-' + ('ancestor' if cx[1] == ' ' else 'parent')
    p = cx[i]
    np_ = p[:k] + p[k + 1:]
    if p[k][0] == 'type' and all(s[0] == 'pe' for s in np_):
        return None
    return cx[:i] + (np_,) + cx[i + 1:], 'drop-' + p[k][0]


# ------------------------------------------------------------------ canonical form of selector text

class SelSyntax(Exception):
    pass


_HEX = '0123456789abcdefABCDEF'
_WS = ' \t\n\r\f'
SELECTOR_ARG = {'not', 'is', 'where', 'has', 'matches', 'any', 'host', 'host-context', 'slotted', 'current', 'cue',
                'cue-region'}
NTH = {'nth-child', 'nth-last-child', 'nth-of-type', 'nth-last-of-type'}


def _unvendor(name):
    m = re.match(r'-[a-zA-Z0-9]+-(.+)$', name)
    return m.group(1) if m else name


class _P:
    def __init__(self, s, strict=True):
        self.s, self.i, self.n = s, 0, len(s)
        self.strict = strict
        self.idents = []          # (position kind, raw text) of every identifier and string read

    def peek(self, k=0):
        j = self.i + k
        return self.s[j] if j < self.n else ''

    def ws(self):
        j = self.i
        while self.i < self.n and self.s[self.i] in _WS:
            self.i += 1
        return self.i > j

    def fail(self, what):
        raise SelSyntax('%s at %d in %r' % (what, self.i, self.s))

    # -- identifiers
    def escape(self):
        # at '\'
        self.i += 1
        if self.i >= self.n:
            self.fail('dangling backslash')
        c = self.s[self.i]
        if c in '\n\r\f':
            self.fail('escaped newline')
        if c in _HEX:
            j = self.i
            while j < self.n and j < self.i + 6 and self.s[j] in _HEX:
                j += 1
            v = int(self.s[self.i:j], 16)
            self.i = j
            if self.i < self.n and self.s[self.i] in _WS:
                self.i += 1
            if v == 0 or v > 0x10ffff or 0xd800 <= v <= 0xdfff:
                return '�'
            return chr(v)
        self.i += 1
        return c

    def _namestart(self, c):
        return c.isalpha() and c.isascii() or c == '_' or (c != '' and ord(c) >= 0x80)

    def _namechar(self, c):
        return self._namestart(c) or (c.isdigit() and c.isascii()) or c == '-'

    def ident(self, what='identifier'):
        """An identifier with its escapes decoded.  strict: CSS Syntax <ident-token> or SelSyntax.  lenient: any run of
        name characters and escapes is read; a run that is not an <ident-token> as written (starts with a digit, or with
        `-` and a digit, or is a lone `-`) comes back marked with a leading NUL, so that it never compares equal to
        the well-formed spelling of the same name."""
        start = self.i
        out = []
        while True:
            c = self.peek()
            if c == '\\':
                out.append(self.escape())
            elif c != '' and self._namechar(c):
                out.append(c)
                self.i += 1
            else:
                break
        raw = self.s[start:self.i]
        if not raw:
            self.fail('bad ' + what)
        c0, c1 = raw[0], raw[1:2]
        ok = not (c0.isdigit() and c0.isascii()) and not (c0 == '-' and (c1 == '' or (c1.isdigit() and c1.isascii())))
        self.idents.append((what, raw))
        if not ok:
            if self.strict:
                self.i = start
                self.fail('bad ' + what)
            return '\x00' + ''.join(out)
        return ''.join(out)

    def string(self):
        q = self.peek()
        start = self.i
        self.i += 1
        out = []
        while True:
            if self.i >= self.n:
                self.fail('unterminated string')
            c = self.s[self.i]
            if c == q:
                self.i += 1
                self.idents.append(('attr-string', self.s[start:self.i]))
                return ''.join(out)
            if c == '\n':
                self.fail('newline in string')
            if c == '\\':
                if self.peek(1) == '\n':
                    self.i += 2
                    continue
                out.append(self.escape())
            else:
                out.append(c)
                self.i += 1

    # -- grammar
    def sel_list(self, relative=False, stop=''):
        out = []
        while True:
            self.ws()
            out.append(self.complex(relative, stop))
            self.ws()
            if self.peek() == ',':
                self.i += 1
                continue
            break
        return tuple(out)

    def complex(self, relative, stop):
        parts = []
        self.ws()
        if self.peek() in ('>', '+', '~') and self.peek() != '':
            if not relative:
                self.fail('leading combinator')
            parts.append(self.peek())
            self.i += 1
            self.ws()
        parts.append(self.compound())
        while True:
            had_ws = self.ws()
            c = self.peek()
            if c == '' or c == ',' or (stop and c == stop):
                break
            if c in ('>', '+', '~'):
                self.i += 1
                self.ws()
                parts.append(c)
            elif had_ws:
                parts.append(' ')
            else:
                self.fail('junk after compound')
            parts.append(self.compound())
        return tuple(parts)

    def ns_name(self, what='type', allow_star=True):
        """[ns|]name  ->  (ns or None, name); '*' allowed for both parts."""
        def part(w):
            if self.peek() == '*' and allow_star:
                self.i += 1
                return '*'
            return self.ident(w)
        if self.peek() == '|' and self.peek(1) != '=':
            self.i += 1
            return ('', part('ns-' + what))
        mark = len(self.idents)
        a = part(what)
        if self.peek() == '|' and self.peek(1) not in ('=', '|'):
            self.i += 1
            if len(self.idents) > mark:
                self.idents[mark] = ('ns-prefix', self.idents[mark][1])
            return (a, part('ns-' + what))
        return (None, a)

    def compound(self):
        simples = []
        c = self.peek()
        if c == '*' or c == '|' or c == '\\' or c == '-' or self._namestart(c) or (not self.strict and c.isdigit()):
            ns, name = self.ns_name()
            simples.append(('type', ns, name))
        while True:
            c = self.peek()
            if c == '.':
                self.i += 1
                simples.append(('class', self.ident('class')))
            elif c == '#':
                self.i += 1
                simples.append(('id', self.ident('id')))
            elif c == '%':
                self.i += 1
                simples.append(('placeholder', self.ident('placeholder')))
            elif c == '[':
                simples.append(self.attribute())
            elif c == ':':
                simples.append(self.pseudo())
            else:
                break
        if not simples:
            self.fail('expected a compound selector')
        # canonical order: everything up to the first pseudo-element is a multiset; from there on order matters
        cut = len(simples)
        for k, s in enumerate(simples):
            if s[0] == 'pseudo' and s[1]:
                cut = k
                break
        head, tail = simples[:cut], simples[cut:]
        if len(head) + len(tail) > 1:
            head = [s for s in head if s != ('type', None, '*')]
        return (tuple(sorted(head, key=repr)), tuple(tail))

    def attribute(self):
        self.i += 1
        self.ws()
        ns, name = self.ns_name('attr-name')
        self.ws()
        if self.peek() == ']':
            self.i += 1
            return ('attr', ns, name, None, None, None)
        m = re.compile(r'=|~=|\|=|\^=|\$=|\*=').match(self.s, self.i)
        if not m:
            self.fail('bad attribute operator')
        op = m.group(0)
        self.i = m.end()
        self.ws()
        if self.peek() in ('"', "'"):
            val = self.string()
        else:
            val = self.ident('attr-value')
        self.ws()
        mod = None
        if self.peek() != ']':
            c = self.peek()
            if c.isalpha() and c.isascii():
                mod = c
                self.i += 1
                self.ws()
        if self.peek() != ']':
            self.fail('unterminated attribute selector')
        self.i += 1
        return ('attr', ns, name, op, val, mod)

    def balanced(self):
        """Raw text up to the matching ')' (strings and nested parentheses respected); ')' is consumed."""
        depth, j = 0, self.i
        while True:
            if self.i >= self.n:
                self.fail('unterminated (')
            c = self.s[self.i]
            if c in ('"', "'"):
                self.string()
                continue
            if c == '\\':
                self.escape()
                continue
            if c in '([':
                depth += 1
            elif c in ')]':
                if depth == 0:
                    raw = self.s[j:self.i]
                    self.i += 1
                    return raw
                depth -= 1
            self.i += 1

    def pseudo(self):
        self.i += 1
        element = False
        if self.peek() == ':':
            element = True
            self.i += 1
        name = self.ident('pseudo-name')
        low = name.lower()
        if low in ('before', 'after', 'first-line', 'first-letter'):
            element = True
        arg = None
        if self.peek() == '(':
            self.i += 1
            base = _unvendor(low)
            if base in SELECTOR_ARG:
                save = self.i
                try:
                    sub = self.sel_list(relative=True, stop=')')
                    self.ws()
                    if self.peek() != ')':
                        self.fail('expected )')
                    self.i += 1
                    arg = ('sel', sub)
                except SelSyntax:
                    self.i = save
                    arg = ('raw', ' '.join(self.balanced().split()))
            elif base in NTH:
                raw = self.balanced()
                m = re.match(r'^(.*?)(?:[ \t\n]+of[ \t\n]+(.*))?$', raw.strip(), re.S)
                anb = re.sub(r'[ \t\n\r\f]+', '', m.group(1))
                of = None
                if m.group(2) is not None:
                    sub = _P(m.group(2), self.strict)
                    try:
                        of = sub.top()
                    finally:
                        self.idents += sub.idents
                arg = ('nth', anb, of)
            else:
                arg = ('raw', ' '.join(self.balanced().split()))
        return ('pseudo', element, name, arg)

    def top(self):
        r = self.sel_list()
        self.ws()
        if self.i != self.n:
            self.fail('junk after selector list')
        return r


def canon(text, strict=True):
    """Canonical form of a selector-list text; raises SelSyntax."""
    return _P(text, strict).top()


def canon_or_none(text, strict=True):
    try:
        return canon(text, strict)
    except SelSyntax:
        return None


def lex_idents(text):
    """[(position kind, raw text)] of every identifier and string in a selector-list text (lenient); [] if unreadable.
    Position kinds: type ns-type ns-prefix class id attr-name ns-attr-name attr-value attr-string pseudo-name placeholder."""
    p = _P(text, strict=False)
    try:
        p.top()
    except SelSyntax:
        pass
    return p.idents


def lex_class(raw):
    """Lexical class of one raw identifier / string (oracle side: a property of the input text only)."""
    body = raw[1:-1] if raw[:1] in ('"', "'") else raw
    cps = [ord(ch) for ch in body] + [int(h, 16) for h in re.findall(r'\\([0-9a-fA-F]{1,6})', body)]
    if any(0x80 <= cp <= 0x10ffff and not 0xd800 <= cp <= 0xdfff and unicodedata.category(chr(cp))[0] not in 'LN' for cp in cps):
        return 'nonascii-symbol'      # a name character by CSS Syntax (>= U+0080) that is not a letter or digit
    if re.match(r'\\(?:00003[0-9]|0{0,3}3[0-9](?![0-9a-fA-F]))', body):
        return 'leading-digit-escape'
    if re.match(r'-\\(?:00003[0-9]|0{0,3}3[0-9](?![0-9a-fA-F]))', body):
        return 'dash-digit-escape'
    if body.startswith('\\'):
        return 'starts-with-escape'
    if '\\' in body:
        return 'escape-inside'
    if any(ord(ch) >= 0x80 for ch in body):
        return 'nonascii'
    return 'plain'


def atom_for(kind, raw):
    """The smallest selector that has `raw` in position `kind` (None for positions that cannot stand alone)."""
    return {'type': raw, 'ns-type': 'ns|' + raw, 'ns-prefix': raw + '|a', 'class': '.' + raw, 'id': '#' + raw,
            'attr-name': '[' + raw + ']', 'ns-attr-name': '[ns|' + raw + ']', 'attr-value': '[x=' + raw + ']',
            'attr-string': '[x=' + raw + ']'}.get(kind)


def norm_ws(text):
    """White space normalised around combinators and commas (text level; strings and escapes are left alone)."""
    out, keep, i, n = [], [], 0, len(text)

    def protect(piece):
        keep.append(piece)
        out.append('\x01%d\x02' % (len(keep) - 1))
    while i < n:
        c = text[i]
        if c in ('"', "'"):
            j = i + 1
            while j < n and text[j] != c:
                j += 2 if text[j] == '\\' else 1
            protect(text[i:j + 1])
            i = j + 1
        elif c == '\\':
            j = i + 2
            if text[i + 1:i + 2] != '' and text[i + 1] in _HEX:
                while j < n and j < i + 7 and text[j] in _HEX:
                    j += 1
                if j < n and text[j] in _WS:
                    j += 1          # the escape's own terminating blank is not a combinator
            protect(text[i:j])
            i = j
        elif c in _WS:
            while i < n and text[i] in _WS:
                i += 1
            out.append(' ')
        else:
            out.append(c)
            i += 1
    s = ''.join(out).strip()
    s = re.sub(r' *([>+~,]) *', r'\1', s)
    s = re.sub(r'([(\[]) +', r'\1', s)
    s = re.sub(r' +([)\]])', r'\1', s)
    return re.sub('\x01(\\d+)\x02', lambda m: keep[int(m.group(1))], s)


def split_inspect(text):
    """meta.inspect() of a selector value -> selector list text (single-element lists print as `(a b,)`)."""
    t = text.strip()
    if t.startswith('(') and t.endswith(',)'):
        return t[1:-2]
    return t


# ------------------------------------------------------------------ exotic selector text (C25)
# Everything below produces *text* plus oracle-side tags that say which lexical feature a piece exercises.
# A "part" is (text, [tags]); a selector is assembled from parts, so that a failing input can be re-judged part by part.

PLAIN_IDENTS = ['a', 'b', 'c', 'x', 'foo', 'a-b', '_x', 'a1', 'div', 'span', 'li']
ODD_PLAIN = [('-x', 'ident-dash'), ('--x', 'ident-dashdash'), ('A', 'ident-upper'), ('Foo', 'ident-upper'),
             ('a_b', 'ident-underscore'), ('a--b', 'ident-dash'), ('x-', 'ident-dash'), ('_', 'ident-underscore')]
NONASCII = ['é', 'ñu', '日本', 'ß', 'aé', 'Ω1', 'ø-x', 'é', 'ñu', 'üb', '𝒳', 'a𝒳']
SYMBOLS = ['😀', 'a😀', '★x', 'a·b', '©', 'a→b']       # non-ASCII, not letters or digits: still name characters in CSS
ESC_SPECIAL = [('a\\.b', 'punct'), ('a\\:b', 'punct'), ('\\@x', 'punct'), ('a\\/b', 'punct'), ('a\\+b', 'punct'), ('\\#x', 'punct'),
               ('a\\,b', 'punct'), ('a\\>b', 'punct'), ('\\*', 'punct'), ('a\\[b\\]', 'bracket'), ('a\\(b\\)', 'paren'),
               ('a\\!', 'punct'), ('a\\%', 'punct'), ('a\\&b', 'punct'), ('\\~x', 'punct'), ('a\\=b', 'punct'), ('a\\|b', 'punct'),
               ('a\\ b', 'space'), ('\\ x', 'space'), ('a\\"b', 'quote'), ("a\\'b", 'quote'), ('a\\\\b', 'backslash'),
               ('a\\{b', 'brace'), ('a\\}', 'brace'), ('a\\;b', 'semicolon'), ('a\\$b', 'punct'), ('w-1\\/2', 'punct'),
               ('sm\\:flex', 'punct'), ('\\32xl\\:p-4', 'punct+leading-digit')]
ESC_DIGIT_LEAD = ['\\31 23', '\\31 x', '\\39 ', '\\30 a-b', '\\000031x', '\\0000322', '\\32\tx', '\\37 7']
ESC_DASH_DIGIT = ['-\\31 x', '-\\32 ', '-\\0000339', '-\\31 -a']
ESC_HEX_LETTER = ['\\61 b', 'a\\62 c', '\\000061b', 'x\\79 ', '\\41 b', 'a\\5f b']
ESC_HEX_NONASCII = ['\\e9 ', '\\E9 x', 'a\\e9 ', '\\0000e9x', '\\3a9 x', '\\65e5 \\672c ', 'a\\df b', '\\1d4b3 ', 'a\\01d4b3x']
ESC_HEX_SYMBOL = ['\\1F600 ', 'a\\1f600 x', '\\01f600x', '\\b7 x', 'a\\a9 ', '\\2605 ', 'a\\002192b']
ESC_NONHEX_LETTER = ['\\g', '\\zoo', 'a\\xb', '\\G', 'a\\-b', '\\_x', 'a\\é']
ESC_HEX_PUNCT = ['a\\2e b', 'a\\20 b', 'a\\40 b', '\\23 x', 'a\\3a b', 'a\\00002fb']


def exotic_ident(rng, p_exotic=0.6, allow_symbol=True):
    """-> (identifier text, [tags]).  Every hex escape is either six digits long or carries its terminating blank."""
    if rng.random() > p_exotic:
        return rng.choice(PLAIN_IDENTS), []
    r = rng.random()
    if not allow_symbol and (0.22 <= r < 0.235 or 0.86 <= r < 0.89):
        r = 0.15
    if r < 0.10:
        t, tag = rng.choice(ODD_PLAIN)
        return t, [tag]
    if r < 0.22:
        return rng.choice(NONASCII), ['nonascii']
    if r < 0.235:
        return rng.choice(SYMBOLS), ['nonascii-symbol']
    if r < 0.46:
        t, k = rng.choice(ESC_SPECIAL)
        return t, ['esc-special:' + k]
    if r < 0.60:
        return rng.choice(ESC_DIGIT_LEAD), ['esc-leading-digit']
    if r < 0.68:
        return rng.choice(ESC_DASH_DIGIT), ['esc-dash-digit']
    if r < 0.76:
        return rng.choice(ESC_HEX_LETTER), ['esc-hex-ascii-letter']
    if r < 0.86:
        return rng.choice(ESC_HEX_NONASCII), ['esc-hex-nonascii']
    if r < 0.89:
        return rng.choice(ESC_HEX_SYMBOL), ['esc-hex-symbol']
    if r < 0.95:
        return rng.choice(ESC_NONHEX_LETTER), ['esc-nonhex-char']
    return rng.choice(ESC_HEX_PUNCT), ['esc-hex-punct']


STR_CONTENTS = [('y', []), ('y z', ['str-space']), ('', ['str-empty']), ('é', ['str-nonascii']), ('a]b', ['str-bracket']),
                ('a,b', ['str-comma']), ('a > b', ['str-combinator']), ('\\31 ', ['str-hex-esc']), ('a\\e9 b', ['str-hex-esc']),
                ('1', ['str-digit']), ('a.b', ['str-punct']), ('#x', ['str-punct']), ('http://x/y?z=1', ['str-url']),
                ('a\\\\b', ['str-esc-backslash']), ('{x}', ['str-brace']), ('a:b', ['str-punct']), ('--x', ['str-dashdash']),
                (' y ', ['str-space']), ('(a)', ['str-paren'])]
ATTR_OPS = ['=', '~=', '|=', '^=', '$=', '*=']


class Exotic:
    def __init__(self, rng, p_exotic=0.5, max_depth=2):
        self.rng, self.p_exotic, self.max_depth = rng, p_exotic, max_depth
        self._depth = 0       # symbols (emoji, middle dot ...) are only generated at top level, never inside pseudo arguments

    def _at(self, tags, where):
        return [t + '@' + where for t in tags]

    def ident(self, where, p=None):
        t, tags = exotic_ident(self.rng, self.p_exotic if p is None else p, allow_symbol=self._depth == 0)
        return t, self._at(tags, where)

    def ns_prefix(self):
        """-> (prefix text, tags) for a namespaced name"""
        r = self.rng.random()
        if r < 0.4:
            return 'ns|', ['ns-named']
        if r < 0.7:
            return '*|', ['ns-any']
        return '|', ['ns-none']

    def type_sel(self):
        rng = self.rng
        r = rng.random()
        if r < 0.12:
            return '*', ['universal']
        if r < 0.30:
            pre, tags = self.ns_prefix()
            if rng.random() < 0.3:
                return pre + '*', tags + ['universal']
            t, tg = self.ident('type', p=0.2)
            return pre + t, tags + tg + ['type']
        t, tg = self.ident('type', p=0.35)
        return t, tg + ['type']

    def sp(self):
        return self.rng.choice(['', '', '', ' ', '  ', '\t'])

    def attr(self):
        rng = self.rng
        tags = ['attr']
        name, tg = self.ident('attr-name', p=0.25)
        tags += tg
        if rng.random() < 0.2:
            pre, tg = self.ns_prefix()
            name = pre + name
            tags += ['attr-' + t for t in tg]
        if rng.random() < 0.15:
            return '[%s%s%s]' % (self.sp(), name, self.sp()), tags + ['attr-exists']
        op = rng.choice(ATTR_OPS)
        tags.append('attr-op:' + op)
        r = rng.random()
        quoted = True
        if r < 0.35:
            val, tg = self.ident('attr-value', p=0.4)
            tags += tg + ['attr-val:ident']
            quoted = False
        else:
            q = '"' if r < 0.75 else "'"
            content, tg = rng.choice(STR_CONTENTS)
            tags += tg + ['attr-val:' + ('dq' if q == '"' else 'sq')]
            if rng.random() < 0.15:
                other = "'" if q == '"' else '"'
                content += other
                tags.append('str-other-quote')
            if rng.random() < 0.03:
                content = content + '\\' + q + 'z'
                tags.append('str-esc-quote')
            val = q + content + q
        mod = ''
        if rng.random() < 0.3:
            m = rng.choice(['i', 's', 'I', 'S'])
            tags.append('attr-mod:' + m.lower() if m.islower() else 'attr-mod:upper')
            gap = rng.choice([' ', ' ', '  ']) if not quoted else rng.choice([' ', ' ', '', '  '])
            if quoted and gap == '':
                tags.append('attr-mod-nogap')
            mod = gap + m
        return '[%s%s%s%s%s%s%s%s]' % (self.sp(), name, self.sp(), op, self.sp(), val, mod, self.sp()), tags

    NTH_ARGS = [('2n+1', 'anb'), ('2n + 1', 'anb-spaces'), ('odd', 'keyword'), ('even', 'keyword'), ('-n+3', 'neg-n'),
                ('-n + 3', 'neg-n-spaces'), ('n', 'n'), ('3', 'int'), ('2n', 'an'), ('-2n-1', 'anb-minus'), ('2n - 1', 'anb-minus-spaces'),
                ('+n', 'plus-n'), ('n+0', 'anb'), ('0n+5', 'anb'), (' 2n+1 ', 'padded'), ('10n+9', 'anb'), ('-3', 'neg-int'),
                ('+5', 'plus-int')]

    def pseudo(self, depth=0):
        rng = self.rng
        r = rng.random()
        if r < 0.25:
            t = rng.choice([':hover', ':first-child', ':focus-visible', ':-moz-focusring', ':root', ':empty', ':checked',
                            ':any-link', ':only-of-type'])
            return t, ['pc']
        if r < 0.33:
            t = rng.choice([':lang(en)', ':lang(fr-CH)', ':dir(rtl)', ':lang( en )'])
            return t, ['pc-arg-raw']
        if r < 0.55:
            name = rng.choice(['nth-child', 'nth-last-child', 'nth-of-type', 'nth-last-of-type'])
            arg, cls = rng.choice(self.NTH_ARGS)
            tags = ['nth', 'nth:' + cls]
            if name in ('nth-child', 'nth-last-child') and rng.random() < 0.3 and depth < self.max_depth:
                inner, itags = self.sel_list(depth + 1, maxn=2, maxlen=2)
                arg = arg.strip() + rng.choice([' of ', ' of ', '  of  ']) + inner
                tags += ['nth-of'] + ['in-nth-of/' + t for t in itags]
            return ':%s(%s)' % (name, arg), tags
        if depth < self.max_depth:
            name = rng.choice(['not', 'is', 'where', 'has', 'matches', 'not', 'is', '-webkit-any', 'host', 'host-context'])
            rel = name == 'has' and rng.random() < 0.5
            inner, itags = self.sel_list(depth + 1, maxn=2, maxlen=2, relative=rel)
            pad = rng.choice(['', '', ' '])
            return ':%s(%s%s%s)' % (name, pad, inner, pad), ['selarg:' + name] + (['selarg-relative'] if rel else []) + \
                ['in-arg/' + t for t in itags]
        return ':hover', ['pc']

    def pseudo_element(self, depth=0):
        rng = self.rng
        r = rng.random()
        if r < 0.7:
            return rng.choice(['::before', '::after', ':before', ':after', '::first-line', '::selection', '::-webkit-scrollbar',
                               '::placeholder', '::marker']), ['pe']
        if r < 0.85 and depth < self.max_depth:
            inner, itags = self.compound(depth + 1, allow_pe=False)
            return '::slotted(%s)' % inner, ['pe-selarg:slotted'] + ['in-arg/' + t for t in itags]
        return rng.choice(['::part(x)', '::part(x y)', '::cue(b)', '::highlight(x)']), ['pe-arg']

    def simple(self, depth=0):
        """One non-type simple selector -> (text, tags)."""
        rng = self.rng
        r = rng.random()
        if r < 0.38:
            t, tg = self.ident('class')
            return '.' + t, tg + ['class']
        if r < 0.52:
            t, tg = self.ident('id')
            return '#' + t, tg + ['id']
        if r < 0.76:
            return self.attr()
        return self.pseudo(depth)

    def compound_parts(self, depth=0, allow_pe=True):
        save = self._depth
        self._depth = depth
        try:
            return self._compound_parts(depth, allow_pe)
        finally:
            self._depth = save

    def _compound_parts(self, depth, allow_pe):
        rng = self.rng
        parts = []
        if rng.random() < 0.5:
            parts.append(self.type_sel())
        n = rng.choice([0, 1, 1, 1, 2, 2, 3]) if parts else rng.choice([1, 1, 1, 2, 2, 3])
        got_id = False
        for _ in range(n):
            s = self.simple(depth)
            if 'id' in s[1]:
                if got_id:
                    continue
                got_id = True
            parts.append(s)
        if allow_pe and rng.random() < 0.12:
            parts.append(self.pseudo_element(depth))
        return parts

    def compound(self, depth=0, allow_pe=True):
        parts = self.compound_parts(depth, allow_pe)
        return ''.join(t for t, _ in parts), [x for _, tg in parts for x in tg]

    def comb_text(self):
        rng = self.rng
        c = rng.choice([' ', ' ', ' ', '>', '>', '+', '~'])
        if c == ' ':
            return rng.choice([' ', ' ', ' ', '  ', '\t']), ['comb-desc']
        l, r = rng.choice([(' ', ' '), (' ', ' '), ('', ''), ('', ' '), (' ', ''), ('  ', '  ')])
        return l + c + r, ['comb' + {'>': '-child', '+': '-next', '~': '-sibling'}[c]] + (['comb-tight'] if not (l and r) else [])

    def complex(self, depth=0, maxlen=3, relative=False, parts_out=None):
        rng = self.rng
        text, tags = '', []
        if relative:
            c = rng.choice(['>', '+', '~'])
            text += c + rng.choice([' ', ' ', ''])
            tags.append('relative' + {'>': '-child', '+': '-next', '~': '-sibling'}[c])
        n = rng.choice([1, 1, 2, 2, 3]) if maxlen >= 3 else rng.choice([1, 1, 2])
        for k in range(n):
            if k:
                ct, ctg = self.comb_text()
                text += ct
                tags += ctg
            parts = self.compound_parts(depth, allow_pe=(k == n - 1 and depth == 0))
            if parts_out is not None:
                parts_out.extend(parts)
            text += ''.join(t for t, _ in parts)
            tags += [x for _, tg in parts for x in tg]
        return text, tags

    def sel_list(self, depth=0, maxn=3, maxlen=3, relative=False, parts_out=None):
        rng = self.rng
        n = rng.randint(1, maxn)
        texts, tags = [], []
        for _ in range(n):
            t, tg = self.complex(depth, maxlen, relative, parts_out)
            texts.append(t)
            tags += tg
        if n > 1:
            tags.append('list')
        sep = rng.choice([', ', ', ', ',', ' , ', ',  '])
        return sep.join(texts), tags
