"""Build the driver (and the rsass CLI) from the repository's current working tree."""
import fcntl, os, subprocess, sys, hashlib, shutil

VERIF = os.path.dirname(os.path.dirname(os.path.dirname(os.path.abspath(__file__))))
REPO = os.environ.get('VERIF_REPO', '/repo')
OUT = os.path.join(VERIF, 'out')


def _tag(repo):
    return 'repo' if repo == '/repo' else 'x' + hashlib.sha1(repo.encode()).hexdigest()[:10]


def _env():
    e = dict(os.environ)
    e['CARGO_NET_OFFLINE'] = 'true'
    e.pop('RUSTFLAGS', None)
    return e


def harness_dir(repo=REPO):
    return os.path.join(OUT, 'harness-' + _tag(repo))


def target_dir(repo=REPO):
    return os.path.join(OUT, 'target' if repo == '/repo' else 'target-' + _tag(repo))


def prepare_harness(repo=REPO):
    d = harness_dir(repo)
    os.makedirs(d, exist_ok=True)
    tmpl = open(os.path.join(VERIF, 'harness', 'Cargo.toml.in')).read().replace('@REPO@', repo)
    p = os.path.join(d, 'Cargo.toml')
    if not os.path.exists(p) or open(p).read() != tmpl:
        with open(p + '.tmp', 'w') as f:
            f.write(tmpl)
        os.replace(p + '.tmp', p)
    src = os.path.join(d, 'src')
    if not os.path.islink(src):
        if os.path.exists(src):
            shutil.rmtree(src)
        os.symlink(os.path.join(VERIF, 'harness', 'src'), src)
    lock = os.path.join(d, 'Cargo.lock')
    if not os.path.exists(lock) and os.path.exists(os.path.join(repo, 'Cargo.lock')):
        shutil.copy(os.path.join(repo, 'Cargo.lock'), lock)
    return d


def _fingerprint(repo):
    """Digest of (path, size, mtime_ns) of every file that can influence the build: the repository outside target/ and
    .git/, and the harness sources."""
    h = hashlib.sha1()
    for root in (repo, os.path.join(VERIF, 'harness')):
        for d, dirs, files in os.walk(root):
            dirs[:] = sorted(x for x in dirs if x not in ('target', '.git', 'tests', 'spectest'))
            for f in sorted(files):
                p = os.path.join(d, f)
                try:
                    st = os.stat(p)
                except OSError:
                    continue
                h.update(('%s|%d|%d\n' % (p, st.st_size, st.st_mtime_ns)).encode())
    return h.hexdigest()


def _locked(name):
    os.makedirs(OUT, exist_ok=True)
    lk = open(os.path.join(OUT, '.build-%s.lock' % name), 'w')
    fcntl.flock(lk, fcntl.LOCK_EX)
    return lk


def build_driver(repo=REPO, quiet=True):
    """Returns (driver_path, conc_path), rebuilt from the repository's current working tree.  cargo is only invoked when
    a source file changed since the last successful build of this target (same rule cargo itself uses: size + mtime).
    Raises RuntimeError when the build fails."""
    td = target_dir(repo)
    outs = (os.path.join(td, 'release', 'driver'), os.path.join(td, 'release', 'conc'))
    stamp = os.path.join(td, '.verif-fingerprint')
    with _locked('driver-' + _tag(repo)):
        fp = _fingerprint(repo)
        if all(os.path.exists(o) for o in outs) and os.path.exists(stamp) and open(stamp).read() == fp:
            return outs
        d = prepare_harness(repo)
        r = subprocess.run(['cargo', 'build', '--release', '--offline'], cwd=d,
                           env=dict(_env(), CARGO_TARGET_DIR=td),
                           stdout=subprocess.PIPE, stderr=subprocess.STDOUT, text=True)
        if r.returncode != 0:
            sys.stderr.write(r.stdout[-6000:])
            raise RuntimeError('driver build failed')
        if _fingerprint(repo) == fp:
            with open(stamp, 'w') as f:
                f.write(fp)
    return outs


def build_cli(repo=REPO):
    """Build the rsass command-line tool from the working tree; returns its path."""
    td = target_dir(repo) + '-cli'
    out = os.path.join(td, 'debug', 'rsass')
    stamp = os.path.join(td, '.verif-fingerprint')
    with _locked('cli-' + _tag(repo)):
        fp = _fingerprint(repo)
        if os.path.exists(out) and os.path.exists(stamp) and open(stamp).read() == fp:
            return out
        r = subprocess.run(['cargo', 'build', '--offline', '-p', 'rsass-cli'], cwd=repo,
                           env=dict(_env(), CARGO_TARGET_DIR=td),
                           stdout=subprocess.PIPE, stderr=subprocess.STDOUT, text=True)
        if r.returncode != 0:
            sys.stderr.write(r.stdout[-6000:])
            raise RuntimeError('cli build failed')
        if _fingerprint(repo) == fp:
            with open(stamp, 'w') as f:
                f.write(fp)
    return out
