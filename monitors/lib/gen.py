"""Shared generators: hostile values, builtin function tables, lexical helpers."""
import re

MODULE_FUNCS = {
    'math': ['abs', 'acos', 'asin', 'atan', 'atan2', 'ceil', 'clamp', 'compatible', 'cos', 'div', 'exp', 'floor',
             'hypot', 'is-unitless', 'log', 'max', 'min', 'percentage', 'pow', 'random', 'round', 'sin', 'sqrt',
             'tan', 'unit'],
    'string': ['index', 'insert', 'length', 'quote', 'slice', 'split', 'to-lower-case', 'to-upper-case',
               'unique-id', 'unquote'],
    'list': ['append', 'index', 'is-bracketed', 'join', 'length', 'nth', 'separator', 'set-nth', 'slash', 'zip'],
    'map': ['deep-merge', 'deep-remove', 'get', 'has-key', 'keys', 'merge', 'remove', 'set', 'values'],
    'color': ['adjust', 'adjust-hue', 'alpha', 'blackness', 'blue', 'change', 'complement', 'darken',
              'desaturate', 'fade-in', 'fade-out', 'grayscale', 'green', 'hue', 'hwb', 'ie-hex-str', 'invert',
              'lighten', 'lightness', 'mix', 'opacify', 'opacity', 'red', 'saturate', 'saturation', 'scale',
              'transparentize', 'whiteness'],
    'selector': ['append', 'extend', 'is-superselector', 'nest', 'parse', 'replace', 'simple-selectors', 'unify'],
    'meta': ['calc-args', 'calc-name', 'call', 'content-exists', 'feature-exists', 'function-exists',
             'get-function', 'global-variable-exists', 'inspect', 'keywords', 'mixin-exists', 'module-functions',
             'module-variables', 'type-of', 'variable-exists'],
}
GLOBAL_FUNCS = ['rgb', 'rgba', 'hsl', 'hsla', 'hwb', 'mix', 'lighten', 'darken', 'saturate', 'desaturate',
                'grayscale', 'complement', 'invert', 'alpha', 'opacity', 'opacify', 'fade-in', 'transparentize',
                'fade-out', 'adjust-hue', 'adjust-color', 'scale-color', 'change-color', 'ie-hex-str', 'red',
                'green', 'blue', 'hue', 'saturation', 'lightness', 'unquote', 'quote', 'str-length', 'str-insert',
                'str-index', 'str-slice', 'to-upper-case', 'to-lower-case', 'percentage', 'round', 'ceil', 'floor',
                'abs', 'min', 'max', 'random', 'length', 'nth', 'set-nth', 'join', 'append', 'zip', 'index',
                'list-separator', 'is-bracketed', 'map-get', 'map-merge', 'map-remove', 'map-keys', 'map-values',
                'map-has-key', 'keywords', 'selector-nest', 'selector-append', 'selector-extend',
                'selector-replace', 'selector-unify', 'is-superselector', 'simple-selectors', 'selector-parse',
                'feature-exists', 'variable-exists', 'global-variable-exists', 'function-exists', 'mixin-exists',
                'inspect', 'type-of', 'unit', 'unitless', 'comparable', 'call', 'get-function', 'if', 'unique-id',
                'calc', 'clamp', 'min', 'max', 'url', 'var', 'env', 'element', 'expression', 'sin', 'cos', 'sqrt',
                'hypot', 'pow', 'log', 'exp', 'sign', 'mod', 'rem', 'atan2', 'translate', 'not-a-function']
USE_ALL = ''.join('@use "sass:%s";' % m for m in MODULE_FUNCS)

HOSTILE_VALUES = [
    'null', 'true', 'false', '()', '[]', '(a: 1)', '(a: (b: (c: 1)))', '""', "''", 'a', '"a b"', 'a b', 'a, b',
    '[a b]', '(a,)', '0', '-0', '1', '-1', '0.5', '-0.5', '1.5', '2', '10', '100', '255', '256', '360', '1e3',
    '1e308', '1e-308', '1e-320', '9007199254740993', '-9007199254740993', '9223372036854775807',
    '-9223372036854775808', '9223372036854775808', '18446744073709551616', '1e19', '1e100', '-1e100',
    '0.1 + 0.2', 'math.div(1, 0)', 'math.div(-1, 0)', 'math.div(0, 0)', '-1 * math.div(0, 0)', 'math.$pi',
    'math.$e', 'math.$max-safe-integer', 'math.$min-safe-integer', 'math.$epsilon', 'math.$max-number',
    'math.$min-number', '1px', '1em', '1%', '1deg', '1rad', '1s', '1ms', '1in', '1cm', '1x', '1dpi', '1fr',
    '1foo', '1px*1px', 'math.div(1px, 1s)', 'math.div(1, 1px)', '1px*1em', '1e300px', '-1e300%', '2147483647',
    '2147483648', '-2147483649', '4294967296', '1.0000000000001', '0.99999999999999', '1e15', '1e16', '1e17',
    '1e21', '5e-324', '1.7976931348623157e308', 'red', '#123', '#12345678', 'transparent', 'rgba(1,2,3,.5)',
    'hsl(10, 20%, 30%)', 'hwb(10 20% 30%)', 'hsl(math.div(0,0), 1%, 1%)', 'rgb(math.div(1,0), 0, 0)',
    'rgba(0,0,0,math.div(0,0))', 'hsl(1e300, 1e300%, 1e300%)', 'hsl(-1e300, -5%, 200%)',
    'rgb(-1, 300, 1e20)', 'var(--x)', 'calc(1px + 1%)', 'calc(1px + var(--x))', 'calc(infinity)', 'calc(NaN)',
    'calc(-infinity * 1px)', 'min(1px, 2em)', 'clamp(1px, 2em, 3vw)', 'env(x)', 'url(x)', 'url("y z")', '&',
    '"\\\\"', '"\\""', '"\\a"', '"\\0"', '"\\110000"', '"\\d800"', '"\\e000x"', '"\\ "', 'a\\ b', '\\31 x',
    '"åäö"', '"\U0001F600"', '"é"', '"﻿"', '"\u0000"', 'é', '--x', '-', '-a', '- a', '+1',
    '1 + a', 'a + 1', '"a" + 1', '1/2', '1 / 2', '(1/2)', 'a/b', '1 % 0', '1 % -0', '5 % math.div(1,0)',
    '-5 % math.div(1,0)', 'math.div(1,0) % 5', '1px % 1em', 'not 1', '1 and 2', 'null or null',
    'meta.get-function("abs")', 'meta.get-function("hsl", $css: true)', 'get-function(lighten)',
    '!important', 'a !important', 'U+0-7F', 'u+1f?', '#{1+1}', '#{a}b#{c}', '"#{1}"', '1#{2}', '#{1}px',
    'a b c d e f g', '1 2 3, 4 5 6', '(1 2) (3 4)', 'a / b / c', '(a: 1, b: 2, c: 3)', '((a b): c)',
    'selector.parse("a b, c > d")', 'list.slash(1, 2)', '1 2 3...', 'string.unquote("")', 'unquote("a{b")',
    'unquote("\\"")', 'unquote("}")', '%', '1 %', '@', '$undefined', '$', '1..2', '1.', '.', '1e', '1e+', '0x1',
    '1_000', '١٢٣', '1.5.5', '--1', '1--1', '1 - -1', '1 -1', '1- 1', '(', ')', '((((1))))', '{}', ';',
]

_OPEN = b'{(['
_CLOSE = b'})]'


def nest_depth(b):
    """Combined lexical nesting depth: maximum over prefixes of openers minus closers of { ( [ (which also
    counts #{ and call parentheses).  Strings and comments are not skipped: that can only over-estimate, so an
    input accepted here is inside the property's precondition however its brackets are read."""
    if isinstance(b, str):
        b = b.encode('utf-8', 'surrogatepass')
    d = m = 0
    for c in b:
        if c in (0x7b, 0x28, 0x5b):
            d += 1
            if d > m:
                m = d
        elif c in (0x7d, 0x29, 0x5d):
            if d > 0:
                d -= 1
    return m


def open_count(b):
    """Total number of openers (a stricter measure used to bound generated nests)."""
    if isinstance(b, str):
        b = b.encode('utf-8', 'surrogatepass')
    return sum(1 for c in b if c in (0x7b, 0x28, 0x5b))


_DEF = re.compile(r'@(function|mixin)\s+([\w-]+)')


def recursion_suspect(src):
    """True when a user-defined function or mixin name occurs again after its definition header
    (possible user-level recursion, which needs a recursion limit rather than a parser fix)."""
    if isinstance(src, bytes):
        src = src.decode('utf-8', 'replace')
    for m in _DEF.finditer(src):
        name = re.escape(m.group(2)).replace('\\-', '[-_]').replace('_', '[-_]')
        rest = src[m.end():]
        if m.group(1) == 'function':
            if re.search(r'(?<![\w-])' + name + r'\s*\(', rest) or 'call(' in rest or 'get-function' in rest:
                return True
        else:
            if re.search(r'@include\s+' + name + r'(?![\w-])', rest) or 'load-css' in rest or '@content' in rest:
                return True
    return False


def hostile_value(rng, depth=0):
    r = rng.random()
    if depth < 2 and r < 0.25:
        m = rng.choice(list(MODULE_FUNCS))
        f = rng.choice(MODULE_FUNCS[m])
        n = rng.choice([0, 1, 1, 2, 2, 3, 4])
        return '%s.%s(%s)' % (m, f, ', '.join(hostile_value(rng, depth + 1) for _ in range(n)))
    if depth < 2 and r < 0.35:
        f = rng.choice(GLOBAL_FUNCS)
        n = rng.choice([0, 1, 1, 2, 2, 3, 4])
        return '%s(%s)' % (f, ', '.join(hostile_value(rng, depth + 1) for _ in range(n)))
    if depth < 2 and r < 0.45:
        op = rng.choice(['+', '-', '*', '/', '%', '==', '!=', '<', '>', '<=', '>=', 'and', 'or'])
        return '(%s %s %s)' % (hostile_value(rng, depth + 1), op, hostile_value(rng, depth + 1))
    if depth < 2 and r < 0.5:
        sep = rng.choice([' ', ', ', ' / '])
        v = sep.join(hostile_value(rng, depth + 1) for _ in range(rng.randint(1, 3)))
        return rng.choice(['(%s)', '[%s]', '%s']) % v
    return rng.choice(HOSTILE_VALUES)
