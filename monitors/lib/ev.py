"""Evaluate SassScript expressions through the real compiler, one expression per job."""
from . import gen, css

HEAD = 'a {\n  b: '
TAIL = ';\n}\n'


def extract(out):
    out = css.strip_header(out)
    if out.startswith(HEAD) and out.endswith(TAIL):
        return out[len(HEAD):-len(TAIL)]
    return None


def jobs_for(exprs, defs='', inspect=True, precision=10, style='expanded', prelude=None):
    pre = gen.USE_ALL if prelude is None else prelude
    fmt = 'a{b:meta.inspect(%s)}' if inspect else 'a{b:%s}'
    return [{'src': pre + defs + fmt % e, 'precision': precision, 'style': style} for e in exprs]


def results(res):
    """-> list of ('ok', text) | ('err', message) | ('other', status)"""
    out = []
    for r in res:
        st = r.get('status')
        if st == 'ok':
            t = extract(r.get('out', ''))
            if t is None:
                out.append(('ok-unparsed', r.get('out', '')))
            else:
                out.append(('ok', t))
        elif st == 'err':
            out.append(('err', r.get('err', '')))
        else:
            out.append(('other', st))
    return out


def evaluate(ctx, exprs, **kw):
    return results(ctx.batch(jobs_for(exprs, **kw)))


import re
_MARK = re.compile(r'\n  p(\d+): ')


def evaluate_many(ctx, exprs, defs='', inspect=True, precision=10, style='expanded', prelude=None, chunk=25):
    """Like evaluate(), but packs `chunk` expressions into one stylesheet (falls back to one job per expression
    for a chunk that fails as a whole or whose output cannot be split unambiguously)."""
    pre = gen.USE_ALL if prelude is None else prelude
    fmt = 'p%d:meta.inspect(%s);' if inspect else 'p%d:%s;'
    groups = [exprs[i:i + chunk] for i in range(0, len(exprs), chunk)]
    jobs = [{'src': pre + defs + 'a{' + ''.join(fmt % (k, e) for k, e in enumerate(g)) + '}', 'precision': precision, 'style': style}
            for g in groups]
    res = ctx.batch(jobs)
    out = []
    for g, r in zip(groups, res):
        vals = None
        if r.get('status') == 'ok':
            t = css.strip_header(r.get('out', ''))
            if t.startswith('a {') and t.endswith(';\n}\n'):
                body = t[3:-4]
                parts = _MARK.split(body)
                # parts: ['', '0', 'v0;', '1', 'v1;', ...]
                if parts and parts[0] == '' and len(parts) == 2 * len(g) + 1 and \
                        all(parts[2 * k + 1] == str(k) for k in range(len(g))):
                    vals = [('ok', parts[2 * k + 2][:-1] if parts[2 * k + 2].endswith(';') else parts[2 * k + 2]) for k in range(len(g))]
        if vals is None:
            vals = evaluate(ctx, g, defs=defs, inspect=inspect, precision=precision, style=style, prelude=prelude)
        out.extend(vals)
    return out
