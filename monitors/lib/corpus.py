"""sass-spec inputs extracted from the string literals of <repo>/rsass/tests/spec/**/*.rs."""
import json, os, re
from . import build

PATH = os.path.join(build.OUT, 'corpus.jsonl')


def _unescape(lit):
    out = []
    i, n = 0, len(lit)
    while i < n:
        c = lit[i]
        if c != '\\':
            out.append(c); i += 1; continue
        i += 1
        c = lit[i]
        if c == 'n': out.append('\n'); i += 1
        elif c == 't': out.append('\t'); i += 1
        elif c == 'r': out.append('\r'); i += 1
        elif c == '0': out.append('\0'); i += 1
        elif c in '\\"\'': out.append(c); i += 1
        elif c == 'u':
            j = lit.index('}', i); out.append(chr(int(lit[i + 2:j], 16))); i = j + 1
        elif c == 'x': out.append(chr(int(lit[i + 1:i + 3], 16))); i += 3
        elif c == '\n':
            i += 1
            while i < n and lit[i] in ' \t\n\r': i += 1
        else:
            raise ValueError('esc ' + c)
    return ''.join(out)


_PAT = re.compile(r'\.(ok|err)\(\s*"((?:[^"\\]|\\.|\\\n)*)"', re.S)


def extract(repo=build.REPO):
    root = os.path.join(repo, 'rsass', 'tests', 'spec')
    os.makedirs(build.OUT, exist_ok=True)
    n = 0
    with open(PATH + '.tmp', 'w') as f:
        for d, _, fs in sorted(os.walk(root)):
            for fn in sorted(fs):
                if not fn.endswith('.rs'):
                    continue
                p = os.path.join(d, fn)
                try:
                    s = open(p, encoding='utf-8').read()
                except Exception:
                    continue
                mock = 'mock_file' in s
                for m in _PAT.finditer(s):
                    try:
                        src = _unescape(m.group(2))
                    except Exception:
                        continue
                    f.write(json.dumps({'file': os.path.relpath(p, root), 'kind': m.group(1), 'mock': mock, 'src': src}) + '\n')
                    n += 1
    os.replace(PATH + '.tmp', PATH)
    return n


_cache = None


def load():
    global _cache
    if _cache is None:
        if not os.path.exists(PATH):
            extract()
        _cache = [json.loads(l) for l in open(PATH)]
    return _cache
