"""Client for the driver job server: pipelined batches, crash attribution, watchdog."""
import json, os, select, subprocess, threading, time, signal


class Driver:
    def __init__(self, binary, cwd=None, timeout=10.0):
        self.binary = binary
        self.cwd = cwd
        self.timeout = timeout
        self.p = None
        self.buf = b''
        self.restarts = 0
        self.crashes = 0
        self.timeouts = 0

    def _start(self):
        # 8 MiB main-thread stack is the default ulimit; job threads get 8 MiB explicitly.
        self.p = subprocess.Popen([self.binary], stdin=subprocess.PIPE, stdout=subprocess.PIPE,
                                  stderr=subprocess.DEVNULL, cwd=self.cwd, bufsize=0)
        self.buf = b''
        self.restarts += 1

    def close(self):
        if self.p is not None:
            try:
                self.p.stdin.close()
            except Exception:
                pass
            try:
                self.p.kill()
            except Exception:
                pass
            try:
                self.p.wait(timeout=5)
            except Exception:
                pass
            self.p = None

    def _readline(self, deadline):
        """Returns a line (bytes, without newline), None on EOF, or 'timeout'."""
        fd = self.p.stdout.fileno()
        while True:
            i = self.buf.find(b'\n')
            if i >= 0:
                line, self.buf = self.buf[:i], self.buf[i + 1:]
                return line
            left = deadline - time.monotonic()
            if left <= 0:
                return 'timeout'
            r, _, _ = select.select([fd], [], [], min(left, 1.0))
            if not r:
                continue
            chunk = os.read(fd, 1 << 16)
            if not chunk:
                return None
            self.buf += chunk

    def call(self, job, timeout=None):
        return self.batch([job], timeout)[0]

    def batch(self, jobs, timeout=None):
        timeout = timeout or self.timeout
        n = len(jobs)
        results = [None] * n
        i = 0
        while i < n:
            if self.p is None or self.p.poll() is not None:
                self._start()
            p = self.p
            lines = []
            for k in range(i, n):
                j = dict(jobs[k])
                j['id'] = k
                lines.append(json.dumps(j))
            data = ('\n'.join(lines) + '\n').encode()

            def feed(p=p, data=data):
                try:
                    p.stdin.write(data)
                    p.stdin.flush()
                except Exception:
                    pass
            w = threading.Thread(target=feed, daemon=True)
            w.start()
            inflight = None
            deadline = time.monotonic() + timeout + 20
            while i < n:
                line = self._readline(deadline)
                if line == 'timeout':
                    self.timeouts += 1
                    idx = inflight if inflight is not None else i
                    results[idx] = {'status': 'timeout', 'id': idx}
                    i = idx + 1
                    self.close()
                    break
                if line is None:
                    rc = p.wait()
                    self.crashes += 1
                    idx = inflight if inflight is not None else i
                    results[idx] = {'status': 'crash', 'rc': rc, 'id': idx,
                                    'signal': signal.Signals(-rc).name if rc < 0 else None,
                                    'attributed': inflight is not None}
                    i = idx + 1
                    self.p = None
                    break
                if line.startswith(b'B '):
                    try:
                        inflight = int(line[2:])
                    except ValueError:
                        inflight = None
                    deadline = time.monotonic() + timeout
                elif line.startswith(b'R '):
                    r = json.loads(line[2:])
                    idx = r.get('id', i)
                    if not isinstance(idx, int):
                        idx = i
                    results[idx] = r
                    i = idx + 1
                    inflight = None
                    deadline = time.monotonic() + timeout + 20
        return results


def outbytes(r):
    """The output bytes of a compile result."""
    if 'out_hex' in r:
        return bytes.fromhex(r['out_hex'])
    return r.get('out', '').encode()


def src(b):
    """Encode source bytes/str for a job."""
    if isinstance(b, str):
        return b
    try:
        return b.decode('utf-8')
    except UnicodeDecodeError:
        return {'hex': b.hex()}
