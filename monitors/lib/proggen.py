"""Random well-formed SCSS programs (shared by the relational monitors C05 C07 C08 C35 C38 C40)."""

IDENT = ['a', 'b', 'c', 'd', 'x', 'y', 'foo', 'bar', 'baz', 'item', 'box', 'nav', 'btn', 'w-1', 'is_on', 'h1', 'p', 'ul', 'li',
         'main', 'col-2']
NONASCII_IDENT = ['é', 'ünï', 'ключ', '日本', 'a\U0001F600', 'naïve', 'ß', 'ø-x', 'ǅ', '٣x', 'a·b']
PROPS = ['color', 'margin', 'padding', 'width', 'height', 'border', 'font', 'background', 'top', 'left', 'display',
         'content', 'transition', 'grid-area', 'z-index', 'opacity', 'transform', 'flex', 'line-height', 'outline']
UNITS = ['', '', 'px', 'em', '%', 'rem', 'pt', 'deg', 's', 'ms', 'vh', 'fr', 'cm', 'in']
COLORS = ['red', '#123', '#abcdef', '#A1B2C3', 'blue', 'transparent', 'rgba(1, 2, 3, 0.5)', 'hsl(120, 50%, 50%)', '#ff0000',
          'rgb(10, 20, 30)', 'hsla(10, 20%, 30%, 0.4)', '#0000', '#12345678', 'rebeccapurple', 'rgba(255, 0, 0, 0.25)',
          'hwb(30 20% 10%)', 'lighten(#123, 10%)', 'mix(red, blue)', 'darken(red, 10%)', 'rgba(red, 0.5)', 'hsl(0, 100%, 50%)']
STRS = ['"s"', "'t'", '"a b"', '"it\'s"', '"say \\"hi\\""', '"é"', '"日本"', '"\\a"', '"x\\"y"', '"\U0001F600"', '""', '"a/*b*/"',
        '"}"', '"{"', '";"', '"url(x)"', '"\\\\"', '"tab\\9 x"', '"#{1+1}"', '"a#{b}c"']


class Gen:
    def __init__(self, rng, nonascii=0.0, features=None):
        self.rng = rng
        self.nonascii = nonascii
        self.vars = []
        self.mixins = []
        self.funcs = []
        self.marker = 0
        self.features = features   # None = all

    def on(self, f):
        return self.features is None or f in self.features

    def ident(self):
        if self.rng.random() < self.nonascii:
            return self.rng.choice(NONASCII_IDENT)
        return self.rng.choice(IDENT)

    def number(self):
        r = self.rng
        k = r.random()
        if k < 0.4:
            v = str(r.randint(-20, 200))
        elif k < 0.7:
            v = '%.*f' % (r.randint(1, 6), r.uniform(-100, 100))
        elif k < 0.8:
            v = r.choice(['0', '0.5', '.5', '-0.5', '1.0', '0.001', '1e3', '100', '0.30000000000000004', '1.23456789012',
                          '1000000', '0.0001', '-.25', '+3', '00.10'])
        else:
            v = '%d.%d' % (r.randint(0, 9), r.randint(0, 999999))
        return v + r.choice(UNITS)

    def value(self, depth=0):
        r = self.rng
        k = r.random()
        if k < 0.22:
            return self.number()
        if k < 0.34:
            return r.choice(COLORS)
        if k < 0.44:
            s = r.choice(STRS)
            if self.rng.random() < self.nonascii:
                s = '"%s"' % r.choice(NONASCII_IDENT)
            return s
        if k < 0.54:
            return self.ident()
        if k < 0.6 and self.vars:
            return '$' + r.choice(self.vars)
        if depth < 2:
            if k < 0.68:
                return '%s %s' % (self.value(depth + 1), self.value(depth + 1))
            if k < 0.73:
                return '%s, %s' % (self.value(depth + 1), self.value(depth + 1))
            if k < 0.8:
                op = r.choice(['+', '-', '*'])
                return '(%s %s %s)' % (self.number(), op, r.choice([str(r.randint(1, 9)), self.number()]) if op != '*' else str(r.randint(1, 9)))
            if k < 0.9:
                f = r.choice(['math.div(%s, 3)' % self.number(), 'percentage(0.%d)' % r.randint(1, 99), 'round(%s)' % self.number(),
                              'if(true, %s, %s)' % (self.value(2), self.value(2)), 'nth((a b c), %d)' % r.randint(1, 3),
                              'calc(100% - 10px)', 'calc(1px + 2px)', 'var(--x)', 'var(--y, 10px)', 'url(img.png)', 'url("a b.png")',
                              'translate(10px, 20%)', 'min(1px, 2px)', 'max(10%, 2em)', 'clamp(1px, 2vw, 3px)', 'join(a b, c d)',
                              'quote(x)', 'unquote("y z")', 'str-length("abc")', 'to-upper-case("abc")', 'abs(-3px)',
                              'map-get((k: v), k)', 'length(1 2 3)', 'type-of(1px)', 'inspect((a: 1))', 'rotate(45deg)',
                              'linear-gradient(to right, red 0%, blue 100%)', 'attr(data-x)', 'counter(item)', 'scale(1.5)',
                              'string.slice("abcdef", 2, 4)', 'list.nth(1px 2px 3px, -1)', 'math.floor(2.7px)',
                              'color.adjust(#123, $red: 10)', 'rgba(#fff, .3)', 'math.sqrt(16)', 'math.pow(2, 10)'])
                return f
            if k < 0.94:
                return '%s/%s' % (self.number(), r.choice(['2', '3px', 'a']))
            if k < 0.97:
                return '[%s]' % self.value(2)
            return '%s !important' % self.value(2)
        return self.number()

    def simple_selector(self):
        r = self.rng
        k = r.random()
        i = self.ident()
        if k < 0.3:
            return i
        if k < 0.55:
            return '.' + i
        if k < 0.65:
            return '#' + i
        if k < 0.72:
            return '[%s]' % i
        if k < 0.78:
            return '[%s=%s]' % (i, r.choice(['"v"', 'v', '"a b"', "'q'"]))
        if k < 0.85:
            return i + r.choice([':hover', ':first-child', '::before', ':not(.x)', ':nth-child(2n+1)', ':is(a, .b)', ':focus'])
        if k < 0.9:
            return '*'
        if k < 0.95:
            return '%s.%s' % (i, self.ident())
        return '%' + i if self.on('placeholder') else '.' + i

    def complex_selector(self, nested):
        r = self.rng
        parts = [self.simple_selector()]
        for _ in range(r.choice([0, 0, 0, 1, 1, 2])):
            parts.append(r.choice([' ', ' > ', ' + ', ' ~ ']))
            parts.append(self.simple_selector())
        s = ''.join(parts)
        if nested and r.random() < 0.3:
            s = r.choice(['&%s' % r.choice([':hover', '.on', '-sfx', '__el', '::after']), '& %s' % s, '%s &' % s, '& > %s' % s])
        return s

    def selector(self, nested=False):
        return ', '.join(self.complex_selector(nested) for _ in range(self.rng.choice([1, 1, 1, 2, 3])))

    def decl(self):
        self.marker += 1
        p = self.rng.choice(PROPS)
        if self.rng.random() < 0.05:
            return '--%s: %s;' % (self.ident(), self.rng.choice(['1px', '{a: b}', ' x y ', '#{1+1}', 'calc(1 + 2)', '"s"']))
        return '%s: %s;' % (p, self.value())

    def comment(self):
        r = self.rng
        t = r.choice(['note', 'x y z', 'é', 'multi\n * line', 'a{b}', '#{1+1}', '', ' ', '! keep', '*', '"', "it's"])
        k = r.random()
        if k < 0.5:
            return '/* %s */' % t
        if k < 0.7:
            return '/*! %s */' % t
        return '// %s\n' % t.replace('\n', ' ')

    def body(self, depth, in_rule):
        r = self.rng
        out = []
        n = r.randint(1, 4)
        for _ in range(n):
            out.append(self.statement(depth, in_rule))
        return '\n'.join(out)

    def statement(self, depth, in_rule):
        r = self.rng
        k = r.random()
        ind = '  ' * depth
        if in_rule and k < 0.4:
            return ind + self.decl()
        if k < 0.5 and self.on('comment'):
            return ind + self.comment()
        if k < 0.56:
            v = self.ident().replace('-', '_') + str(r.randint(0, 3))
            s = ind + '$%s: %s%s;' % (v, self.value(), r.choice(['', '', ' !default', ' !global']))
            self.vars.append(v)
            return s
        if depth >= 3:
            return ind + (self.decl() if in_rule else '%s { %s }' % (self.selector(), self.decl()))
        if k < 0.72:
            return ind + '%s {\n%s\n%s}' % (self.selector(in_rule), self.body(depth + 1, True), ind)
        if k < 0.78 and self.on('media'):
            q = r.choice(['print', 'screen and (min-width: 100px)', '(max-width: 50em)', 'not all', 'screen, print',
                          '(min-width: %s)' % self.number().replace('%', 'px'), 'only screen and (orientation: landscape)'])
            return ind + '@media %s {\n%s\n%s}' % (q, self.body(depth + 1, in_rule) if in_rule else
                                                   ind + '  %s { %s }' % (self.selector(), self.decl()), ind)
        if k < 0.81 and self.on('supports'):
            return ind + '@supports (%s: %s) {\n%s  %s { %s }\n%s}' % (r.choice(PROPS), self.ident(), ind, self.selector(in_rule), self.decl(), ind)
        if k < 0.85 and self.on('flow'):
            c = r.choice(['true', 'false', '1 < 2', '1 == 2', 'null', 'not false'])
            return ind + '@if %s {\n%s\n%s} @else {\n%s\n%s}' % (c, self.body(depth + 1, in_rule) if in_rule else ind + '  x { %s }' % self.decl(),
                                                                 ind, ind + ('  ' + self.decl() if in_rule else '  y { %s }' % self.decl()), ind)
        if k < 0.89 and self.on('flow'):
            v = 'i%d' % r.randint(0, 9)
            hdr = r.choice(['@each $%s in a, b, c' % v, '@for $%s from 1 through 3' % v, '@each $%s in (1px 2px)' % v,
                            '@for $%s from 3 to 1' % v])
            inner = ('w-#{$%s}: $%s;' % (v, v)) if in_rule else '.s-#{$%s} { v: $%s; }' % (v, v)
            return ind + '%s {\n%s  %s\n%s}' % (hdr, ind, inner, ind)
        if k < 0.93 and self.on('mixin') and depth == 0:
            m = 'm%d' % len(self.mixins)
            self.mixins.append(m)
            return ('@mixin %s($p: %s) {\n  q: $p;\n  %s\n  @content;\n}' % (m, self.number(), self.decl()))
        if k < 0.96 and self.mixins and self.on('mixin'):
            m = r.choice(self.mixins)
            inc = r.choice(['@include %s;' % m, '@include %s(%s);' % (m, self.number()), '@include %s { %s }' % (m, self.decl())])
            return ind + (inc if in_rule else '%s { %s }' % (self.selector(), inc))
        if k < 0.98 and self.on('function') and depth == 0:
            f = 'f%d' % len(self.funcs)
            self.funcs.append(f)
            return '@function %s($a, $b: 2) {\n  @return $a * $b;\n}\n.%s { r: %s(%s); }' % (f, f, f, self.number())
        if in_rule and self.on('nsprop'):
            return ind + 'font: { family: %s; size: %s; }' % (self.ident(), self.number())
        if self.on('keyframes'):
            return ind + '@keyframes %s { from { %s } 50.5%% { %s } to { %s } }' % (self.ident(), self.decl(), self.decl(), self.decl())
        return ind + '%s { %s }' % (self.selector(), self.decl())

    def program(self):
        r = self.rng
        self.vars, self.mixins, self.funcs = [], [], []
        head = '@use "sass:math";\n@use "sass:string";\n@use "sass:list";\n@use "sass:color";\n'
        parts = [self.statement(0, False) for _ in range(r.randint(1, 6))]
        return head + '\n'.join(parts) + '\n'


def program(rng, nonascii=0.0, features=None):
    return Gen(rng, nonascii, features).program()
