"""A tolerant scanner for *emitted* CSS (both output styles).

scan(text)      -> flat token list [(kind, text)], kinds: ws comment string url punct other
balance(text)   -> None or a description of the first framing problem ({} [] () outside strings/comments/url())
parse(text)     -> block tree: nodes are dicts
                   {'t': 'comment', 'text'}
                   {'t': 'decl', 'name', 'value', 'important'?}
                   {'t': 'rule', 'prelude', 'body': [...]}      (style rules and block at-rules)
                   {'t': 'at', 'prelude'}                      (statement at-rules: @import ...;)
"""
import re

_URL_START = re.compile(r'url\(', re.I)


def scan(text):
    toks = []
    i, n = 0, len(text)
    while i < n:
        c = text[i]
        if c in ' \t\n\r\f':
            j = i + 1
            while j < n and text[j] in ' \t\n\r\f':
                j += 1
            toks.append(('ws', text[i:j]))
            i = j
        elif c == '/' and text.startswith('/*', i):
            j = text.find('*/', i + 2)
            j = n if j < 0 else j + 2
            toks.append(('comment', text[i:j]))
            i = j
        elif c in '"\'':
            j = i + 1
            while j < n and text[j] != c:
                if text[j] == '\\' and j + 1 < n:
                    j += 1
                elif text[j] == '\n':
                    break
                j += 1
            closed = j < n and text[j] == c
            j = min(n, j + 1) if closed else j
            toks.append(('string' if closed else 'badstring', text[i:j]))
            i = j
        elif c in 'uU' and _URL_START.match(text, i) and not (i > 0 and (text[i - 1].isalnum() or text[i - 1] in '-_')):
            # url( ... ): unquoted contents are raw up to the closing parenthesis
            j = i + 4
            k = j
            while k < n and text[k] in ' \t\n':
                k += 1
            if k < n and text[k] in '"\'':
                toks.append(('other', text[i:j - 1]))
                toks.append(('punct', '('))
                i = j
            else:
                while j < n and text[j] != ')':
                    if text[j] == '\\' and j + 1 < n:
                        j += 1
                    j += 1
                j = min(n, j + 1)
                toks.append(('url', text[i:j]))
                i = j
        elif c in '{}()[];:,':
            toks.append(('punct', c))
            i += 1
        elif c == '\\' and i + 1 < n:
            # escape: part of an identifier
            j = i + 2
            if text[i + 1] in '0123456789abcdefABCDEF':
                while j < n and j < i + 7 and text[j] in '0123456789abcdefABCDEF':
                    j += 1
                if j < n and text[j] in ' \t\n':
                    j += 1
            toks.append(('other', text[i:j]))
            i = j
        else:
            j = i + 1
            while j < n and text[j] not in ' \t\n\r\f"\'{}()[];:,\\' and not text.startswith('/*', j):
                j += 1
            toks.append(('other', text[i:j]))
            i = j
    return toks


def balance(text):
    stack = []
    pairs = {'}': '{', ')': '(', ']': '['}
    for kind, t in scan(text):
        if kind == 'badstring':
            return 'unterminated string %r' % t[:30]
        if kind == 'comment' and not t.endswith('*/'):
            return 'unterminated comment'
        if kind == 'url' and not t.endswith(')'):
            return 'unterminated url('
        if kind != 'punct':
            continue
        if t in '{([':
            stack.append(t)
        elif t in '})]':
            if not stack or stack[-1] != pairs[t]:
                return 'unexpected %s' % t
            stack.pop()
    if stack:
        return 'unclosed %s' % stack[-1]
    return None


class ParseProblem(Exception):
    pass


def _join(toks):
    return ''.join(t for _, t in toks)


def _squash(s):
    return re.sub(r'[ \t\n\r\f]+', ' ', s).strip()


def parse(text):
    toks = [t for t in scan(text)]
    pos = [0]

    def block(top):
        nodes = []
        while pos[0] < len(toks):
            kind, t = toks[pos[0]]
            if kind == 'ws' or (kind == 'punct' and t == ';'):
                pos[0] += 1
                continue
            if kind == 'comment':
                nodes.append({'t': 'comment', 'text': t})
                pos[0] += 1
                continue
            if kind == 'punct' and t == '}':
                if top:
                    raise ParseProblem('unexpected }')
                pos[0] += 1
                return nodes
            # find the terminator of this statement
            start = pos[0]
            depth = 0
            j = start
            term = None
            first = _join(toks[start:start + 1])
            custom = False
            # custom property?  name is `--x` followed by ':'
            k = start
            name_toks = []
            while k < len(toks) and toks[k][0] in ('other',):
                name_toks.append(toks[k]); k += 1
            while k < len(toks) and toks[k][0] == 'ws':
                k += 1
            if name_toks and _join(name_toks).startswith('--') and k < len(toks) and toks[k] == ('punct', ':') and not top:
                custom = True
            while j < len(toks):
                kd, tt = toks[j]
                if kd == 'punct':
                    if tt in '([':
                        depth += 1
                    elif tt in ')]':
                        depth -= 1
                    elif tt == '{':
                        if custom:
                            depth += 1
                        elif depth <= 0:
                            term = '{'
                            break
                    elif tt == '}':
                        if custom and depth > 0:
                            depth -= 1
                        elif depth <= 0:
                            term = '}'
                            break
                    elif tt == ';' and depth <= 0:
                        term = ';'
                        break
                j += 1
            seg = toks[start:j]
            if term == '{':
                pos[0] = j + 1
                body = block(False)
                nodes.append({'t': 'rule', 'prelude': _squash(_join([x for x in seg if x[0] != 'comment'])), 'body': body,
                              'raw_prelude': _join(seg)})
            else:
                pos[0] = j + (1 if term == ';' else 0)
                s = _join(seg)
                if first.startswith('@'):
                    nodes.append({'t': 'at', 'prelude': _squash(s)})
                else:
                    # declaration: split at the first ':' at depth 0
                    d = 0
                    idx = None
                    for q, (kd, tt) in enumerate(seg):
                        if kd == 'punct' and tt in '([':
                            d += 1
                        elif kd == 'punct' and tt in ')]':
                            d -= 1
                        elif kd == 'punct' and tt == ':' and d == 0:
                            idx = q
                            break
                    if idx is None:
                        nodes.append({'t': 'junk', 'text': _squash(s)})
                    else:
                        name = _squash(_join(seg[:idx]))
                        value = _join(seg[idx + 1:])
                        nodes.append({'t': 'decl', 'name': name, 'value': value.strip() if not name.startswith('--') else value,
                                      'raw': s})
                if term is None:
                    if not top:
                        raise ParseProblem('unclosed block')
        if not top:
            raise ParseProblem('unclosed block')
        return nodes
    return block(True)


def walk(nodes, path=()):
    """Yields (path_of_preludes, node) for every node."""
    for nd in nodes:
        yield path, nd
        if nd['t'] == 'rule':
            yield from walk(nd['body'], path + (nd['prelude'],))


def declarations(nodes):
    """[(tuple_of_enclosing_preludes, name, value)] in document order."""
    return [(p, nd['name'], nd['value']) for p, nd in walk(nodes) if nd['t'] == 'decl']


def strip_header(text):
    """Remove @charset / BOM marker."""
    if text.startswith('﻿'):
        return text[1:]
    if text.startswith('@charset "UTF-8";\n'):
        return text[len('@charset "UTF-8";\n'):]
    return text


def split_top(s, sep=','):
    """Split at top-level separators (outside strings, parens, brackets)."""
    out, depth, cur = [], 0, []
    for kind, t in scan(s):
        if kind == 'punct' and t in '([':
            depth += 1
        elif kind == 'punct' and t in ')]':
            depth -= 1
        if kind == 'punct' and t == sep and depth == 0:
            out.append(''.join(cur)); cur = []
        else:
            cur.append(t)
    out.append(''.join(cur))
    return [x.strip() for x in out]
