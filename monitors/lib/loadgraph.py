"""Load graphs over a handful of files: placements, URL spellings of one target, rendering, and the reference
model of what loading does (shared by C02, C03, C39).

A graph is {'files': [path, ...] (files[0] is the entry), 'edges': [[(kind, target_index, variant), ...] per file]}.
Kinds: 'use', 'forward', 'import', 'load-css'.  Every load statement is unconditional and at the top level of
its file; @use/@forward statements are written first (Sass requires that), in their relative order, followed by
the file's own marker rule, followed by @import / load-css statements in their relative order.  The model
executes edges in exactly that order."""
import posixpath

KINDS = ('use', 'forward', 'import', 'load-css')
MODULE_KINDS = ('use', 'forward')
# where the non-entry files may live (the directory d/ always exists: see KEEP)
PLACEMENTS = ['a.scss', 'd/b.scss', '_p.scss', 'd/_q.scss', 'c.scss', 'd/e/f.scss', 'd/g.scss', 'h.scss',
              'k/_index.scss', 'k/z.scss', 'k/s/y.scss', 'd/m/index.scss']
CSS_PLACEMENTS = ['z.css', 'd/w.css']          # plain CSS leaves (never have load statements of their own); used by C02 only
KEEP = {'d/_keep.scss': '', 'd/e/_keep.scss': '', 'k/_keep.scss': '', 'k/s/_keep.scss': '', 'd/m/_keep.scss': ''}
VARIANTS = ('plain', 'dot', 'updown', 'ext', 'underscore', 'dotdot2', 'enddot', 'rootrel')


def _rel(importer, target):
    return posixpath.relpath(target, posixpath.dirname(importer) or '.')


def spell(importer, target, variant):
    """A URL for `target` (a path like d/_q.scss) as written in `importer`.  Every variant names the same file
    on a file system in which the directories d/ and d/e/ exist.  Returns None when the variant does not apply."""
    rel = _rel(importer, target)                       # e.g. ../a.scss, b.scss, d/_q.scss
    head, base = posixpath.split(rel)
    stem = base[:-5] if base.endswith('.scss') else base[:-4] if base.endswith('.css') else base
    partial = stem.startswith('_')
    bare = stem[1:] if partial else stem
    join = lambda h, b: (h + '/' + b) if h else b
    plain = join(head, bare)
    is_index = bare == 'index'
    idir = posixpath.dirname(importer)
    if is_index:
        # a directory index is loaded through the URL of its directory ('.' when the importer lives in it)
        plain = head if head else '.'
    if variant == 'enddot':
        return plain + '/.' if is_index else None
    if variant == 'rootrel':
        # the path from the root, written in a file that lives in a sub-directory: not found relative to the importer,
        # found when the url is tried unchanged (the root is the loader's base)
        if idir == '':
            return None
        thead, tbase = posixpath.split(target)
        tstem = tbase[:-5] if tbase.endswith('.scss') else tbase
        tbare = tstem[1:] if tstem.startswith('_') else tstem
        if tbare == 'index':
            return thead or None
        root_url = join(thead, tbare)
        # must not also exist relative to the importer: no placement has the same name below another directory
        return root_url if root_url != plain else None
    idir = posixpath.dirname(importer)
    if variant == 'plain':
        return plain
    if variant == 'dot':
        return './' + plain
    if variant == 'updown':
        # leave the importer's directory and come back
        if idir == '':
            return 'd/../' + plain
        return '../' + posixpath.basename(idir) + '/' + plain
    if variant == 'ext':
        return rel                                     # the exact file name, underscore and extension included
    if variant == 'underscore':
        return join(head, stem) if partial or is_index else None
    if variant == 'dotdot2':
        if idir == '':
            return './d/e/../../' + plain
        return '././' + plain
    return None


def render(graph, marker=lambda i: '.f%d{x:y}' % i, extra=None):
    """-> {path: source}.  extra(i, uses) may return (after_uses, tail) texts for file i, where uses is the list of
    (namespace, kind, target) of its module edges."""
    files = dict(KEEP)
    for i, path in enumerate(graph['files']):
        if path.endswith('.css'):
            files[path] = marker(i) + '\n'          # a plain CSS file: its marker rule, nothing else
            continue
        edges = graph['edges'][i]
        head, tail = [], []
        uses = []
        if any(k == 'load-css' for k, _, _ in edges):
            head.append('@use "sass:meta";')
        n = 0
        for k, t, v in edges:
            url = spell(path, graph['files'][t], v)
            if k == 'use':
                ns = 'n%d' % n
                n += 1
                head.append('@use "%s" as %s;' % (url, ns))
                uses.append((ns, k, t))
            elif k == 'forward':
                head.append('@forward "%s";' % url)
                uses.append((None, k, t))
            elif k == 'import':
                tail.append('@import "%s";' % url)
            else:
                tail.append('@include meta.load-css("%s");' % url)
        mid, end = ('', '')
        if extra:
            mid, end = extra(i, uses)
        files[path] = '\n'.join(head + [mid, marker(i)] + tail + [end]) + '\n'
    return files


def valid(graph):
    """Every edge's spelling variant applies to its target."""
    return all(spell(graph['files'][i], graph['files'][e[1]], e[2]) is not None
               for i, es in enumerate(graph['edges']) for e in es)


def ordered_edges(edges):
    """Execution order of one file's edges (module loads first)."""
    return [e for e in edges if e[0] in MODULE_KINDS] + [e for e in edges if e[0] not in MODULE_KINDS]


def has_reachable_cycle(graph):
    """Is there a load that reaches a file which is still being loaded (a cycle reachable from the entry)?
    Plain reachability + cycle detection on the reachable subgraph: caching of finished modules cannot hide a
    reachable cycle (a module that finished earlier has executed all of its edges)."""
    n = len(graph['files'])
    adj = [[t for _, t, _ in graph['edges'][i]] for i in range(n)]
    color = [0] * n

    def dfs(u):
        color[u] = 1
        for v in adj[u]:
            if color[v] == 1:
                return True
            if color[v] == 0 and dfs(v):
                return True
        color[u] = 2
        return False
    return dfs(0)


def cycle_info(graph):
    """(kinds on some reachable cycle, sorted; True if any edge on it is spelled non-plainly)."""
    n = len(graph['files'])
    color = [0] * n
    stack = []

    def dfs(u):
        color[u] = 1
        for k, v, var in graph['edges'][u]:
            stack.append((u, k, v, var))
            if color[v] == 1:
                i = next(j for j, e in enumerate(stack) if e[0] == v)
                return stack[i:]
            if color[v] == 0:
                r = dfs(v)
                if r:
                    return r
            stack.pop()
        color[u] = 2
        return None
    cyc = dfs(0) or []
    return sorted(set(e[1] for e in cyc)), any(e[3] != 'plain' for e in cyc), len(cyc)


def reachable(graph):
    seen, todo = {0}, [0]
    while todo:
        u = todo.pop()
        for _, v, _ in graph['edges'][u]:
            if v not in seen:
                seen.add(v)
                todo.append(v)
    return seen


def canon(path):
    """Canonical form of a path/URL as a file system resolves it."""
    out = []
    for seg in path.split('/'):
        if seg in ('', '.'):
            continue
        if seg == '..':
            if out:
                out.pop()
            continue
        out.append(seg)
    return '/'.join(out)


def enumerate_graphs(files, max_out, kinds=KINDS, variants=('plain', 'dot', 'updown')):
    """All graphs over the given file list where file i has at most max_out[i] edges (ordered)."""
    import itertools
    n = len(files)
    edge_opts = [(k, t, v) for k in kinds for t in range(n) for v in variants]
    per_file = []
    for i in range(n):
        opts = [()]
        for d in range(1, max_out[i] + 1):
            opts += list(itertools.product(edge_opts, repeat=d))
        per_file.append(opts)
    for combo in itertools.product(*per_file):
        yield {'files': list(files), 'edges': [list(map(list, c)) for c in combo]}


def count_graphs(nfiles, max_out, nkinds=4, nvariants=3):
    e = nkinds * nfiles * nvariants
    tot = 1
    for i in range(nfiles):
        tot *= sum(e ** d for d in range(max_out[i] + 1))
    return tot


def random_graph(rng, nfiles, max_out=2, kinds=KINDS, variants=VARIANTS, acyclic=None, p_edge=0.7, placements=None):
    files = ['main.scss'] + rng.sample(placements or PLACEMENTS, nfiles - 1)
    edges = []
    for i in range(nfiles):
        es = []
        for _ in range(0 if files[i].endswith('.css') else rng.randint(0, max_out) if rng.random() < p_edge or i == 0 else 0):
            if acyclic:
                if i == nfiles - 1:
                    break
                t = rng.randint(i + 1, nfiles - 1)
            else:
                t = rng.randrange(nfiles)
            for _try in range(6):
                v = rng.choice(variants)
                if spell(files[i], files[t], v) is not None:
                    break
            else:
                v = 'plain'
            es.append([rng.choice(kinds), t, v])
        edges.append(es)
    return {'files': files, 'edges': edges}
