"""Generators of Sass colour constructor expressions with an oracle-side model (shared by C31, C32, C33).

Everything here is written from the Sass/CSS definitions of the legacy colour functions, with exact rational
arithmetic on the decimal literals that are generated; nothing is taken from rsass.  The model of a generated
constructor call is a plain JSON-able dict:

  origin   'hex3' 'hex4' 'hex6' 'hex8' 'name' 'rgb' 'hsl' 'hwb'
  expr     the SassScript text
  r g b    reference red/green/blue in 0..255 (floats; channels clamped the way rgb() clamps)
  a        reference alpha in 0..1
  gamut    False when an hsl()/hwb() input lies outside the legacy ranges (saturation > 100%, lightness outside
           0..100%, negative whiteness/blackness): dart-sass >= 1.79 keeps such channels unclamped, older
           versions clamp, so only the statements that hold under both readings are checked for them
  given    the channels as written, normalised only as far as every reading agrees (hue mod 360, alpha clamped):
           {'h','s','l'} for hsl, {'h','w','k'} for hwb (fractions of 1 for s,l,w,k)
  integer  True when r,g,b are integers
"""
import math, re
from fractions import Fraction as F
from . import colors

NAMES = sorted(colors.NAMED)
assert len(NAMES) == 148
BY_VALUE = {}
for _n in NAMES:
    BY_VALUE.setdefault(colors.NAMED[_n], []).append(_n)

_NUMRE = re.compile(r'^([-+]?(?:\d+\.?\d*|\.\d+)(?:[eE][-+]?\d+)?)(%|deg)?$')


def parse_num(text):
    """'12.5%' -> (12.5, '%'); None when the text is not a plain number with unit '', '%' or 'deg'."""
    m = _NUMRE.match(text.strip())
    if not m:
        return None
    return float(m.group(1)), m.group(2) or ''


def fdec(x, places=13):
    """Decimal text of a Fraction/float rounded to `places` decimals, no exponent, no trailing zeros."""
    x = F(x)
    neg = x < 0
    x = abs(x)
    q = 10 ** places
    n = (x * q).numerator * 2 // (x * q).denominator      # floor(2*x*q)
    n = (n + 1) // 2                                        # round half up
    s = '%d' % (n // q)
    frac = ('%0*d' % (places, n % q)).rstrip('0') if places else ''
    if frac:
        s += '.' + frac
    if neg and n != 0:
        s = '-' + s
    return s


def rdec(rng, lo, hi, places):
    """A random decimal literal in [lo, hi] with at most `places` decimals -> (text, Fraction)."""
    q = 10 ** places
    n = rng.randint(int(lo * q), int(hi * q))
    v = F(n, q)
    return fdec(v, places), v


def clamp(x, lo, hi):
    return lo if x < lo else hi if x > hi else x


# ---------------------------------------------------------------- reference conversions (exact on Fractions)

def hsl_to_rgb(h, s, l):
    return colors.hsl_to_rgb(h, s, l)


def rgb_to_hsl(r, g, b):
    return colors.rgb_to_hsl(r, g, b)


def hwb_to_rgb(h, w, k):
    return colors.hwb_to_rgb(h, w, k)


def rgb_to_hwb(r, g, b):
    return colors.rgb_to_hwb(r, g, b)


def derived(r, g, b):
    """hsl and hwb channels (h deg, s, l, w, k as floats; s,l,w,k in 0..1) of reference rgb (Fractions or floats)."""
    h, s, l = rgb_to_hsl(r, g, b)
    _, w, k = rgb_to_hwb(r, g, b)
    return float(h), float(s), float(l), float(w), float(k)


# ---------------------------------------------------------------- component generators

def gen_alpha(rng, hostile):
    """-> (text, value Fraction in 0..1, kind)"""
    x = rng.random()
    if x < 0.2:
        t = rng.choice(['0', '1', '0.5', '0.25', '0.999', '0.001', '1.0', '0.0'])
        return t, F(t), 'number'
    if x < 0.55:
        t, v = rdec(rng, 0, 1, rng.choice([1, 2, 3, 4]))
        return t, v, 'number'
    if x < 0.8:
        t, v = rdec(rng, 0, 100, rng.choice([0, 1, 2]))
        return t + '%', v / 100, 'percent'
    if hostile:
        if rng.random() < 0.5:
            t, v = rdec(rng, -2, 3, 2)
            return t, clamp(v, F(0), F(1)), 'number-out-of-range'
        t, v = rdec(rng, -100, 250, 1)
        return t + '%', clamp(v / 100, F(0), F(1)), 'percent-out-of-range'
    t, v = rdec(rng, 0, 1, 2)
    return t, v, 'number'


class Hue(F):
    """A hue in degrees, reduced mod 360, that remembers the unreduced value (.raw)."""
    def __new__(cls, raw):
        self = super().__new__(cls, F(raw) % 360)
        self.raw = F(raw)
        return self


def float_hue(x):
    """What IEEE arithmetic gives for `x mod 360` (x a float): used only to tell whether two hue literals reduce to
    bit-identical doubles, i.e. whether a comparison can be disturbed by rounding noise at all."""
    r = math.fmod(x, 360.0)
    if r < 0:
        r += 360.0
    return r


HUE_EDGE = ['0', '360', '-360', '720', '359.9999', '-0.0001', '360.0001', '180', '60', '120', '240', '300', '59.9999',
            '60.0001', '-180', '1080', '-720.5', '0.0001', '90', '270', '30', '-30', '480']


def gen_hue(rng, hostile):
    """-> (text, hue in degrees mod 360 as Fraction, kind)"""
    x = rng.random()
    if x < 0.2:
        t = rng.choice(HUE_EDGE)
        v = F(t)
        if not hostile:
            v = v % 360
            t = fdec(v, 4)
    elif x < 0.7 or not hostile:
        t, v = rdec(rng, 0, 359, rng.choice([0, 0, 1, 2, 4]))
    else:
        t, v = rdec(rng, -1500, 1500, rng.choice([0, 1, 3]))
    u = rng.random()
    if u < 0.6:
        return t, Hue(v), 'unitless'
    if u < 0.8:
        return t + 'deg', Hue(v), 'deg'
    if u < 0.9:
        # turn: pick the turn literal, the hue follows exactly
        if hostile and rng.random() < 0.15:
            tt = rng.choice(['-1', '1', '2', '-2', '0.5', '-0.5', '0.25'])
            tv = F(tt)
        else:
            tt, tv = rdec(rng, -2 if hostile else 0, 3 if hostile else 1, 4)
        if tv == 1 and not hostile:
            tt, tv = '0.5', F(1, 2)
        return tt + 'turn', Hue(tv * 360), 'turn'
    if hostile and rng.random() < 0.15:
        tt = rng.choice(['-400', '400', '800', '-800', '200', '100'])
        tv = F(tt)
    else:
        tt, tv = rdec(rng, -500 if hostile else 0, 900 if hostile else 399, 2)
    return tt + 'grad', Hue(tv * F(9, 10)), 'grad'


PCT_EDGE = ['0', '100', '50', '0.001', '99.999', '25', '75', '0.5', '99.5', '1', '99', '33.3333', '66.6667']


def gen_pct(rng, hostile, allow_out):
    """-> (text with %, value as fraction of 1 (Fraction, unclamped), kind)"""
    x = rng.random()
    if x < 0.25:
        t = rng.choice(PCT_EDGE)
        return t + '%', F(t) / 100, 'edge'
    if x < 0.9 or not (hostile and allow_out):
        t, v = rdec(rng, 0, 100, rng.choice([0, 0, 1, 2, 4]))
        return t + '%', v / 100, 'in-range'
    t, v = rdec(rng, -150, 300, rng.choice([0, 1]))
    return t + '%', v / 100, 'in-range' if 0 <= v <= 100 else 'out-of-range'


def gen_chan(rng, hostile):
    """One rgb() channel -> (text, clamped value 0..255 Fraction, kind)"""
    x = rng.random()
    if hostile and rng.random() < 0.012:
        # one ulp-ish below the maximum: the colour is white to every tolerance, its hsl channels must still be finite
        return '254.99999999999997', F('254.99999999999997'), 'ulp-below-255'
    if x < 0.15:
        t = rng.choice(['0', '255', '128', '127.5', '0.5', '254.5', '254.4999', '1', '254', '0.4999', '127', '17', '51'])
        return t, F(t), 'edge'
    if x < 0.55:
        n = rng.randint(0, 255)
        return str(n), F(n), 'integer'
    if x < 0.75:
        t, v = rdec(rng, 0, 255, rng.choice([1, 2, 3]))
        return t, v, 'fraction'
    if x < 0.9:
        t, v = rdec(rng, 0, 100, rng.choice([0, 0, 1, 2]))
        return t + '%', v * 255 / 100, 'percent'
    if not hostile:
        n = rng.randint(0, 255)
        return str(n), F(n), 'integer'
    if rng.random() < 0.6:
        t, v = rdec(rng, -300, 600, rng.choice([0, 1]))
        return t, clamp(v, F(0), F(255)), 'integer' if 0 <= v <= 255 and v.denominator == 1 else ('fraction' if 0 <= v <= 255 else 'number-out-of-range')
    t, v = rdec(rng, -100, 300, rng.choice([0, 1]))
    return t + '%', clamp(v * 255 / 100, F(0), F(255)), 'percent' if 0 <= v <= 100 else 'percent-out-of-range'


# ---------------------------------------------------------------- constructors

def _finish(origin, expr, r, g, b, a, gamut=True, given=None, form='', kinds=()):
    integer = all(F(c).denominator == 1 for c in (r, g, b))
    m = {'origin': origin, 'expr': expr, 'r': float(r), 'g': float(g), 'b': float(b), 'a': float(a), 'gamut': gamut,
         'integer': integer, 'form': form, 'kinds': sorted(set(kinds))}
    if given:
        m['given'] = {k: float(v) for k, v in given.items()}
        m['_given'] = {k: F(v) for k, v in given.items()}
        hv = given.get('h')
        if isinstance(hv, Hue):
            m['given']['hraw'] = float(hv.raw)
            m['_hraw'] = hv.raw
    m['_exact'] = (F(r), F(g), F(b), F(a))
    return m


def gen_hex(rng, digits=None):
    n = digits or rng.choice([3, 4, 6, 8])
    x = rng.random()
    if x < 0.08:
        d = rng.choice('0f') * n
    elif x < 0.16:
        d = ''.join(rng.choice('0f8') for _ in range(n))
    else:
        d = ''.join(rng.choice('0123456789abcdef') for _ in range(n))
    full = ''.join(c * 2 for c in d) if n in (3, 4) else d
    vals = [int(full[i:i + 2], 16) for i in range(0, len(full), 2)]
    a = F(vals[3], 255) if len(vals) == 4 else F(1)
    if rng.random() < 0.3:
        d = ''.join(c.upper() if rng.random() < 0.5 else c for c in d)
    return _finish('hex%d' % n, '#' + d, vals[0], vals[1], vals[2], a, form='hex%d' % n)


def gen_name(rng, name=None):
    name = name or rng.choice(NAMES)
    v = colors.NAMED[name]
    x = rng.random()
    txt = name if x < 0.8 else (name.upper() if x < 0.9 else name.capitalize())
    return _finish('name', txt, v >> 16, (v >> 8) & 255, v & 255, F(1), form='name' if txt == name else 'name-cased')


def gen_rgb(rng, hostile=True):
    cs = [gen_chan(rng, hostile) for _ in range(3)]
    x = rng.random()
    kinds = [c[2] for c in cs]
    if x < 0.35:
        expr, a, form = 'rgb(%s, %s, %s)' % (cs[0][0], cs[1][0], cs[2][0]), F(1), 'rgb/3'
    elif x < 0.45:
        expr, a, form = 'rgb(%s %s %s)' % (cs[0][0], cs[1][0], cs[2][0]), F(1), 'rgb/space'
    else:
        at, a, ak = gen_alpha(rng, hostile)
        kinds.append('alpha-' + ak)
        y = rng.random()
        if y < 0.5:
            expr, form = 'rgba(%s, %s, %s, %s)' % (cs[0][0], cs[1][0], cs[2][0], at), 'rgba/4'
        elif y < 0.75:
            expr, form = 'rgb(%s, %s, %s, %s)' % (cs[0][0], cs[1][0], cs[2][0], at), 'rgb/4'
        elif not at.startswith('-'):
            expr, form = 'rgb(%s %s %s / %s)' % (cs[0][0], cs[1][0], cs[2][0], at), 'rgb/slash'
        else:
            expr, form = 'rgba(%s, %s, %s, %s)' % (cs[0][0], cs[1][0], cs[2][0], at), 'rgba/4'
    return _finish('rgb', expr, cs[0][1], cs[1][1], cs[2][1], a, form=form, kinds=kinds)


def gen_rgba_of_color(rng, hostile=True):
    """rgba($color, $alpha): the channels of an rgb colour with a new alpha."""
    base = rng.choice([gen_hex(rng, rng.choice([3, 6])), gen_name(rng)])
    at, a, ak = gen_alpha(rng, hostile)
    r, g, b, _ = base['_exact']
    return _finish('rgb', 'rgba(%s, %s)' % (base['expr'], at), r, g, b, a, form='rgba/color+alpha', kinds=['alpha-' + ak])


def gen_hsl(rng, hostile=True):
    ht, h, hk = gen_hue(rng, hostile)
    st, s, sk = gen_pct(rng, hostile, True)
    lt, l, lk = gen_pct(rng, hostile, True)
    kinds = ['hue-' + hk, 'sat-' + sk, 'light-' + lk]
    x = rng.random()
    if x < 0.35:
        expr, a, form = 'hsl(%s, %s, %s)' % (ht, st, lt), F(1), 'hsl/3'
    elif x < 0.45:
        expr, a, form = 'hsl(%s %s %s)' % (ht, st, lt), F(1), 'hsl/space'
    else:
        at, a, ak = gen_alpha(rng, hostile)
        kinds.append('alpha-' + ak)
        y = rng.random()
        if y < 0.5:
            expr, form = 'hsla(%s, %s, %s, %s)' % (ht, st, lt, at), 'hsla/4'
        elif y < 0.75:
            expr, form = 'hsl(%s, %s, %s, %s)' % (ht, st, lt, at), 'hsl/4'
        elif not at.startswith('-'):
            expr, form = 'hsl(%s %s %s / %s)' % (ht, st, lt, at), 'hsl/slash'
        else:
            expr, form = 'hsla(%s, %s, %s, %s)' % (ht, st, lt, at), 'hsla/4'
    s0 = max(s, F(0))                      # every version of the hsl() function clamps saturation below at 0
    gamut = s0 <= 1 and 0 <= l <= 1
    r, g, b = hsl_to_rgb(h, clamp(s0, F(0), F(1)), clamp(l, F(0), F(1)))
    if not gamut:
        # the reference rgb of an out-of-gamut colour: the formula on the unclamped channels, then clamped per channel
        r, g, b = [clamp(c, F(0), F(255)) for c in hsl_to_rgb(h, s0, l)]
    m = _finish('hsl', expr, r, g, b, a, gamut=gamut, given={'h': h, 's': s0, 'l': l}, form=form, kinds=kinds)
    m['_plain'] = hk in ('unitless', 'deg') and (a == 1 and 'alpha-' not in ' '.join(kinds) or 'alpha-number' in kinds)
    m['_htext'] = ht
    return m


def gen_hwb(rng, hostile=True):
    ht, h, hk = gen_hue(rng, hostile)
    x = rng.random()
    if x < 0.7 or not hostile:
        wt, w, wk = gen_pct(rng, hostile, False)
        # blackness so that w + k <= 100 most of the time
        if rng.random() < 0.85:
            room = int((1 - w) * 10000)
            n = rng.randint(0, max(room, 0))
            k = F(n, 10000)
            kt = fdec(k * 100, 2) + '%'
            k = F(kt[:-1]) / 100
            if w + k > 1:
                k = 1 - w
                kt = fdec(k * 100, 6) + '%'
        else:
            kt, k, _ = gen_pct(rng, hostile, False)
    else:
        wt, w, wk = gen_pct(rng, hostile, True)
        kt, k, _ = gen_pct(rng, hostile, True)
    kinds = ['hue-' + hk]
    if w + k > 1:
        kinds.append('w+b>100%')
    elif w + k == 1:
        kinds.append('w+b=100%')
    if w < 0 or k < 0:
        kinds.append('negative-w-or-b')
    y = rng.random()
    if y < 0.4:
        expr, a, form = 'hwb(%s %s %s)' % (ht, wt, kt), F(1), 'hwb/space'
    elif y < 0.55:
        expr, a, form = 'color.hwb(%s, %s, %s)' % (ht, wt, kt), F(1), 'color.hwb/3'
    else:
        at, a, ak = gen_alpha(rng, hostile)
        kinds.append('alpha-' + ak)
        if rng.random() < 0.5 and not at.startswith('-'):
            expr, form = 'hwb(%s %s %s / %s)' % (ht, wt, kt, at), 'hwb/slash'
        else:
            expr, form = 'color.hwb(%s, %s, %s, %s)' % (ht, wt, kt, at), 'color.hwb/4'
    gamut = w >= 0 and k >= 0
    if gamut:
        r, g, b = hwb_to_rgb(h, w, k)
    else:
        w0, k0 = max(w, F(0)), max(k, F(0))
        r, g, b = hwb_to_rgb(h, w0, k0)
    m = _finish('hwb', expr, r, g, b, a, gamut=gamut, given={'h': h, 'w': w, 'k': k}, form=form, kinds=kinds)
    m['_plain'] = hk in ('unitless', 'deg') and (a == 1 and 'alpha-' not in ' '.join(kinds) or 'alpha-number' in kinds)
    m['_htext'] = ht
    return m


def gen_color(rng, hostile=True, weights=None):
    """A random constructor call with its model.  hostile=False keeps every input inside its legacy range."""
    x = rng.random()
    if x < 0.12:
        return gen_hex(rng)
    if x < 0.2:
        return gen_name(rng)
    if x < 0.45:
        return gen_rgb(rng, hostile)
    if x < 0.5:
        return gen_rgba_of_color(rng, hostile)
    if x < 0.8:
        return gen_hsl(rng, hostile)
    return gen_hwb(rng, hostile)


def public(m):
    """The JSON-able part of a model."""
    return {k: v for k, v in m.items() if not k.startswith('_')}


# ---------------------------------------------------------------- another notation of the same rgba colour

def alt_notation(rng, m):
    """Another constructor call that denotes the same colour as model `m` by the definitions of the functions
    (-> (expr, kind)), or None.  Only for in-gamut models.  Channels that are not decimal-exact are written as
    SassScript arithmetic or with 13 decimals (error < 1e-12, far inside the 1e-11 that Sass equality allows)."""
    if not m['gamut']:
        return None
    r, g, b, a = m['_exact']
    opts = []
    if m['integer'] and a == 1:
        r_, g_, b_ = int(r), int(g), int(b)
        v = (r_ << 16) | (g_ << 8) | b_
        if not m['origin'] == 'hex6':
            opts.append(('#%06x' % v, 'hex6'))
        if all(c % 17 == 0 for c in (r_, g_, b_)) and m['origin'] != 'hex3':
            opts.append(('#%x%x%x' % (r_ // 17, g_ // 17, b_ // 17), 'hex3'))
        for n in BY_VALUE.get(v, []):
            if n != m['expr'].lower():
                opts.append((n, 'name'))
        opts.append(('rgb(%d, %d, %d)' % (r_, g_, b_), 'rgb-int'))
        opts.append(('rgba(%d, %d, %d, 1)' % (r_, g_, b_), 'rgba-int'))
        opts.append(('#%06xff' % v, 'hex8'))
    elif m['integer'] and (a * 255).denominator == 1:
        k = int(a * 255)
        opts.append(('rgba(%d, %d, %d, math.div(%d, 255))' % (int(r), int(g), int(b), k), 'rgba-int-alpha-div255'))
        if m['origin'] != 'hex8':
            opts.append(('#%02x%02x%02x%02x' % (int(r), int(g), int(b), k), 'hex8'))
    if m['origin'] in ('rgb', 'hex3', 'hex4', 'hex6', 'hex8', 'name'):
        at = fdec(a, 13) if (a * 10 ** 6).denominator == 1 else 'math.div(%d, %d)' % (a.numerator, a.denominator)
        ch = [fdec(c, 13) if (c * 10 ** 6).denominator == 1 else 'math.div(%d, %d)' % (c.numerator, c.denominator) for c in (r, g, b)]
        opts.append(('rgba(%s, %s, %s, %s)' % (ch[0], ch[1], ch[2], at), 'rgba-decimal'))
        if not at.startswith('math') and not any(x.startswith('math') for x in ch):
            opts.append(('rgb(%s %s %s / %s)' % (ch[0], ch[1], ch[2], fdec(a * 100, 11) + '%'), 'rgb-slash-percent-alpha'))
        pc = ['math.div(%d%%, %d)' % ((c * 100).numerator, (c * 100).denominator * 255) for c in (r, g, b)]
        opts.append(('rgba(%s, %s, %s, %s)' % (pc[0], pc[1], pc[2], at), 'rgba-percent-channels'))
    at = fdec(a, 13) if (a * 10 ** 6).denominator == 1 else 'math.div(%d, %d)' % (a.numerator, a.denominator)

    def noise(alt_hue_text):
        """'bit-identical' when both hue literals are plain degrees that reduce mod 360 to the same double and alpha is
        written as the same plain number: then no rounding noise can tell the two colours apart."""
        if not m.get('_plain'):
            return 'float-noise-possible'
        a0 = float(m['_htext'][:-3] if m['_htext'].endswith('deg') else m['_htext'])
        return 'bit-identical' if float_hue(a0) == float_hue(float(alt_hue_text)) else 'float-noise-possible'

    if m['origin'] == 'hsl':
        gv = m['_given']
        h, s, l = gv['h'], gv['s'], gv['l']
        k = rng.choice([-2, -1, 1, 2, 3])
        if h == 0:
            k = abs(k)          # a negative multiple of 360 is a class of its own (see Hue), never produced here
        st, lt = fdec(s * 100, 8) + '%', fdec(l * 100, 8) + '%'
        ht = fdec(h + 360 * k, 6)
        opts.append(('hsla(%s, %s, %s, %s)' % (ht, st, lt, at), 'hsl-hue-plus-turns', noise(ht)))
        opts.append(('hsl(%sdeg %s %s / %s)' % (fdec(h, 6), st, lt, at), 'hsl-space-syntax', noise(fdec(h, 6))))
        opts.append(('hsla(math.div(%s, 360) * 1turn, %s, %s, %s)' % (fdec(h, 6), st, lt, at), 'hsl-hue-in-turns', 'float-noise-possible'))
        opts.append(('rgba(%s, %s, %s, %s)' % (fdec(r, 13), fdec(g, 13), fdec(b, 13), at), 'rgb-of-hsl'))
        if 0 < l < 1 and s <= 1:
            # the same colour in hwb: v = l + s*min(l,1-l); w = 2l - v; k = 1 - v   (exact)
            v = l + s * min(l, 1 - l)
            w, kk = 2 * l - v, 1 - v
            opts.append(('color.hwb(%s, %s, %s, %s)' % (fdec(h, 6), fdec(w * 100, 13) + '%', fdec(kk * 100, 13) + '%', at), 'hwb-of-hsl'))
    if m['origin'] == 'hwb':
        gv = m['_given']
        h, w, kk = gv['h'], gv['w'], gv['k']
        k = rng.choice([-2, -1, 1, 2, 3])
        if h == 0:
            k = abs(k)
        wt, kt = fdec(w * 100, 8) + '%', fdec(kk * 100, 8) + '%'
        ht = fdec(h + 360 * k, 6)
        opts.append(('color.hwb(%s, %s, %s, %s)' % (ht, wt, kt, at), 'hwb-hue-plus-turns', noise(ht)))
        opts.append(('hwb(%sdeg %s %s / %s)' % (fdec(h, 6), wt, kt, at), 'hwb-space-syntax', noise(fdec(h, 6))))
        opts.append(('rgba(%s, %s, %s, %s)' % (fdec(r, 13), fdec(g, 13), fdec(b, 13), at), 'rgb-of-hwb'))
        if w + kk < 1:
            l = (1 - kk + w) / 2
            s = (1 - kk - l) / min(l, 1 - l)
            opts.append(('hsla(%s, %s, %s, %s)' % (fdec(h, 6), fdec(s * 100, 13) + '%', fdec(l * 100, 13) + '%', at), 'hsl-of-hwb'))
    opts = [o if len(o) == 3 else (o[0], o[1], '') for o in opts if o[0] != m['expr']]
    return rng.choice(opts) if opts else None


# ---------------------------------------------------------------- adjustment-function expressions (no model)

def _pct(rng, lo=0, hi=100):
    x = rng.random()
    if x < 0.15:
        return rng.choice([str(lo), str(hi), '50', '10', '0.5', '99.9', '33.3333'] if lo == 0 else [str(lo), str(hi), '0', '50', '-50', '10', '-10']) + '%'
    return rdec(rng, lo, hi, rng.choice([0, 0, 1, 2]))[0] + '%'


def gen_adjust_call(rng, c, c2=None):
    """One call of a colour adjustment function on the expression `c` with arguments that are valid in Sass.
    -> (expr, function name)"""
    fns = ['lighten', 'darken', 'saturate', 'desaturate', 'adjust-hue', 'complement', 'invert', 'invert-weight',
           'grayscale', 'mix', 'opacify', 'fade-in', 'transparentize', 'fade-out', 'rgba', 'adjust-rgb', 'adjust-hsl',
           'adjust-hwb', 'adjust-alpha', 'scale-rgb', 'scale-hsl', 'scale-hwb', 'scale-alpha', 'change-rgb', 'change-hsl',
           'change-hwb', 'change-alpha']
    f = rng.choice(fns)
    mod = rng.random() < 0.6

    def nm(module_name, global_name=None):
        return ('color.' + module_name) if mod or global_name is None else global_name

    def some(names, gen):
        ks = [k for k in names if rng.random() < 0.6] or [rng.choice(names)]
        return ', '.join('$%s: %s' % (k, gen(k)) for k in ks)

    if f in ('lighten', 'darken', 'saturate', 'desaturate'):
        return '%s(%s, %s)' % (f, c, _pct(rng)), f
    if f == 'adjust-hue':
        d = rdec(rng, -720, 720, rng.choice([0, 1, 2]))[0]
        return '%s(%s, %s%s)' % (nm('adjust-hue', 'adjust-hue') if False else 'adjust-hue', c, d, rng.choice(['deg', ''])), f
    if f in ('complement', 'grayscale'):
        return '%s(%s)' % (nm(f, f), c), f
    if f == 'invert':
        return '%s(%s)' % (nm('invert', 'invert'), c), f
    if f == 'invert-weight':
        return '%s(%s, %s)' % (nm('invert', 'invert'), c, _pct(rng)), f
    if f == 'mix':
        other = c2 or gen_color(rng, hostile=False)['expr']
        a, b = (c, other) if rng.random() < 0.5 else (other, c)
        if rng.random() < 0.3:
            return '%s(%s, %s)' % (nm('mix', 'mix'), a, b), f
        return '%s(%s, %s, %s)' % (nm('mix', 'mix'), a, b, _pct(rng)), f
    if f in ('opacify', 'fade-in', 'transparentize', 'fade-out'):
        return '%s(%s, %s)' % (f, c, rdec(rng, 0, 1, rng.choice([1, 2, 3]))[0]), f
    if f == 'rgba':
        return 'rgba(%s, %s)' % (c, rdec(rng, 0, 1, rng.choice([1, 2, 3]))[0]), f
    kind, space = f.split('-')
    fn = nm(kind, kind + '-color')
    if kind == 'adjust':
        if space == 'rgb':
            args = some(['red', 'green', 'blue'], lambda k: rdec(rng, -255, 255, rng.choice([0, 0, 1]))[0])
        elif space == 'hsl':
            args = some(['hue', 'saturation', 'lightness'],
                        lambda k: rdec(rng, -400, 400, 1)[0] + 'deg' if k == 'hue' else _pct(rng, -100, 100))
        elif space == 'hwb':
            args = some(['hue', 'whiteness', 'blackness'],
                        lambda k: rdec(rng, -400, 400, 1)[0] + 'deg' if k == 'hue' else _pct(rng, -100, 100))
        else:
            args = '$alpha: ' + rdec(rng, -1, 1, 2)[0]
    elif kind == 'scale':
        if space == 'rgb':
            args = some(['red', 'green', 'blue'], lambda k: _pct(rng, -100, 100))
        elif space == 'hsl':
            args = some(['saturation', 'lightness'], lambda k: _pct(rng, -100, 100))
        elif space == 'hwb':
            args = some(['whiteness', 'blackness'], lambda k: _pct(rng, -100, 100))
        else:
            args = '$alpha: ' + _pct(rng, -100, 100)
    else:
        if space == 'rgb':
            args = some(['red', 'green', 'blue'], lambda k: rdec(rng, 0, 255, rng.choice([0, 0, 1]))[0])
        elif space == 'hsl':
            args = some(['hue', 'saturation', 'lightness'],
                        lambda k: rdec(rng, -400, 400, 1)[0] + 'deg' if k == 'hue' else _pct(rng))
        elif space == 'hwb':
            args = some(['hue', 'whiteness', 'blackness'],
                        lambda k: rdec(rng, -400, 400, 1)[0] + 'deg' if k == 'hue' else _pct(rng))
        else:
            args = '$alpha: ' + rdec(rng, 0, 1, 2)[0]
    if rng.random() < 0.25 and space != 'alpha' and not (kind == 'scale' and False):
        a = {'adjust': rdec(rng, -1, 1, 2)[0], 'scale': _pct(rng, -100, 100), 'change': rdec(rng, 0, 1, 2)[0]}[kind]
        args += ', $alpha: ' + a
    return '%s(%s, %s)' % (fn, c, args), f


def gen_derived(rng, depth=None, hostile=False):
    """A colour computed by 1..3 nested adjustment calls over constructor calls -> (expr, [function names], base model)"""
    base = gen_color(rng, hostile=hostile)
    e, fs = base['expr'], []
    for _ in range(depth or rng.choice([1, 1, 1, 2, 2, 3])):
        e, f = gen_adjust_call(rng, e)
        fs.append(f)
    return e, fs, base
