"""Nested style rules: generator, reference model of Sass parent-selector resolution, placeholder visibility
(shared by C19, C22, C20).

Structures (JSON-able lists, so that a case can be stored and replayed):
  simple   = [kind, text]                  kind: type univ class id attr pc pe ph
           | ['amp', suffix]               the parent reference `&` (suffix '' or e.g. '-x'); only first in a compound
           | ['ps', name, [complex, ...]]  pseudo-class with a selector-list argument (`:not(...)`, `:is(...)` ...)
  compound = [simple, ...]
  complex  = [lead, compound, comb, compound, ...]     lead: '' or '>' '+' '~';  comb: ' ' '>' '+' '~'
  list     = [complex, ...]
  rule     = {'sel': list, 'items': [['d', serial] | ['r', rule], ...]}

The model is the algorithm of the reference implementation (dart-sass `SelectorList.resolveParentSelectors`): per inner
complex selector the results for all parents, then the per-inner result lists are interleaved ("flattened vertically"),
which is outer-major order whenever all the lists have the same length.
"""
import re

from . import css, selgen as sg

COMBS = (' ', '>', '+', '~')
SUFFIXABLE = ('type', 'class', 'id', 'ph')


class ModelError(Exception):
    """The model predicts that Sass rejects the input (only reachable through a deviation switch)."""


# ------------------------------------------------------------------ rendering

def r_simple(s):
    if s[0] == 'amp':
        return '&' + s[1]
    if s[0] == 'ps':
        return ':%s(%s)' % (s[1], r_list(s[2]))
    return s[1]


def r_compound(c):
    return ''.join(r_simple(s) for s in c)


def r_complex(cx, rng=None):
    out = []
    if cx[0]:
        out.append(cx[0] + (' ' if rng is None else rng.choice([' ', ' ', ''])))
    for i, part in enumerate(cx[1:]):
        if i % 2 == 0:
            out.append(r_compound(part))
        elif part == ' ':
            out.append(' ' if rng is None else rng.choice([' ', ' ', ' ', '  ']))
        else:
            out.append(' %s ' % part if rng is None else rng.choice([' %s ', ' %s ', ' %s ', '%s', ' %s', '%s ']) % part)
    return ''.join(out)


def r_list(lst, rng=None):
    sep = ', ' if rng is None else rng.choice([', ', ', ', ', ', ',', ',\n', ' , '])
    return sep.join(r_complex(cx, rng) for cx in lst)


# ------------------------------------------------------------------ predicates

def compounds(cx):
    return cx[1::2]


def simple_has_amp(s):
    return s[0] == 'amp' or (s[0] == 'ps' and any(complex_has_amp(c) for c in s[2]))


def complex_has_amp(cx):
    return any(simple_has_amp(s) for comp in compounds(cx) for s in comp)


def simple_has_kind(s, kind):
    if s[0] == 'ps':
        return any(complex_has_kind(c, kind) for c in s[2])
    return s[0] == kind


def complex_has_kind(cx, kind):
    return any(simple_has_kind(s, kind) for comp in compounds(cx) for s in comp)


def has_repeated_simple(lst):
    """some compound of the list has the same simple selector twice (`.e_y.e_y`: can arise from a suffix)"""
    for cx in lst:
        for comp in compounds(cx):
            texts = [r_simple(s) for s in comp]
            if len(set(texts)) != len(texts):
                return True
            if any(s[0] == 'ps' and has_repeated_simple(s[2]) for s in comp):
                return True
    return False


def count_amp(cx):
    """number of top-level `&` (not those inside pseudo-class arguments)"""
    return sum(1 for comp in compounds(cx) for s in comp if s[0] == 'amp')


# ------------------------------------------------------------------ the model: parent-selector resolution

def flatten_vertically(lists):
    out, i = [], 0
    lists = [l for l in lists if l]
    while lists:
        out.extend(l[i] for l in lists if i < len(l))
        i += 1
        lists = [l for l in lists if i < len(l)]
    return out


_CANON_RANK = {'type': 0, 'univ': 0, 'ph': 1, 'id': 2, 'class': 3, 'attr': 4, 'pc': 5, 'ps': 5, 'pe': 5}


def _suffix_target(last, dev):
    """index of the simple selector of the parent's last compound that takes an `&-suffix`"""
    if 'suffix-canonical-last' in dev:
        # deviation switch: the compound is first put into canonical order (type, %placeholder, #id, classes,
        # attributes, pseudos) and the suffix continues whatever comes last in that order
        best = max(range(len(last)), key=lambda k: (_CANON_RANK[last[k][0]], k))
        s = last[best]
        if s[0] not in SUFFIXABLE and not (s[0] == 'pc' and not s[1].endswith(')')):
            raise ModelError('suffix after %s' % s[0])
        return best
    return len(last) - 1


def _resolve_compound(comp, parents, dev):
    """None if the compound has no parent reference, else the list of item lists [compound, comb, compound ...] it stands for"""
    ps_amp = any(s[0] == 'ps' and simple_has_amp(s) for s in comp)
    first_amp = comp[0][0] == 'amp'
    if not ps_amp and not first_amp:
        return None
    rs = [['ps', s[1], resolve_list(s[2], parents, False, dev)] if (s[0] == 'ps' and simple_has_amp(s)) else s for s in comp]
    if not first_amp:
        return [[rs]]
    suffix = comp[0][1]
    if len(comp) == 1 and not suffix:
        return [list(p[1:]) for p in parents]
    out = []
    for p in parents:
        items = list(p[1:])
        last = list(items[-1])
        if suffix:
            k = _suffix_target(last, dev)
            last[k] = [last[k][0], last[k][1] + suffix]
        items[-1] = last + rs[1:]
        out.append(items)
    return out


def resolve_list(lst, parents, implicit=True, dev=frozenset()):
    """The selector list a nested rule with selector `lst` has inside a rule whose (resolved) selector is `parents`."""
    groups = []
    for cx in lst:
        if not complex_has_amp(cx):
            if implicit:
                groups.append([[p[0]] + list(p[1:]) + [cx[0] or ' '] + list(cx[1:]) for p in parents])
            else:
                groups.append([cx])
            continue
        comps, combs = cx[1::2], cx[2::2]
        new = None
        for i, comp in enumerate(comps):
            res = _resolve_compound(comp, parents, dev)
            if res is None:
                res = [[comp]]
            new = res if new is None else [n + r for n in new for r in res]
            if i < len(combs):
                new = [n + [combs[i]] for n in new]
        groups.append([[cx[0]] + n for n in new])
    return flatten_vertically(groups)


# ------------------------------------------------------------------ the model: what a placeholder makes invisible

def _visible_compound(comp):
    """None if the compound can match nothing that is emitted (contains a placeholder); else the compound as emitted.
    A compound of which only `*` is left after a `:not(%x)` was dropped is marked (3rd element 'from-empty')."""
    out = []
    dropped = False
    for s in comp:
        if s[0] == 'ph':
            return None
        if s[0] == 'ps':
            members = visible_list(s[2])
            if s[1] == 'not':
                if not members:
                    dropped = True           # :not(<nothing>) matches everything: it is dropped, the rest stays
                    continue
            elif not members:
                return None                  # :is(<nothing>) matches nothing
            out.append(['ps', s[1], members])
        else:
            out.append(s)
    if dropped and all(s[0] == 'univ' for s in out):
        out = [['univ', '*', 'from-empty']]  # only `:not(%x)`s (and `*`): every element
    return out


def has_empty_star(lst):
    """the emitted list has a compound that is `*` only because all its `:not(%x)` were dropped"""
    for cx in lst:
        for comp in compounds(cx):
            for s in comp:
                if (s[0] == 'univ' and len(s) > 2) or (s[0] == 'ps' and has_empty_star(s[2])):
                    return True
    return False


def visible_complex(cx):
    parts = [cx[0]]
    for i, part in enumerate(cx[1:]):
        if i % 2 == 0:
            v = _visible_compound(part)
            if v is None:
                return None
            parts.append(v)
        else:
            parts.append(part)
    return parts


def visible_list(lst):
    """The selector list as it is emitted: complex selectors that contain a placeholder are gone."""
    out = []
    for cx in lst:
        v = visible_complex(cx)
        if v is not None:
            out.append(v)
    return out


# ------------------------------------------------------------------ facts about a resolved parent list (what a child may do)

def parent_info(parents):
    last = [p[-1] for p in parents]
    return {
        'n': len(parents),
        'suffixable': all(c[-1][0] in SUFFIXABLE for c in last),
        'last_pe': any(s[0] == 'pe' for c in last for s in c),
        'has_ph': any(complex_has_kind(p, 'ph') for p in parents),
        'last_id': any(s[0] == 'id' for c in last for s in c),
        'last_simples': set(s[1] for c in last for s in c if s[0] != 'ps'),
        'suffix_reordered': any(max(range(len(c)), key=lambda k: (_CANON_RANK[c[k][0]], k)) != len(c) - 1 for c in last),
    }


# ------------------------------------------------------------------ generation

TYPES = ['a', 'b', 'div', 'li']
CLASSES = ['.c', '.d', '.e', '.f', '.k']
IDS = ['#i', '#j']
ATTRS = ['[x]', '[y]', '[x=y]', '[x="y z"]', '[x~=y]', '[y^="z"]', '[x=y i]']
PCS = [':hover', ':focus', ':first-child', ':nth-child(2n+1)', ':lang(en)', ':checked']
PES = ['::before', '::after', '::first-line']
PHS = ['%p', '%q']
SUFFIXES = ['-x', '-x', '_y', '__e', 's', '-s-t']
PS_NAMES = ['not', 'not', 'is', 'is', 'where', 'matches', 'has', 'any']


class NG:
    def __init__(self, rng, p_ph=0.0, p_ps=0.08, p_shuffle=0.25, p_dup=0.0, ph_inside=False, max_ps_depth=1,
                 p_sfx_reordered=0.12, ps_amp_with_ph=False, ps_names=None, p_lone_ps=0.0):
        self.rng = rng
        self.p_ph, self.p_ps, self.p_shuffle, self.p_dup = p_ph, p_ps, p_shuffle, p_dup
        self.ph_inside = ph_inside                  # placeholders also inside pseudo-class arguments
        self.max_ps_depth = max_ps_depth            # nesting of selector pseudo-classes in plain selectors
        self.p_sfx_reordered = p_sfx_reordered      # chance that `&-suffix` is used on a parent not written in canonical order
        self.ps_amp_with_ph = ps_amp_with_ph        # `&` inside a pseudo-class argument although a parent has a placeholder
        self.ps_names = ps_names or PS_NAMES
        self.p_lone_ps = p_lone_ps                  # a compound that is nothing but a selector pseudo-class

    # -- plain selectors (no parent reference)
    def extra(self, info=None, allow_id=True):
        """a simple selector that can be appended to a compound"""
        rng = self.rng
        r = rng.random()
        if r < 0.5:
            return ['class', rng.choice(CLASSES)]
        if r < 0.58 and allow_id:
            return ['id', rng.choice(IDS)]
        if r < 0.76:
            return ['attr', rng.choice(ATTRS)]
        return ['pc', rng.choice(PCS)]

    def plain_ps(self, depth):
        rng = self.rng
        n = rng.choice([1, 1, 2])
        return ['ps', rng.choice(self.ps_names), [self.plain_complex(maxlen=2, pe=False, depth=depth + 1) for _ in range(n)]]

    def plain_compound(self, pe=False, depth=0):
        rng = self.rng
        head, parts = [], []
        if self.p_lone_ps and depth < self.max_ps_depth and rng.random() < self.p_lone_ps:
            return [self.plain_ps(depth)]
        r = rng.random()
        if r < 0.42:
            head.append(['type', rng.choice(TYPES)])
        elif r < 0.47:
            head.append(['univ', '*'])
        for _ in range(rng.choice([0, 1, 1, 1, 2])):
            c = ['class', rng.choice(CLASSES)]
            if c not in parts:
                parts.append(c)
        if rng.random() < 0.12:
            parts.append(['id', rng.choice(IDS)])
        if rng.random() < 0.15:
            parts.append(['attr', rng.choice(ATTRS)])
        if rng.random() < 0.18:
            parts.append(['pc', rng.choice(PCS)])
        if depth < self.max_ps_depth and rng.random() < self.p_ps:
            parts.append(self.plain_ps(depth))
        if rng.random() < self.p_ph and (depth == 0 or self.ph_inside):
            parts.append(['ph', rng.choice(PHS)])
        if not head and not parts:
            parts.append(['class', rng.choice(CLASSES)])
        if len(parts) > 1 and rng.random() < self.p_shuffle:
            rng.shuffle(parts)
        if pe and rng.random() < 0.12:
            parts.append(['pe', rng.choice(PES)])
        return head + parts

    def comb(self):
        return self.rng.choice([' ', ' ', ' ', '>', '>', '+', '~'])

    def plain_complex(self, maxlen=3, pe=False, depth=0):
        rng = self.rng
        n = rng.choice([1, 1, 1, 2, 2, 3][:(3 if maxlen < 2 else 5 if maxlen < 3 else 6)])
        out = ['']
        for k in range(n):
            if k:
                out.append(self.comb())
            out.append(self.plain_compound(pe=pe and k == n - 1, depth=depth))
        return out

    def plain_list(self, maxn=3, pe=False):
        n = min(maxn, self.rng.choice([1, 1, 2, 2, 3]))
        return [self.plain_complex(pe=pe) for _ in range(n)]

    # -- selectors of nested rules
    def appended(self, info, force=False):
        """simple selectors written directly after `&` (never a second id, never - except by the p_dup switch - a simple
        selector the parent's last compound already has)"""
        rng = self.rng
        out = []
        have_id = info['last_id']
        for _ in range(rng.choice([1, 1, 1, 2])):
            s = self.extra(allow_id=not have_id)
            if rng.random() < self.p_dup:
                cand = sorted(t for t in info['last_simples'] if t[0] == '.')
                if cand:
                    out.append(['class', rng.choice(cand)])
                    continue
            if s[1] in info['last_simples'] or s in out:
                continue
            have_id = have_id or s[0] == 'id'
            out.append(s)
        if force and not out:
            fresh = [c for c in ('.zz', '.yy', '.ww', '.vv', '.uu', '.tt') if c not in info['last_simples']]
            out.append(['class', fresh[0] if fresh else '.ss'])
        return out

    def suffix_ok(self, info):
        # parents whose last compound is not written in canonical order (`:hover.c`, `.c#i`) run into a listed defect
        # of the tree: still generated, but seldom, so that they do not crowd out everything else
        return info['suffixable'] and (not info['suffix_reordered'] or self.rng.random() < self.p_sfx_reordered)

    def amp_compound(self, info, must_change=False):
        """a compound that starts with `&`"""
        rng = self.rng
        suffix = ''
        if self.suffix_ok(info) and rng.random() < 0.4:
            suffix = rng.choice(SUFFIXES)
        rest = []
        if not info['last_pe'] and rng.random() < (0.25 if suffix else 0.6):
            rest = self.appended(info)
        if must_change and not suffix and not rest:
            if self.suffix_ok(info):
                suffix = rng.choice(SUFFIXES)
            elif not info['last_pe']:
                rest = self.appended(info, force=True)
        return [['amp', suffix]] + rest

    def amp_ps(self, info):
        """a pseudo-class whose argument refers to the parent"""
        rng = self.rng
        n = rng.choice([1, 1, 1, 2])
        k_amp = rng.randrange(n)
        members = []
        for k in range(n):
            if k != k_amp and rng.random() < 0.6:
                members.append(self.plain_complex(maxlen=2, depth=1))
                continue
            r = rng.random()
            if r < 0.5:
                members.append(['', [['amp', '']]])
            elif r < 0.7:
                members.append(['', self.amp_compound(info)])
            elif r < 0.85:
                members.append(['', [['amp', '']], self.comb(), self.plain_compound(depth=1)])
            else:
                members.append(['', self.plain_compound(depth=1), self.comb(), [['amp', '']]])
        return ['ps', rng.choice(self.ps_names), members]

    FORMS = [('implicit', 30), ('lead-comb', 12), ('amp-append', 14), ('amp-suffix', 10), ('amp-alone', 3), ('amp-first', 8),
             ('amp-last', 8), ('amp-middle', 3), ('multi-amp', 5), ('amp-in-pseudo', 10)]

    def inner_complex(self, info, leaf, form=None):
        """-> (complex, form)"""
        rng = self.rng
        if form is None:
            sfx = self.suffix_ok(info)
            forms = [(f, w) for f, w in self.FORMS
                     if not (f == 'amp-suffix' and not sfx)
                     and not (f == 'amp-append' and info['last_pe'])
                     and not (f == 'amp-in-pseudo' and info['has_ph'] and not self.ps_amp_with_ph)]
            form = rng.choices([f for f, _ in forms], [w for _, w in forms])[0]
        pe = leaf
        if form == 'implicit':
            return self.plain_complex(maxlen=2, pe=pe), form
        if form == 'lead-comb':
            cx = self.plain_complex(maxlen=2, pe=pe)
            cx[0] = rng.choice(['>', '>', '+', '~'])
            return cx, form
        if form == 'amp-append':
            rest = self.appended(info, force=True)
            if pe and rng.random() < 0.15:
                rest.append(['pe', rng.choice(PES)])
            return ['', [['amp', '']] + rest], form
        if form == 'amp-suffix':
            rest = self.appended(info) if (not info['last_pe'] and rng.random() < 0.25) else []
            return ['', [['amp', rng.choice(SUFFIXES)]] + rest], form
        if form == 'amp-alone':
            return ['', [['amp', '']]], form
        if form == 'amp-first':
            tail = self.plain_complex(maxlen=2, pe=pe)
            return ['', self.amp_compound(info), self.comb()] + tail[1:], form
        if form == 'amp-last':
            headc = self.plain_complex(maxlen=2)
            return headc + [self.comb(), self.amp_compound(info)], form
        if form == 'amp-middle':
            return ['', self.plain_compound(), self.comb(), self.amp_compound(info), self.comb(), self.plain_compound(pe=pe)], form
        if form == 'multi-amp':
            cx = ['', self.amp_compound(info), self.comb()]
            if rng.random() < 0.3:
                cx += [self.plain_compound(), self.comb()]
            cx.append(self.amp_compound(info))
            return cx, form
        # amp-in-pseudo
        r = rng.random()
        ps = self.amp_ps(info)
        if r < 0.45:
            comp = [ps]
            if rng.random() < 0.5:
                comp = [['type', rng.choice(TYPES)]] + comp if rng.random() < 0.5 else [['class', rng.choice(CLASSES)]] + comp
            cx = ['', comp]
        elif r < 0.65:
            cx = ['', self.plain_compound(), self.comb(), [ps]]
        elif r < 0.8:
            cx = ['', [['class', rng.choice(CLASSES)], ps], self.comb(), self.plain_compound(pe=pe)]
        elif r < 0.9 and not info['last_pe']:
            cx = ['', [['amp', '']] + [ps]]
        else:
            cx = ['', [ps], self.comb(), [['amp', '']]]
        return cx, form

    def inner_list(self, info, leaf, cap=40):
        """-> (list, forms) for a nested rule inside parents described by info; the resolved list stays <= cap"""
        rng = self.rng
        n = rng.choice([1, 1, 1, 2, 2, 3])
        out, forms = [], []
        for _ in range(n):
            cx, f = self.inner_complex(info, leaf)
            out.append(cx)
            forms.append(f)
        return out, forms


# ------------------------------------------------------------------ trees of nested rules

def gen_tree(ng, serial_start=1, depth=None, cap=40, p_pe_trunk=0.1, max_rules=8):
    """A top-level rule with nested rules down to `depth` levels; every rule has at least one declaration.
    -> (rule, next free serial).  Declarations are numbered in source order."""
    rng = ng.rng
    target = depth or rng.choice([2, 3, 3, 4, 4])
    st = {'serial': serial_start, 'rules': 0}

    def rule(level, parents, on_chain):
        st['rules'] += 1
        leaf = level >= target or not on_chain and rng.random() < 0.6
        pe = leaf or rng.random() < p_pe_trunk
        if parents is None:
            sel, forms = ng.plain_list(pe=pe), ['top']
            resolved = sel
        else:
            info = parent_info(parents)
            for _ in range(6):
                sel, forms = ng.inner_list(info, pe)
                resolved = resolve_list(sel, parents)
                if len(resolved) <= cap and len(r_list(resolved)) <= 2500 and (ng.p_dup > 0 or not has_repeated_simple(resolved)):
                    break
            else:
                sel, forms = [ng.plain_complex(maxlen=1)], ['implicit']
                resolved = resolve_list(sel, parents)
        kinds = ['d'] * rng.choice([1, 1, 2, 3])
        if not leaf:
            kinds += ['R']                                   # the child that continues the chain to the target depth
            if st['rules'] < max_rules and rng.random() < 0.45:
                kinds += ['r']
        if rng.random() < 0.5:
            rest = kinds[1:]
            rng.shuffle(rest)
            kinds = kinds[:1] + rest
        else:
            rng.shuffle(kinds)
        items = []
        for k in kinds:
            if k == 'd':
                items.append(['d', st['serial']])
                st['serial'] += 1
            else:
                items.append(['r', rule(level + 1, resolved, on_chain and k == 'R')])
        return {'sel': sel, 'forms': forms, 'items': items}

    t = rule(1, None, True)
    return t, st['serial']


def render_rule(rule, rng=None):
    body = []
    for it in rule['items']:
        body.append('p%d: %d;' % (it[1], it[1]) if it[0] == 'd' else render_rule(it[1], rng))
    sep = ' ' if rng is None else rng.choice([' ', ' ', '\n'])
    return '%s {%s%s%s}' % (r_list(rule['sel'], rng), sep, sep.join(body), sep)


def walk(rule, parents=None, dev=frozenset(), path=()):
    """yields (path, rule, resolved selector list) in source order"""
    resolved = rule['sel'] if parents is None else resolve_list(rule['sel'], parents, True, dev)
    yield path, rule, resolved
    k = 0
    for it in rule['items']:
        if it[0] == 'r':
            yield from walk(it[1], resolved, dev, path + (k,))
            k += 1


def depth_of(rule):
    return 1 + max([depth_of(it[1]) for it in rule['items'] if it[0] == 'r'] or [0])


def chain_to(rule, path):
    """the tree reduced to the rules on `path` (child indexes among the nested rules), one declaration each"""
    first = next(it for it in rule['items'] if it[0] == 'd')
    items = [first]
    if path:
        kids = [it[1] for it in rule['items'] if it[0] == 'r']
        items.append(['r', chain_to(kids[path[0]], path[1:])])
    return {'sel': rule['sel'], 'forms': rule.get('forms', []), 'items': items}


# ------------------------------------------------------------------ canonical forms (selgen.canon) with one deviation

def dedupe_canon(c):
    """canonical form with repeated class / id selectors of a compound collapsed (deviation model, not the reference)"""
    def comp(p):
        if isinstance(p, str):
            return p
        head, tail = p
        out = []
        for s in head:
            s = simple(s)
            if s[0] in ('class', 'id') and s in out:
                continue
            out.append(s)
        return (tuple(out), tuple(simple(s) for s in tail))

    def simple(s):
        if s[0] == 'pseudo' and s[3] is not None and s[3][0] == 'sel':
            return (s[0], s[1], s[2], ('sel', tuple(tuple(comp(p) for p in cx) for cx in s[3][1])))
        return s
    return tuple(tuple(comp(p) for p in cx) for cx in c)


# ------------------------------------------------------------------ reading the output of a nest

DECL = re.compile(r'^p(\d+)$')


def read_output(text):
    """-> (decls: serial -> [(doc index, canonical selector or None, raw prelude)], problems [(sig, detail)])"""
    decls, problems = {}, []
    try:
        nodes = css.parse(css.strip_header(text))
    except css.ParseProblem as e:
        return decls, [('output-unreadable', str(e))]
    idx = 0
    for nd in nodes:
        if nd['t'] == 'comment':
            continue
        if nd['t'] != 'rule' or nd['prelude'].startswith('@'):
            problems.append(('output-unexpected-node', str(nd)[:200]))
            continue
        raw = nd['raw_prelude'].strip()
        c = sg.canon_or_none(raw)
        for b in nd['body']:
            if b['t'] == 'comment':
                continue
            m = DECL.match(b.get('name', '')) if b['t'] == 'decl' else None
            if not m or b['value'].strip() != m.group(1):
                problems.append(('output-unexpected-node', '%s in %s' % (str(b)[:120], raw[:80])))
                continue
            decls.setdefault(int(m.group(1)), []).append((idx, c, raw))
            idx += 1
    return decls, problems


def unhidden_placeholder(raw):
    """`%name` in an emitted selector, outside strings"""
    return any(k == 'other' and re.search(r'%[A-Za-z_-]', t) for k, t in css.scan(raw))
