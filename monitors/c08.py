"""C08 - expanded and compressed styles describe the same stylesheet (relational monitor)."""
import re
from decimal import Decimal, InvalidOperation
from .lib import css, colors, corpus, proggen

PROP = 'C08'
LEVEL = 'exploration'
BUDGET = {'quick': 35, 'thorough': 600}
FLOOR = {'quick': 3000, 'thorough': 50000}
RULE = ('generated programs and every sass-spec corpus input, each compiled in expanded and compressed style with the '
        'same precision; a pair counts when both runs gave a definite result and not both outputs are empty; distinct '
        'by hash of (source, precision).  Oracle: both fail with identical message text, or both succeed and the token '
        'streams are equal after removing insignificant whitespace and comments, comparing numerals as decimals and '
        'colors as RGBA (channels within 0.5/255 + output precision), ignoring a block-final semicolon.')
LEVEL_TEXT = ('Relational monitor: the two styles are two executions of the real code on the same input and are compared '
              'through an independent CSS tokenizer/normalizer.  Held = all compared pairs of this run agree.')
LEVEL_NOTE = ('Trusted: the normalizer (whitespace significance rule, numeral and color decoding).  It deliberately '
              'forgives whitespace next to , ; : { } ( ) > + ~ / ! = * and so cannot see a separator lost next to those.')
TECHNIQUE = 'runtime monitoring: cross-style differential comparison of outputs through a CSS normalizer'

_NUMTOK = re.compile(r'^([-+]?)([0-9]*\.?[0-9]+)()((?:-?[a-zA-Z_%][a-zA-Z0-9_%-]*)?)$')   # rsass never prints exponents
_A_INSIG = set(',;:{}(>+~/!=*[')
_B_INSIG = set(',;{})>+~/!=*]')
_SPLIT = re.compile(r'([+>~/])')


def norm_tokens(text):
    """-> list of items: ('num', Decimal, unit) ('color', (r,g,b,a)) ('t', text) ('sp',)"""
    toks = []
    for kind, t in css.scan(text):
        if kind == 'comment':
            toks.append(('ws', ' '))
        elif kind == 'other' and _SPLIT.search(t) and not _NUMTOK.match(t):
            for part in _SPLIT.split(t):
                if part:
                    toks.append(('other', part))
        else:
            toks.append((kind, t))
    # merge rgb()/hsl() functional colors into one token
    i = 0
    merged = []
    while i < len(toks):
        kind, t = toks[i]
        if kind == 'other' and t.lower() in ('rgb', 'rgba', 'hsl', 'hsla', 'hwb') and i + 1 < len(toks) and toks[i + 1] == ('punct', '('):
            j = i + 2
            depth = 1
            while j < len(toks) and depth:
                if toks[j] == ('punct', '('):
                    depth += 1
                elif toks[j] == ('punct', ')'):
                    depth -= 1
                j += 1
            txt = ''.join(x for _, x in toks[i:j])
            c = colors.parse_css_color(txt)
            if c is not None:
                merged.append(('color', c))
                i = j
                continue
        merged.append((kind, t))
        i += 1
    items = []
    prev = None
    pending_ws = False
    for kind, t in merged:
        if kind == 'ws':
            pending_ws = True
            continue
        if kind == 'color':
            item = ('color', t)
            first = last = 'x'
        else:
            first, last = t[0], t[-1]
            item = None
            if kind == 'other':
                m = _NUMTOK.match(t)
                if m:
                    try:
                        item = ('num', Decimal(m.group(1) + m.group(2) + ('e' + m.group(3) if m.group(3) else '')).normalize() + 0, m.group(4).lower())
                    except InvalidOperation:
                        item = None
                if item is None:
                    c = colors.parse_css_color(t) if (t.startswith('#') or t.lower() in colors.NAMED or t.lower() == 'transparent') else None
                    if c is not None:
                        item = ('color', c)
            if item is None:
                item = ('t', t)
        if pending_ws and prev is not None and not (prev in _A_INSIG or first in _B_INSIG):
            items.append(('sp',))
        pending_ws = False
        items.append(item)
        prev = last
    return items


def items_equal(a, b, precision):
    if a[0] != b[0]:
        return False
    if a[0] == 'color':
        tol = 0.5 + 1e-6
        return all(abs(x - y) <= tol for x, y in zip(a[1][:3], b[1][:3])) and abs(a[1][3] - b[1][3]) <= max(0.5 * 10 ** -precision, 1e-9) + 0.5 / 255
    return a == b


def seq_diff(a, b, precision):
    n = min(len(a), len(b))
    for i in range(n):
        if not items_equal(a[i], b[i], precision):
            return i
    if len(a) != len(b):
        return n
    return None


def prune(nodes):
    """Drop comments and rules whose body has nothing left (a rule holding only comments is not emitted compressed)."""
    out = []
    for nd in nodes:
        if nd['t'] == 'comment':
            continue
        if nd['t'] == 'rule':
            body = prune(nd['body'])
            if not body:
                continue
            pre = nd.get('raw_prelude', nd['prelude'])
            if out and out[-1]['t'] == 'rule' and norm_tokens(out[-1]['prelude']) == norm_tokens(pre):
                # adjacent rules with the same prelude: one rule (a comment-only rule between them is dropped compressed)
                out[-1]['body'] = out[-1]['body'] + body
            else:
                out.append({'t': 'rule', 'prelude': pre, 'body': body})
        else:
            out.append(nd)
    return out


def node_items(nd):
    if nd['t'] == 'rule':
        return [('t', 'RULE')] + norm_tokens(nd['prelude'])
    if nd['t'] == 'at':
        return [('t', 'AT')] + norm_tokens(nd['prelude'])
    if nd['t'] == 'decl':
        if nd['name'].startswith('--'):
            return [('t', 'DECL'), ('t', nd['name']), ('t', nd['value'].strip())]
        return [('t', 'DECL'), ('t', nd['name'])] + norm_tokens(nd['value'])
    return [('t', 'JUNK'), ('t', nd.get('text', ''))]


def tree_diff(e, c, precision, path=()):
    n = min(len(e), len(c))
    for i in range(n):
        a, b = node_items(e[i]), node_items(c[i])
        d = seq_diff(a, b, precision)
        if d is not None:
            return {'path': list(path), 'index': d, 'expanded': [str(x) for x in a[max(0, d - 3):d + 4]],
                    'compressed': [str(x) for x in b[max(0, d - 3):d + 4]]}
        if e[i]['t'] == 'rule':
            r = tree_diff(e[i]['body'], c[i]['body'], precision, path + (css._squash(e[i]['prelude']),))
            if r is not None:
                return r
    if len(e) != len(c):
        extra = e[n] if len(e) > n else c[n]
        return {'path': list(path), 'index': 0, 'expanded': [str(x) for x in (node_items(e[n]) if len(e) > n else [])][:6],
                'compressed': [str(x) for x in (node_items(c[n]) if len(c) > n else [])][:6], 'lengths': (len(e), len(c))}
    return None


def compare(e, c, precision):
    """None when equal, else a short description of the first difference."""
    te = prune(css.parse(css.strip_header(e)))
    tc = prune(css.parse(css.strip_header(c)))
    return tree_diff(te, tc, precision)


def diff_class(d):
    """A coarse class of the first difference (part of the signature)."""
    def kind(tokens, i):
        return tokens[i] if i < len(tokens) else 'END'
    e = d['expanded']
    c = d['compressed']
    k = min(3, d['index'])
    if 'lengths' in d:
        k = 0
    te, tc = kind(e, k), kind(c, k)
    ms = [re.match(r"\('t', (['\"])(.*)\1\)$", t, re.S) for t in (te, tc)]
    if all(ms) and all(m.group(2)[:1] in '"\'' for m in ms):
        if re.sub(r',\s+', ',', ms[0].group(2)) == re.sub(r',\s+', ',', ms[1].group(2)):
            return 'string-contents-differ-only-by-space-after-comma'
        if re.sub(r'(?<![0-9])0\.', '.', ms[0].group(2)) == re.sub(r'(?<![0-9])0\.', '.', ms[1].group(2)):
            return 'string-contents-differ-only-by-zero-before-point'
    mn = [re.match(r"\('num', Decimal\('([^']*)'\), '([^']*)'\)$", t) for t in (te, tc)]
    if all(mn) and mn[0].group(2) == mn[1].group(2):
        if mn[0].group(1).replace('0.', '.') == mn[1].group(1).replace('0.', '.'):
            return 'numeral-differs-only-by-zero-before-point'
    def cls(t):
        if t == 'END':
            return 'end'
        if t.startswith("('num'"):
            return 'number'
        if t.startswith("('color'"):
            return 'color'
        if t.startswith("('sp'"):
            return 'space'
        m = re.match(r"\('t', ['\"](.*)['\"]\)$", t, re.S)
        tx = m.group(1) if m else t
        if tx[:1] in '"\'':
            return 'string'
        if tx.startswith('url('):
            return 'url'
        if tx in '{}();:,[]':
            return 'punct' + tx
        return 'word'
    return '%s-vs-%s' % (cls(te), cls(tc))


_STR = re.compile(r'"((?:[^"\\\n]|\\.)*)"|\'((?:[^\'\\\n]|\\.)*)\'', re.S)


def quote_artifacts(src):
    """Quote characters inside string literals that interpolation/unquote may put into unquoted text: the scanner
    would then read output text as strings that are none."""
    if '#{' not in src and 'unquote' not in src:
        return False
    for m in _STR.finditer(src):
        body = m.group(1) if m.group(1) is not None else m.group(2)
        if body and ('"' in body or "'" in body):
            return True
    return False


def check_cases(ctx, cases):
    jobs = []
    for c in cases:
        for st in ('expanded', 'compressed'):
            jobs.append({'src': c['src'], 'style': st, 'precision': c['precision'], 'files': c.get('files'), 'entry': 'main.scss'})
    res = ctx.batch(jobs)
    for i, c in enumerate(cases):
        e, k = res[2 * i], res[2 * i + 1]
        ctx.ran(2)
        se, sk = e.get('status'), k.get('status')
        if se not in ('ok', 'err') or sk not in ('ok', 'err'):
            ctx.stat('skipped_status_%s_%s' % (se, sk))
            continue
        if se == 'ok' and sk == 'ok' and e.get('out', '') == '' and k.get('out', '') == '':
            ctx.stat('both_empty')
            continue
        ctx.nontrivial((c['src'], c['precision']))
        if se != sk:
            feat = ''
            if re.search(r'/\*[^*]*(?:\*(?!/)[^*]*)*#\{', c['src']):
                feat = '|interpolation-in-loud-comment'
            ctx.violation('status-differs|expanded=%s|compressed=%s%s' % (se, sk, feat), c,
                          {'expanded': (e.get('out') or e.get('err') or '')[:300], 'compressed': (k.get('out') or k.get('err') or '')[:300]})
            continue
        if se == 'err':
            ctx.stat('both_fail')
            if e.get('err') != k.get('err'):
                ctx.violation('error-text-differs', c, {'expanded': e.get('err', '')[:400], 'compressed': k.get('err', '')[:400]})
            continue
        ctx.stat('both_ok')
        if quote_artifacts(c['src']):
            ctx.stat('output_comparison_skipped_quote_characters_may_be_unquoted')
            continue
        try:
            d = compare(e.get('out', ''), k.get('out', ''), c['precision'])
        except Exception as ex:   # normalizer failure is a harness problem, not a verdict
            ctx.undecided('normalizer-error', repr(ex)[:200])
            continue
        if d is not None:
            ctx.violation('outputs-differ|' + diff_class(d), c, dict(d, e=e.get('out', '')[:300], c=k.get('out', '')[:300]))


def check_case(ctx, case):
    check_cases(ctx, [case])


def worker(ctx):
    rng = ctx.rng
    corp = corpus.load()
    ci = ctx.shard
    first = True
    while not ctx.expired():
        batch = []
        for _ in range(50):
            if rng.random() < 0.55:
                src = proggen.program(rng, nonascii=rng.choice([0, 0, 0.3]))
                fam = 'generated'
            else:
                src = corp[ci % len(corp)]['src']
                ci += ctx.nshards
                fam = 'corpus'
            batch.append({'family': fam, 'src': src, 'precision': rng.choice([10, 10, 10, 5, 3, 0, 20, 14])})
        check_cases(ctx, batch)
        if first:
            ctx.sample(batch[0]); first = False
    ctx.stat('space_completed')
