"""C28 - list functions follow the Sass list model (reference-model monitor)."""
from .lib import ev

PROP = 'C28'
LEVEL = 'exploration'
BUDGET = {'quick': 30, 'thorough': 400}
FLOOR = {'quick': 10000, 'thorough': 150000}
RULE = ('list-like values: lists of 0..6 elements with every separator (undecided, space, comma, slash) x bracket combination, '
        'single values (also null), empty lists, maps (0..4 pairs, the empty map made by map.remove) and argument lists (0..6 positional '
        'arguments, with and without a trailing comma in the call, returned by a rest-parameter function); elements are small integers, two dimensions, identifiers and '
        'short nested lists.  First a fixed table of 43 values: every unary operation on each and join (5 $separator x 4 '
        '$bracketed choices) and zip on every ordered pair; then seeded random values.  Operations: length, separator, '
        'is-bracketed, nth and set-nth at EVERY index in [-n-2, n+2], append (value or list; $separator omitted, auto, space, '
        'comma, slash), join, index (each element, absent value, quoted twin, nested list, map pair), zip of 0..3 lists; '
        'module and global names.  Distinct by expression text; every case is non-trivial (each evaluates one list function '
        'against the model).  Oracle: Python list model (elements, separator incl. undecided, brackets; maps as space-'
        'separated pairs; arglists as comma lists); the result is observed structurally through further calls (type-of, '
        'length, separator, is-bracketed, @each, and the separator of join(result, (p, q)) which tells undecided from '
        'space), never through inspect formatting of lists.  Index 0 and |index| > n must be errors.')
LEVEL_TEXT = ('Reference-model monitor: every observed result of the real list functions is compared, as a structural '
              'description, with an independent list model written from the Sass function reference and sass-spec; all valid '
              'and boundary indices are enumerated for every value.')
LEVEL_NOTE = ('Trusted: the describing function d() (type-of, @each, string +, inspect of plain numbers and identifiers).  '
              'join with $bracketed: auto takes brackets from $list1 only (dart-sass, sass-spec join/bracketed).  Not '
              'asserted: argument lists with keyword arguments or made by spreading a list, error message texts, whether a '
              'result is of type list or arglist.')
TECHNIQUE = 'runtime monitoring: generated list-like values x all indices/options against a reference list model, observed structurally'
ASSUMPTIONS = ['dart-sass semantics of undecided separators: (), [], [x], single values and the empty map are undecided; append/join decide them']

DEFS = ('@function al($args...){@return $args}'
        '@function d($v){$t:meta.type-of($v);'
        '@if $t==list or $t==arglist{'
        '$r:"L(" + list.separator($v) + "," + list.is-bracketed($v) + "," + list.length($v) + "," + list.separator(list.join($v, (p, q))) + ")[";'
        '@each $e in $v{$r:$r + d($e) + "|"}'
        '@return string.unquote($r + "]")}'
        '@if $t==map{$r:"M(" + list.length($v) + ")[";'
        '@each $k,$w in $v{$r:$r + d($k) + "=" + d($w) + "|"}'
        '@return string.unquote($r + "]")}'
        '@return string.unquote("S(" + $t + ":" + meta.inspect($v) + ")")}')

GLOBAL = {'length': 'length', 'nth': 'nth', 'set-nth': 'set-nth', 'append': 'append', 'join': 'join', 'index': 'index',
          'zip': 'zip', 'separator': 'list-separator', 'is-bracketed': 'is-bracketed'}
SEP_OPTS = [None, 'auto', 'space', 'comma', 'slash']
BRK_OPTS = [None, 'auto', 'true', 'false']


# ---------------------------------------------------------------- values (JSON-able) and the model

def S(x):
    return {'k': 's', 'x': x}


def L(items, sep, brk=False):
    return {'k': 'list', 'items': list(items), 'sep': sep, 'brk': bool(brk)}


def M(pairs):
    return {'k': 'map', 'pairs': [list(p) for p in pairs]}


def A(items, tc=False):
    """Argument list of positional arguments; tc: the call is written with a trailing comma (which means nothing)."""
    v = {'k': 'arglist', 'items': list(items)}
    if tc:
        v['tc'] = True
    return v


# Deviation switches: named, individually documented departures of the pinned tree from the model.  A failing case
# whose observation equals the model's prediction with a (minimal) set of these switched on is reported under the
# signature 'deviation:<names>' (one signature per defect); any other disagreement gets an ordinary signature.
DEV_TC = 'arglist-trailing-comma-iterates-extra-null'       # zip / @each over al(a, b,) see a third element null
DEV_INDEX_ARGLIST = 'index-on-arglist-finds-nothing'        # list.index(al(a), a) is null
DEV_INDEX_MAP_BRK = 'index-on-map-ignores-brackets-of-the-searched-pair'    # list.index((d: 4), [d 4]) is 1
DEV_LEN_NULL = 'length-of-null-is-zero'                      # list.length(null) is 0; null is a single value like any other
DEVIATIONS = [DEV_TC, DEV_INDEX_ARGLIST, DEV_INDEX_MAP_BRK, DEV_LEN_NULL]


class SassError(Exception):
    pass


def stype(v):
    x = v['x']
    if x in ('true', 'false'):
        return 'bool'
    if x == 'null':
        return 'null'
    return 'number' if x[0].isdigit() else 'string'


def aslist(v):
    k = v['k']
    if k == 's':
        return [v]
    if k == 'map':
        return [L(p, 'space') for p in v['pairs']]
    return list(v['items'])


def sep_of(v):
    """None = undecided."""
    k = v['k']
    if k == 'list':
        return v['sep']
    if k == 'arglist':
        return 'comma'
    if k == 'map':
        return 'comma' if v['pairs'] else None
    return None


def brk_of(v):
    return v['k'] == 'list' and v['brk']


def eq(a, b):
    if a['k'] == 's' and b['k'] == 's':
        if stype(a) != stype(b):
            return False
        return a['x'].strip('"') == b['x'].strip('"')
    if a['k'] == 'list' and b['k'] == 'list':
        return a['sep'] == b['sep'] and a['brk'] == b['brk'] and len(a['items']) == len(b['items']) and \
            all(eq(x, y) for x, y in zip(a['items'], b['items']))
    return False      # other combinations are never generated as (element, needle)


def index_of(i, n):
    if i == 0 or abs(i) > n:
        raise SassError('index')
    return i - 1 if i > 0 else n + i


def iter_items(v, dev):
    items = aslist(v)
    if DEV_TC in dev and v['k'] == 'arglist' and v.get('tc'):
        items.append(S('null'))
    return items


def model(case, dev=frozenset()):
    f, vs = case['fn'], case['vals']
    v = vs[0] if vs else None
    if f == 'identity':
        return v
    if f == 'length':
        if DEV_LEN_NULL in dev and v['k'] == 's' and v['x'] == 'null':
            return S('0')
        return S(str(len(aslist(v))))
    if f == 'separator':
        return S(sep_of(v) or 'space')
    if f == 'is-bracketed':
        return S('true' if brk_of(v) else 'false')
    if f == 'nth':
        items = aslist(v)
        return items[index_of(case['i'], len(items))]
    if f == 'set-nth':
        items = aslist(v)
        items[index_of(case['i'], len(items))] = case['x']
        return L(items, sep_of(v), brk_of(v))
    if f == 'append':
        sep = case.get('sep')
        return L(aslist(v) + [case['x']], sep if sep not in (None, 'auto') else (sep_of(v) or 'space'), brk_of(v))
    if f == 'join':
        a, b = vs
        sep, brk = case.get('sep'), case.get('brk')
        if sep in (None, 'auto'):
            sep = sep_of(a) or sep_of(b) or 'space'
        br = brk_of(a) if brk in (None, 'auto') else brk == 'true'
        return L(aslist(a) + aslist(b), sep, br)
    if f == 'index':
        x = case['x']
        if DEV_INDEX_ARGLIST in dev and v['k'] == 'arglist':
            return S('null')
        if DEV_INDEX_MAP_BRK in dev and v['k'] == 'map' and x['k'] == 'list':
            x = L(x['items'], x['sep'], False)
        for k, e in enumerate(aslist(v)):
            if eq(e, x):
                return S(str(k + 1))
        return S('null')
    if f == 'zip':
        ls = [iter_items(x, dev) for x in vs]
        m = min(len(l) for l in ls) if ls else 0
        return L([L([l[i] for l in ls], 'space') for i in range(m)], 'comma')
    raise ValueError(f)


def desc(v, dev=frozenset()):
    """What d() prints for this value (dev only matters for an argument list itself: d() walks it with @each)."""
    k = v['k']
    if k == 's':
        return 'S(%s:%s)' % (stype(v), v['x'])
    if k == 'map':
        return 'M(%d)[%s]' % (len(v['pairs']), ''.join('%s=%s|' % (desc(a), desc(b)) for a, b in v['pairs']))
    sep = sep_of(v)
    return 'L(%s,%s,%d,%s)[%s]' % (sep or 'space', 'true' if brk_of(v) else 'false', len(v['items']), sep or 'comma',
                                 ''.join(desc(e) + '|' for e in iter_items(v, dev)))


def kind_of(v):
    k = v['k']
    if k == 's':
        return 'single-value'
    n = len(v['pairs'] if k == 'map' else v['items'])
    if k == 'list':
        return 'empty-list' if n == 0 else 'one-element-list' if n == 1 else 'list'
    return ('empty-' if n == 0 else '') + k


# ---------------------------------------------------------------- expression text

def render(v):
    k = v['k']
    if k == 's':
        return v['x']
    if k == 'arglist':
        return 'al(%s%s)' % (', '.join(render(e) for e in v['items']), ',' if v.get('tc') else '')
    if k == 'map':
        if not v['pairs']:
            return 'map.remove((zz: 1), zz)'
        return '(%s)' % ', '.join('%s: %s' % (render(a), render(b)) for a, b in v['pairs'])
    items, sep, brk = [render(e) for e in v['items']], v['sep'], v['brk']
    n = len(items)
    o, c = ('[', ']') if brk else ('(', ')')
    if n == 0:
        return o + c if sep is None else 'list.join(%s, (), $separator: %s)' % (o + c, sep)
    if n == 1:
        if sep is None:
            return '[%s]' % items[0] if brk else 'list.set-nth(zz, 1, %s)' % items[0]
        if sep == 'comma':
            return '%s%s,%s' % (o, items[0], c)
        return 'list.append(%s, %s, $separator: %s)' % (o + c, items[0], sep)
    if sep == 'slash':
        s = 'list.slash(%s)' % ', '.join(items)
        return 'list.join([], %s)' % s if brk else s
    return o + (', ' if sep == 'comma' else ' ').join(items) + c


def expr_of(case):
    f, vs = case['fn'], case['vals']
    if f == 'identity':
        return 'd(%s)' % render(vs[0])
    args = [render(v) for v in vs]
    if f in ('nth', 'set-nth'):
        args.append(str(case['i']))
    if f in ('set-nth', 'append', 'index'):
        args.append(render(case['x']))
    sep, brk = case.get('sep'), case.get('brk')
    if case.get('positional') and sep is not None:
        args.append(sep)
        if brk is not None:
            args.append(brk)
    else:
        if sep is not None:
            args.append('$separator: %s' % sep)
        if brk is not None:
            args.append('$bracketed: %s' % brk)
    name = GLOBAL[f] if case.get('style') == 'global' else 'list.' + f
    return 'd(%s(%s))' % (name, ', '.join(args))


# ---------------------------------------------------------------- reading a description back (for the signature only)

def parse_desc(t, p=0):
    if t.startswith('S(', p):
        e = t.index(')', p)
        ty, _, tx = t[p + 2:e].partition(':')
        return ('S', ty, tx), e + 1
    if t.startswith('L(', p):
        e = t.index(')', p)
        hd = t[p + 2:e].split(',')
        if len(hd) != 4 or t[e + 1] != '[':
            raise ValueError('header')
        p, items = e + 2, []
        while t[p] != ']':
            x, p = parse_desc(t, p)
            if t[p] != '|':
                raise ValueError('bar')
            items.append(x)
            p += 1
        return ('L', hd[0], hd[1], hd[2], hd[3], items), p + 1
    if t.startswith('M(', p):
        e = t.index(')', p)
        if t[e + 1] != '[':
            raise ValueError('header')
        p, items = e + 2, []
        while t[p] != ']':
            a, p = parse_desc(t, p)
            if t[p] != '=':
                raise ValueError('eq')
            b, p = parse_desc(t, p + 1)
            if t[p] != '|':
                raise ValueError('bar')
            items.append((a, b))
            p += 1
        return ('M', items), p + 1
    raise ValueError('start')


def deviation(want, got):
    try:
        w, _ = parse_desc(want)
        g, e = parse_desc(got)
        if e != len(got):
            raise ValueError('trailing')
    except (ValueError, IndexError):
        return 'undescribable-result'
    if w[0] != g[0]:
        return 'wrong-kind(%s-for-%s)' % ({'S': 'single-value', 'L': 'list', 'M': 'map'}[g[0]], {'S': 'single-value', 'L': 'list', 'M': 'map'}[w[0]])
    if w[0] == 'S':
        return 'wrong-value' if w[1] == g[1] else 'wrong-value-type(%s-for-%s)' % (g[1], w[1])
    if w[0] == 'M':
        return 'wrong-map'
    dev = []
    if w[3] != g[3]:
        dev.append('length')
    elif w[5] != g[5]:
        dev.append('elements')
    if w[1] != g[1]:
        dev.append('separator(%s-for-%s)' % (g[1], w[1]))
    elif w[4] != g[4]:
        dev.append('undecidedness')
    if w[2] != g[2]:
        dev.append('brackets')
    return 'wrong-' + '+'.join(dev) if dev else 'differs'


# ---------------------------------------------------------------- judging

def signature(case, obs):
    f = case['fn']
    sig = '%s|%s' % (f, ','.join(kind_of(v) for v in case['vals']))
    if f in ('append', 'join'):
        sig += '|separator=%s' % ('auto' if case.get('sep') in (None, 'auto') else 'explicit')
    if f == 'join':
        sig += '|bracketed=%s' % ('auto' if case.get('brk') in (None, 'auto') else 'explicit')
    if f == 'index':
        x = case['x']
        sig += '|needle=%s' % ('single-value' if x['k'] == 's' else 'bracketed-list' if brk_of(x) else 'plain-list')
    if f in ('nth', 'set-nth'):
        n, i = len(aslist(case['vals'][0])), case['i']
        sig += '|index=%s' % ('zero' if i == 0 else ('positive' if i > 0 else 'negative') + ('-valid' if abs(i) <= n else '-out-of-range'))
    return sig + '|' + obs


def judge(ctx, case, r):
    f = case['fn']
    ctx.ran()
    ctx.nontrivial(expr_of(case))
    ctx.seen('function:style', '%s:%s' % (f, case.get('style', 'module')))
    for v in case['vals']:
        ctx.seen('operand', '%s:%s:%s%s' % (kind_of(v), sep_of(v) or 'undecided', 'bracketed' if brk_of(v) else 'plain', ':trailing-comma' if v.get('tc') else ''))
    if f in ('append', 'join'):
        ctx.seen('options', '%s:separator=%s:bracketed=%s%s' % (f, case.get('sep'), case.get('brk'), ':positional' if case.get('positional') else ''))
    try:
        want = model(case)
    except SassError:
        want = None
    detail = {'expr': expr_of(case), 'expected': 'an error' if want is None else desc(want),
              'observed': r[1][:400] if isinstance(r[1], str) else r[1]}
    if r[0] not in ('ok', 'err') and not (r[0] == 'other' and r[1] == 'panic'):
        ctx.undecided('harness-%s' % (r[1] if r[0] == 'other' else r[0]))
        return
    if r[0] == 'other':
        ctx.violation(signature(case, 'observed=panic'), case, detail)
        return
    if want is None:
        ctx.seen('outcome', f + ':error-expected')
        if r[0] != 'err':
            ctx.violation(signature(case, 'expected=error|observed=value'), case, detail)
        return
    if want['k'] == 'list':
        ctx.seen('result', 'list:%s:%s:n%s' % (want['sep'] or 'undecided', 'bracketed' if want['brk'] else 'plain', min(len(want['items']), 3)))
    else:
        ctx.seen('result', f + ':' + (stype(want) if want['k'] == 's' else want['k']))
    if r[0] == 'err':
        ctx.violation(signature(case, 'expected=value|observed=error'), case, detail)
        return
    if r[1] != desc(want):
        for devs in DEV_SETS:             # smallest sets first
            try:
                w = model(case, devs)
                if desc(w, devs) == r[1]:
                    ctx.violation('deviation:' + '+'.join(sorted(devs)), case, detail)
                    return
            except SassError:
                pass
        ctx.violation(signature(case, deviation(desc(want), r[1])), case, detail)


import itertools
DEV_SETS = [frozenset(c) for n in range(1, len(DEVIATIONS) + 1) for c in itertools.combinations(DEVIATIONS, n)]


def expects_error(case):
    try:
        model(case)
        return False
    except SassError:
        return True


def check_cases(ctx, cases, chunk=25):
    ok_idx = [k for k, c in enumerate(cases) if not expects_error(c)]
    err_idx = [k for k, c in enumerate(cases) if expects_error(c)]
    for idx, expect_err in ((ok_idx, False), (err_idx, True)):
        if not idx:
            continue
        exprs = [expr_of(cases[k]) for k in idx]
        if expect_err or chunk == 1:          # expected errors: one job each, all in one batch
            res = ev.evaluate(ctx, exprs, defs=DEFS, inspect=False)
        else:
            res = ev.evaluate_many(ctx, exprs, defs=DEFS, inspect=False, chunk=chunk)
        for k, r in zip(idx, res):
            judge(ctx, cases[k], r)


def check_case(ctx, case):
    check_cases(ctx, [case], chunk=1)


# ---------------------------------------------------------------- workload

IDENTS = ['a', 'b', 'c', 'd', 'e']
NUMS = ['1', '2', '3', '4', '5', '6', '7px', '8em']
NESTED = [L([S('x'), S('y')], 'space'), L([S('x'), S('y')], 'space', True), L([S('x'), S('y')], 'comma'),
          L([S('y'), S('x')], 'space'), L([S('x'), S('9')], 'space')]


def table():
    t = []
    abc = [S('a'), S('b'), S('c')]
    for n in range(4):
        for sep in (None, 'space', 'comma', 'slash'):
            if sep is None and n >= 2:
                continue
            for brk in (False, True):
                t.append(L(abc[:n], sep, brk))
    t += [S('a'), S('1'), S('7px'), S('null')]
    t += [M([]), M([(S('a'), S('1'))]), M([(S('a'), S('1')), (S('b'), S('2'))]), M([(S('1'), S('a')), (S('b'), NESTED[0]), (S('c'), S('3'))])]
    t += [A([]), A([S('a')]), A([S('a'), S('b')]), A([S('1'), NESTED[0], S('3')]), A([S('a'), S('b')], tc=True)]
    t += [L([S('a'), S('b'), S('a'), S('b')], 'space'), L([NESTED[0], S('a'), NESTED[0], NESTED[1]], 'comma')]
    return t


def gen_scalar(rng):
    return S(rng.choice(IDENTS if rng.random() < 0.5 else NUMS))


def gen_elem(rng):
    return rng.choice(NESTED) if rng.random() < 0.15 else gen_scalar(rng)


def gen_value(rng):
    r = rng.random()
    if r < 0.1:
        return S('null') if r < 0.015 else gen_scalar(rng)
    if r < 0.25:
        n = rng.randint(0, 4)
        keys = rng.sample(IDENTS + NUMS[:6], n)
        return M([(S(k), gen_elem(rng)) for k in keys])
    if r < 0.4:
        n = rng.randint(0, 6)
        return A([gen_elem(rng) for _ in range(n)], tc=n > 0 and rng.random() < 0.25)
    n = rng.choice([0, 1, 1, 2, 2, 3, 3, 4, 5, 6])
    pool = [gen_elem(rng) for _ in range(rng.randint(1, 3))] if rng.random() < 0.3 else None     # duplicates: first match matters
    items = [rng.choice(pool) if pool else gen_elem(rng) for _ in range(n)]
    sep = rng.choice(['space', 'comma', 'slash'] + ([None] * 3 if n < 2 else []))
    return L(items, sep, rng.random() < 0.35)


def needles(rng, v):
    out, seen = [], set()

    def add(x):
        key = desc(x)
        if key not in seen:
            seen.add(key)
            out.append(x)
    for e in aslist(v):
        add(e)
        if e['k'] == 's' and stype(e) == 'string':
            add(S('"%s"' % e['x']))                       # strings are equal whatever their quotes
        if e['k'] == 'list' and len(e['items']) == 2:
            add(L(e['items'], 'comma' if e['sep'] == 'space' else 'space', e['brk']))    # same elements, other separator
            add(L(e['items'], e['sep'], not e['brk']))
            if e['items'][0]['k'] == 's':
                add(e['items'][0])
    add(S('zq'))
    add(S('77'))
    add(rng.choice(NESTED))
    add(gen_scalar(rng))
    return out


def unary_cases(rng, v, style, full=True):
    base = {'vals': [v], 'style': style}
    n = len(aslist(v))
    out = [dict(base, fn=f) for f in ('identity', 'length', 'separator', 'is-bracketed')]
    out.append({'fn': 'zip', 'vals': [v], 'style': style})
    for i in range(-n - 2, n + 3):
        out.append(dict(base, fn='nth', i=i))
        out.append(dict(base, fn='set-nth', i=i, x=rng.choice([S('zq'), S('77'), rng.choice(NESTED), L([S('x'), S('y'), S('z')], 'comma', True)])))
    xs = [gen_scalar(rng), rng.choice(NESTED), rng.choice([L([], None), L([S('x')], 'comma'), L([S('p'), S('q'), S('r')], 'slash'), M([(S('x'), S('y'))])])]
    for x in xs if full else xs[:2]:
        for sep in SEP_OPTS:
            c = dict(base, fn='append', x=x)
            if sep is not None:
                c['sep'] = sep
                if rng.random() < 0.3:
                    c['positional'] = True
            out.append(c)
    for x in needles(rng, v):
        out.append(dict(base, fn='index', x=x))
    return out


def binary_cases(rng, v, w, style):
    out = []
    for sep in SEP_OPTS:
        for brk in BRK_OPTS:
            c = {'fn': 'join', 'vals': [v, w], 'style': style}
            if sep is not None:
                c['sep'] = sep
            if brk is not None:
                c['brk'] = brk
            if sep is not None and rng.random() < 0.3:
                c['positional'] = True
            out.append(c)
    out.append({'fn': 'zip', 'vals': [v, w], 'style': style})
    return out


def worker(ctx):
    rng = ctx.rng
    t = table()
    units = [('u', a) for a in range(len(t))] + [('b', a, b) for a in range(len(t)) for b in range(len(t))]
    completed = True
    batch = []
    for k, u in enumerate(units):
        if k % ctx.nshards != ctx.shard:
            continue
        if ctx.expired():
            completed = False
            break
        batch += unary_cases(rng, t[u[1]], 'module') if u[0] == 'u' else binary_cases(rng, t[u[1]], t[u[2]], 'module')
        if len(batch) >= 400:
            check_cases(ctx, batch)
            batch = []
    if batch:
        check_cases(ctx, batch)
    if completed:
        ctx.stat('table_completed')
    if ctx.shard == 0:
        check_cases(ctx, [{'fn': 'zip', 'vals': [], 'style': s} for s in ('module', 'global')])
    sampled = False
    while not ctx.expired():
        cs = []
        for _ in range(3):
            v, w, u = gen_value(rng), gen_value(rng), gen_value(rng)
            style = rng.choice(['module', 'module', 'module', 'global'])
            cs += unary_cases(rng, v, style) + binary_cases(rng, v, w, style)
            cs.append({'fn': 'zip', 'vals': [v, w, u], 'style': style})
            cs.append({'fn': 'zip', 'vals': [w, u, v], 'style': style})
            for c in binary_cases(rng, w, v, style):
                if rng.random() < 0.3:
                    cs.append(c)
            ctx.stat('random_rounds')
        check_cases(ctx, cs)
        if not sampled:
            c = cs[len(cs) // 2]
            ctx.sample({'case': c, 'expr': expr_of(c)})
            sampled = True
