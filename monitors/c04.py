"""C04 - load URLs resolve to the documented candidate file (real directories, real FsLoader, exhaustive candidate subsets)."""
import itertools, os, re, shutil, tempfile

PROP = 'C04'
LEVEL = 'exploration'
BUDGET = {'quick': 30, 'thorough': 420}
FLOOR = {'quick': 2000, 'thorough': 20000}
EXHAUSTIVE = {'quick': True, 'thorough': True}
RULE = ('real files in a scratch directory tree, compiled through FsContext::for_path + push_path (what the CLI does).  Family 1 '
        '(exhaustive, quick and thorough): for @import every subset of the 10 candidate files of url `u` and for @use/@forward every '
        'subset of the 6, placed in the importing file\'s directory, with the importing file at the root and in a sub-directory '
        '(2 x (1024 + 64 + 64) cases).  Family 2 (exhaustive in thorough, sampled in quick): every subset of the 4 scss candidates in '
        'each of three locations (importer directory, load path 1, load path 2) for the three load kinds and both importer '
        'positions (2 x 3 x 4096), plus a decoy copy of the importer\'s sub-directory inside a load path.  Family 3: the plain-CSS '
        'fallback matrix (.css, http://, https://, //, url()) for @import, and the same URLs for @use.  Every candidate file '
        'identifies itself in its CSS.  Distinct by (family, kind, importer position, file set); non-trivial = at least two candidates '
        'exist, or none.  Oracle: location-major search (importer directory, then the base directory and each load path in order), '
        'inside a location the documented candidate order; nothing found => the compilation fails; fallback URLs => a plain @import.')
LEVEL_TEXT = ('Reference-model monitor, exhaustive over candidate subsets: the documented search order is a ten-line model; which file '
              'was loaded is read from the output of the real FsLoader on a real directory tree.')
LEVEL_NOTE = ('Trusted: the reading of the statement: for @import both "every .import.scss variant before its own .scss candidate" orders '
              '(grouped by partial-ness or interleaved) are admitted; the directory of the entry file counts as the first load path.')
TECHNIQUE = 'runtime monitoring: exhaustive candidate-subset enumeration on a real file system against a search-order model'
ASSUMPTIONS = ['scratch directories are created under $TMPDIR (or /tmp) by the check itself and removed when it ends']

USE_ORDER = ['u.scss', '_u.scss', 'u/index.scss', 'u/_index.scss', 'u.css', '_u.css']
IMPORT_GROUPED = ['u.import.scss', '_u.import.scss', 'u.scss', '_u.scss', 'u/index.import.scss', 'u/_index.import.scss',
                  'u/index.scss', 'u/_index.scss', 'u.css', '_u.css']
IMPORT_INTERLEAVED = ['u.import.scss', 'u.scss', '_u.import.scss', '_u.scss', 'u/index.import.scss', 'u/index.scss',
                      'u/_index.import.scss', 'u/_index.scss', 'u.css', '_u.css']
SCSS4 = ['u.scss', '_u.scss', 'u/index.scss', 'u/_index.scss']
STMT = {'import': '@import "u";', 'use': '@use "u";', 'forward': '@forward "u";'}
HIT = re.compile(r'f:\s*"([^"]+)"')


def orders(kind):
    return [IMPORT_GROUPED, IMPORT_INTERLEAVED] if kind == 'import' else [USE_ORDER]


def winner(kind_order, locations, present):
    """location-major; present: set of (location, candidate)."""
    for loc in locations:
        for c in kind_order:
            if (loc, c) in present:
                return (loc, c)
    return None


def winner_candidate_major(kind_order, locations, present):
    for c in kind_order:
        for loc in locations:
            if (loc, c) in present:
                return (loc, c)
    return None


class Tree:
    """One scratch directory tree per worker, reused between cases (files are created and removed per case)."""

    def __init__(self):
        self.root = tempfile.mkdtemp(prefix='verif-c04-')
        self.made = []

    def write(self, rel, text):
        p = os.path.join(self.root, rel)
        os.makedirs(os.path.dirname(p), exist_ok=True)
        with open(p, 'w') as f:
            f.write(text)
        self.made.append(p)

    def clear(self):
        for p in self.made:
            try:
                os.unlink(p)
            except OSError:
                pass
        self.made = []

    def close(self):
        shutil.rmtree(self.root, ignore_errors=True)


# location name -> directory relative to the tree root
def loc_dirs(importer_in_sub):
    d = {'base': 'base', 'lp1': 'lp1', 'lp2': 'lp2', 'decoy': 'lp1/sub'}
    d['importer'] = 'base/sub' if importer_in_sub else 'base'
    return d


def search_locations(importer_in_sub):
    """The documented order: the importing file's directory, then (unchanged url) every load path: base, lp1, lp2."""
    return ['importer', 'base', 'lp1', 'lp2'] if importer_in_sub else ['importer', 'lp1', 'lp2']


def build(tree, case):
    tree.clear()
    sub = case['sub']
    dirs = loc_dirs(sub)
    stmt = case.get('stmt') or STMT[case['kind']]
    if sub:
        tree.write('base/main.scss', '@import "sub/mid";\n')
        tree.write('base/sub/_mid.scss', stmt + '\n.mid{x:y}\n')
    else:
        tree.write('base/main.scss', stmt + '\n.main{x:y}\n')
    for loc, cand in case['present']:
        tree.write(os.path.join(dirs[loc], cand), '.hit { f: "%s:%s"; }\n' % (loc, cand))
    # the load path directories always exist
    for d in ('lp1', 'lp2'):
        os.makedirs(os.path.join(tree.root, d), exist_ok=True)
    return {'api': 'fs', 'path': os.path.join(tree.root, 'base/main.scss'),
            'load_paths': [os.path.join(tree.root, 'lp1'), os.path.join(tree.root, 'lp2')]}


def judge(ctx, case, r):
    ctx.ran()
    present = set((l, c) for l, c in case['present'])
    if len(present) != 1:
        ctx.nontrivial(case)
    st = r.get('status')
    if st in ('timeout', 'crash', 'harness-error', 'panic'):
        ctx.undecided(str(st))
        return
    kind, sub = case['kind'], case['sub']
    pos = 'importer-in-subdir' if sub else 'importer-at-root'
    ctx.seen('families', '%s %s %s' % (case['family'], kind, pos))
    if case['family'] == 'fallback':
        want = case['want']
        if want == 'plain-import':
            ok = st == 'ok' and '@import' in r.get('out', '') and case['needle'] in r.get('out', '')
        else:
            ok = st == 'err'
        if not ok:
            ctx.violation('fallback|%s|%s|expected=%s|observed=%s' % (kind, case['cls'], want, st), case,
                          {'out': r.get('out', '')[:300], 'err': (r.get('err') or '')[:300]})
        return
    locs = search_locations(sub)
    visible = set(p for p in present if p[0] in locs)         # the decoy location is never searched
    admitted = set(winner(o, locs, visible) for o in orders(kind))
    if st == 'ok':
        hits = HIT.findall(r.get('out', ''))
        got = tuple(hits[0].split(':', 1)) if hits else None
        if len(hits) > 1:
            ctx.violation('more-than-one-candidate-loaded|%s' % kind, case, {'hits': hits})
            return
    else:
        got = None
        msg = (r.get('err') or '')
        if None in admitted and "Can't find" not in msg and 'not found' not in msg:
            ctx.undecided('not-found-case-fails-with-another-error', msg[:120].replace('\n', ' | '))
            return
    ctx.seen('winners', '%s' % (got[1] if got else 'none'))
    if got in admitted:
        return
    exp = sorted(admitted, key=str)[0]
    detail = {'expected': exp, 'observed': got, 'status': st, 'err': (r.get('err') or '')[:200], 'out': r.get('out', '')[:200]}
    # deviation models (listed findings): rsass looks every candidate name up in ALL search directories before it tries the next
    # candidate name (candidate-major), and it looks the url joined to the importer's directory up below every load path too
    phases = [['importer', 'decoy'], ['base', 'lp1', 'lp2']] if sub else [['importer', 'lp1', 'lp2']]
    dev = set()
    for o in orders(kind):
        w = None
        for ph in phases:
            w = winner_candidate_major(o, ph, present)
            if w:
                break
        dev.add(w)
    if got is not None and got in dev:
        if got[0] == 'decoy':
            ctx.violation('relative-url-also-searched-below-load-paths|%s' % kind, case, detail)
        else:
            ctx.violation('search-is-candidate-major-across-locations|%s|%s' % (kind, pos), case, detail)
        return
    if got is None and sub and exp is not None and exp[0] in ('base', 'lp1', 'lp2'):
        ctx.violation('importer-in-subdir|url-not-retried-unchanged-in-load-paths|%s' % kind, case, detail)
        return
    if exp is None:
        ctx.violation('nothing-to-find|%s|%s|observed=%s' % (kind, pos, 'loaded-' + got[0] if got else st), case, detail)
        return
    ctx.violation('wrong-candidate|%s|%s|expected=%s:%s|observed=%s' % (kind, pos, exp[0], exp[1], '%s:%s' % got if got else 'not-found'), case, detail)


def run_cases(ctx, tree, cases):
    # the tree is shared between the cases of one worker, so jobs are run one at a time
    for c in cases:
        job = build(tree, c)
        judge(ctx, c, ctx.driver.call(job))


def check_case(ctx, case):
    tree = Tree()
    try:
        run_cases(ctx, tree, [case])
    finally:
        tree.close()


def family1():
    for sub in (False, True):
        for kind in ('import', 'use', 'forward'):
            cands = IMPORT_GROUPED if kind == 'import' else USE_ORDER
            for mask in range(1 << len(cands)):
                yield {'family': 'one-location', 'kind': kind, 'sub': sub,
                       'present': [['importer', c] for i, c in enumerate(cands) if mask >> i & 1]}


def family2_case(kind, sub, masks, decoy=0):
    present = []
    for loc, m in zip(('importer', 'base' if sub else None, 'lp1', 'lp2'), masks):
        if loc is None:
            continue
        present += [[loc, c] for i, c in enumerate(SCSS4) if m >> i & 1]
    present += [['decoy', c] for i, c in enumerate(SCSS4) if decoy >> i & 1]
    return {'family': 'cross-location', 'kind': kind, 'sub': sub, 'present': present}


def family2():
    for sub in (False, True):
        for kind in ('import', 'use', 'forward'):
            for m0, m1, m2 in itertools.product(range(16), repeat=3):
                if sub:
                    # importer directory, base directory and one load path (the second load path is covered by the root family)
                    yield family2_case(kind, sub, (m0, m1, m2, 0))
                else:
                    yield family2_case(kind, sub, (m0, None, m1, m2))


FALLBACK = [('nofile.css', 'css-extension'), ('http://example.org/x', 'http'), ('https://example.org/x.scss', 'https'),
            ('//example.org/x', 'protocol-relative'), ('http://example.org/x.css', 'http')]


def family3():
    for sub in (False, True):
        for url, cls in FALLBACK:
            yield {'family': 'fallback', 'kind': 'import', 'sub': sub, 'present': [], 'stmt': '@import "%s";' % url, 'cls': cls,
                   'want': 'plain-import', 'needle': url}
            yield {'family': 'fallback', 'kind': 'use', 'sub': sub, 'present': [], 'stmt': '@use "%s" as q;' % url, 'cls': cls, 'want': 'error',
                   'needle': url}
        yield {'family': 'fallback', 'kind': 'import', 'sub': sub, 'present': [], 'stmt': '@import url(foo);', 'cls': 'url()',
               'want': 'plain-import', 'needle': 'foo'}
        yield {'family': 'fallback', 'kind': 'import', 'sub': sub, 'present': [], 'stmt': '@import url("foo.scss");', 'cls': 'url()',
               'want': 'plain-import', 'needle': 'foo.scss'}
        yield {'family': 'fallback', 'kind': 'import', 'sub': sub, 'present': [], 'stmt': '@import "nofile";', 'cls': 'plain-name', 'want': 'error',
               'needle': ''}


def worker(ctx):
    tree = Tree()
    try:
        done = True
        fam = list(family3()) + list(family1())
        mine = [c for i, c in enumerate(fam) if i % ctx.nshards == ctx.shard]
        for i in range(0, len(mine), 50):
            run_cases(ctx, tree, mine[i:i + 50])
            if ctx.expired():
                done = False
                break
        if mine:
            ctx.sample(mine[-1])
        if done:
            ctx.stat('family1_completed')
        if done and not ctx.quick:
            for idx, c in enumerate(family2()):
                if idx % ctx.nshards != ctx.shard:
                    continue
                run_cases(ctx, tree, [c])
                if idx % 800 == ctx.shard and ctx.expired():
                    done = False
                    break
            if done:
                ctx.stat('family2_completed')
        if done:
            ctx.stat('space_completed')
        first = True
        while not ctx.expired():
            r = ctx.rng
            sub = r.random() < 0.5
            c = family2_case(r.choice(['import', 'use', 'forward']), sub,
                             (r.randrange(16), r.randrange(16) if sub else None, r.randrange(16), r.randrange(16)),
                             decoy=r.randrange(16) if sub and r.random() < 0.3 else 0)
            if first:
                ctx.sample(c)
                first = False
            run_cases(ctx, tree, [c])
            ctx.stat('random_cross_location')
    finally:
        tree.close()
