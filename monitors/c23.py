"""C23 - selector.is-superselector is a preorder with the expected monotonicity (relational monitor)."""
from .lib import ev, selgen as sg

PROP = 'C23'
LEVEL = 'exploration'
BUDGET = {'quick': 30, 'thorough': 400}
FLOOR = {'quick': 3000, 'thorough': 40000}
RULE = ('pools of ~11 related selector lists over a small alphabet (type, universal, class, id, attribute selectors with every '
        'operator and the i/s modifiers, pseudo-classes, nth arguments, :not/:is/:where/:has/:matches with selector arguments, '
        'pseudo-elements, all four combinators): a list A of 1..3 complex selectors, each member, b = a member specialised by '
        '1-2 steps (simple selector added to a compound outside any pseudo argument, ancestor or parent added in front, '
        'ancestor inserted at a descendant combinator), '
        'c = b specialised again, lists B and C built the same way from A and B, one generalisation and one variant of a '
        'member, a sibling insertion, a list mixing a specialised member with an unrelated selector, unrelated lists.  selector.is-superselector is evaluated for EVERY ordered pair of the pool (100-144 '
        'calls, one stylesheet).  Oracle (from the statement only): diagonal true; A superselector of each member; A and the '
        'member superselectors of b and c, b of c, the generalisation of the member; for every triple (i,j,k) of distinct '
        'pool entries with r[i][j] and r[j][k] observed true, r[i][k] must be true.  Distinct non-trivial = an asserted '
        'pair of different texts, or a triple whose two premises were observed true (hash of the texts).')
LEVEL_TEXT = ('Relational monitor: reflexivity and transitivity are judged between results of the real function on the same '
              'operands; membership and specialisation are true by the meaning of CSS selectors (and by the statement), so '
              'no reference implementation of is-superselector is involved.')
LEVEL_NOTE = ('Trusted: reading true/false from the output; the generator only adds simple selectors at top level of a '
              'compound (never inside :not()/:is() arguments, never a pseudo-element, never a second id or type).')
TECHNIQUE = 'runtime monitoring: complete relation matrices over generated pools of related selectors; preorder and monotonicity laws'
ASSUMPTIONS = ['selector.is-superselector("S", "T") on two string literals observes the relation the statement talks about']

INTERESTING = ('comb-child', 'comb-next', 'comb-sibling', 'pe', 'nth', 'univ', 'attr-modifier')


def feat_sig(*cxs):
    f = set()
    for cx in cxs:
        for x in cx:
            if x.startswith('pcsel:') or x in INTERESTING:
                f.add(x)
    return ','.join(sorted(f)) or 'plain'


def text_features(text):
    """Feature names of a selector-list *text* (for signatures at replay time the structure is gone)."""
    f = set()
    if ' > ' in text:
        f.add('comb-child')
    if ' + ' in text:
        f.add('comb-next')
    if ' ~ ' in text:
        f.add('comb-sibling')
    for n in sg.SELPSEUDOS:
        if ':%s(' % n in text:
            f.add('pcsel:' + n)
    if '::' in text or ':before' in text:
        f.add('pe')
    if ':nth-' in text:
        f.add('nth')
    if '*' in text.replace('*=', ''):
        f.add('univ')
    if ' i]' in text or ' s]' in text:
        f.add('attr-modifier')
    return f


def spec_chain(rng, cx, g, steps):
    """-> (complex, [step names]) or None"""
    names = []
    for _ in range(steps):
        r = None
        for _ in range(4):
            r = sg.specialise(rng, cx, g)
            if r:
                break
        if not r:
            return None
        cx, nm = r
        names.append(nm)
    return cx, names


def variant(rng, cx, g):
    """A neighbour that is neither asserted above nor below: one combinator changed, or one compound regenerated."""
    parts = list(cx)
    combs = [i for i, p in enumerate(parts) if isinstance(p, str)]
    if combs and rng.random() < 0.6:
        i = rng.choice(combs)
        parts[i] = rng.choice([c for c in sg.COMBS if c != parts[i]])
    else:
        idx = [i for i, p in enumerate(parts) if not isinstance(p, str)]
        i = rng.choice(idx)
        c = g.compound(0)
        if i != idx[-1] and c[-1][0] == 'pe':
            c = c[:-1] or (g.cls(),)
        parts[i] = c
    return tuple(parts)


def make_pool(rng, g):
    """-> case dict: {'sels': [text], 'roles': [role], 'asserted': [[i, j, why]]}"""
    A = g.list(3)
    sels, roles, asserted = [], [], []

    def add(text, role):
        sels.append(text)
        roles.append(role)
        return len(sels) - 1
    iA = add(sg.render_list(A), 'A')
    im = []
    if len(A) > 1:
        for m in A:
            im.append(add(sg.render_complex(m), 'member'))
            asserted.append([iA, im[-1], 'member'])
    else:
        im.append(iA)
    k = rng.randrange(len(A))
    m = A[k]
    ib = ic = None
    rb = spec_chain(rng, m, g, rng.choice([1, 1, 2]))
    if rb:
        b, sb = rb
        ib = add(sg.render_complex(b), 'b')
        why = sb[0] if len(sb) == 1 else 'multi-step'
        asserted.append([im[k], ib, why])
        if im[k] != iA:
            asserted.append([iA, ib, 'list-of:' + why])
        rc = spec_chain(rng, b, g, rng.choice([1, 1, 2]))
        if rc:
            c, sc = rc
            ic = add(sg.render_complex(c), 'c')
            asserted.append([ib, ic, sc[0] if len(sc) == 1 else 'multi-step'])
            asserted.append([im[k], ic, 'multi-step'])
            if im[k] != iA:
                asserted.append([iA, ic, 'list-of:multi-step'])
    # lists B (every member specialises a member of A) and C (same from B): premises for list-level transitivity
    B = []
    for mm in A:
        r = spec_chain(rng, mm, g, 1) if rng.random() < 0.7 else (mm, [])
        B.append(r[0] if r else mm)
    rng.shuffle(B)
    add(sg.render_list(tuple(B)), 'B')
    C = []
    for mm in B[:rng.randint(1, len(B))]:
        r = spec_chain(rng, mm, g, 1) if rng.random() < 0.7 else (mm, [])
        C.append(r[0] if r else mm)
    add(sg.render_list(tuple(C)), 'C')
    gm = sg.generalise(rng, m)
    if gm:
        ig = add(sg.render_complex(gm[0]), 'general')
        asserted.append([ig, im[k], gm[1]])
    add(sg.render_complex(variant(rng, m, g)), 'variant')
    sib = sg.insert_sibling(rng, m, g)
    if sib:
        add(sg.render_complex(sib[0]), 'sibling-insert')
    # a list that mixes a specialised member with an unrelated selector (list-level premises that are only partly covered)
    add(sg.render_list((rng.choice(B), g.complex())), 'mixed')
    add(sg.render_list(g.list(2)), 'random')
    if len(sels) < 11:
        add(sg.render_list(g.list(2)), 'random')
    if len(sels) > 12:
        del sels[12:], roles[12:]
        asserted[:] = [a for a in asserted if a[0] < 12 and a[1] < 12]
    return {'sels': sels, 'roles': roles, 'asserted': asserted}


def exprs_for(case):
    s = case['sels']
    return ['selector.is-superselector(%s, %s)' % (sg.sass_quote(a), sg.sass_quote(b)) for a in s for b in s]


def judge(ctx, case, res):
    sels, roles = case['sels'], case.get('roles') or ['?'] * len(case['sels'])
    n = len(sels)
    ctx.ran(n * n)
    r = [[None] * n for _ in range(n)]
    bad = False
    for i in range(n):
        for j in range(n):
            x = res[i * n + j]
            if x[0] == 'ok' and x[1] in ('true', 'false'):
                r[i][j] = x[1] == 'true'
            elif x[0] == 'err':
                ctx.stat('call-is-an-error')
                ctx.seen('error-messages', x[1].split('\n')[0][:80])
                bad = True
            else:
                ctx.undecided('unreadable-result', str(x)[:100])
                bad = True
    if bad:
        ctx.stat('pools-with-errors')
    tf = [text_features(s) for s in sels]
    for t in tf:
        for x in t:
            ctx.seen('features', x)
    # reflexivity
    for i in range(n):
        if r[i][i] is None:
            continue
        ctx.stat('reflexivity-checked')
        if not r[i][i]:
            ctx.violation('not-reflexive|' + feat_sig(tf[i]), dict(case, focus=[i, i]),
                          {'selector': sels[i], 'is-superselector(s, s)': False})
    # membership / specialisation
    for i, j, why in case['asserted']:
        ctx.seen('asserted-kinds', why)
        if r[i][j] is None:
            continue
        ctx.stat('asserted-checked')
        if sels[i] != sels[j]:
            ctx.nontrivial(('pair', sels[i], sels[j]))
        if not r[i][j]:
            ctx.violation('%s-not-superselector' % why, dict(case, focus=[i, j]),
                          {'super': sels[i], 'sub': sels[j], 'why-expected': why, 'observed': False})
    # transitivity over the whole matrix
    for i in range(n):
        for j in range(n):
            if i == j or not r[i][j] or sels[i] == sels[j]:
                continue
            for k in range(n):
                if k == i or k == j or not r[j][k] or sels[k] in (sels[i], sels[j]):
                    continue
                if r[i][k] is None:
                    continue
                ctx.stat('transitivity-premises-held')
                ctx.seen('transitive-roles', '%s>%s>%s' % (roles[i], roles[j], roles[k]))
                ctx.nontrivial(('triple', sels[i], sels[j], sels[k]))
                if not r[i][k]:
                    ctx.violation('not-transitive|%s' % '>'.join((roles[i], roles[j], roles[k])),
                                  dict(case, focus=[i, j, k]),
                                  {'a': sels[i], 'b': sels[j], 'c': sels[k], 'a>=b': True, 'b>=c': True, 'a>=c': False})
    # what the relation looked like (evidence)
    ctx.stat('pairs-true', sum(1 for row in r for v in row if v))
    ctx.stat('pairs-false', sum(1 for row in r for v in row if v is False))


def check_cases(ctx, cases):
    exprs, spans = [], []
    for c in cases:
        e = exprs_for(c)
        spans.append((len(exprs), len(e)))
        exprs += e
    res = ev.evaluate_many(ctx, exprs, chunk=72)
    for c, (o, l) in zip(cases, spans):
        judge(ctx, c, res[o:o + l])


def check_case(ctx, case):
    check_cases(ctx, [case])


def worker(ctx):
    rng = ctx.rng
    g = sg.Gen(rng)
    g_plain = sg.Gen(rng, p_selpseudo=0.0, p_pe=0.0)          # more chance relations without pseudo arguments
    g_pseudo = sg.Gen(rng, p_selpseudo=0.45, p_pe=0.15)
    first = True
    while not ctx.expired():
        cases = []
        for _ in range(4):
            gg = rng.choice([g, g, g_plain, g_pseudo])
            cases.append(make_pool(rng, gg))
        check_cases(ctx, cases)
        if first:
            ctx.sample({'sels': cases[0]['sels'], 'asserted': cases[0]['asserted']})
            first = False
