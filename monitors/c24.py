"""C24 - selector.unify / extend / replace / nest / append obey their algebra (relational monitor)."""
import re
from .lib import ev, css, selgen as sg

PROP = 'C24'
LEVEL = 'exploration'
BUDGET = {'quick': 30, 'thorough': 400}
FLOOR = {'quick': 2000, 'thorough': 30000}
RULE = ('generated selector lists as for C23 (type, universal, class, id, attribute, pseudo-class, nth, :not/:is/:where/:has/:matches, '
        'pseudo-elements, all combinators; 1..3 complex selectors).  unify(a, b): b random, or a specialisation / generalisation / '
        'variant of a member of a (so that a result exists); every complex selector r of a non-null result is fed back to the real '
        'selector.is-superselector(a, r) and (b, r), both must be true.  extend(s, x, y): x = a simple selector or sub-compound '
        'taken from s (never one that also occurs inside a selector pseudo-class argument of s), y random; the complex selectors '
        'of s must be a subsequence of the result (canonical comparison).  replace(s, x, y): x built from names that occur '
        'nowhere in s; the result must be s.  nest(a, b) (b plain, with a leading combinator, or with &) against the selector '
        'emitted for `a { b { x: y } }`; append(a, b) with b one of .c / -suffix / [attr] / :hover against `a { &b { x: y } }` '
        '(for -suffix every complex selector of a ends in a type, class or id).  Distinct non-trivial = distinct (operation, '
        'operands) with: a non-null unification, an extension that added something, any replace/nest/append that produced a value.')
LEVEL_TEXT = ('Relational monitor: every law ties one selector function to another one (is-superselector) or to the nesting '
              'machinery of the compiler; the comparison is on canonical forms (compound order, `*`, attribute quoting, spacing '
              'ignored; order of complex selectors and of compounds strict).')
LEVEL_NOTE = 'Trusted: the canonical-form parser of monitors/lib/selgen.py; the real is-superselector as sub-oracle (its own laws are C23).'
TECHNIQUE = 'runtime monitoring: algebraic laws between selector functions, is-superselector and emitted nested rules'
ASSUMPTIONS = ['C23 (is-superselector is sound enough to act as the sub-oracle for unify)']

FRESH_SIMPLE = ['.zz', '.qq', '#zq', '[data-q]', '[q=z]', ':target', ':focus-within', '.zz.qq', 'zed', 'qux.zz', 'zed#zq']
SUFFIXES = [('.k', 'class'), ('.k.l', 'classes'), ('-suffix', 'ident'), ('_x', 'ident'), ('x1', 'ident'), ('[k]', 'attr'),
            ('[k=v]', 'attr'), (':hover', 'pseudo-class'), (':nth-child(2)', 'pseudo-class'), (':not(.k)', 'pseudo-class'),
            ('#k', 'id')]


PSEUDO_RE = re.compile(r':(not|is|where|has|matches)\(')


def q(s):
    return sg.sass_quote(s)


def canon_list(text):
    return sg.canon_or_none(text, strict=False)


def read_value(r):
    """evaluate_many result of meta.inspect(<selector function>) -> ('null', None) | ('sel', text) | ('err', msg) | ('other', x)"""
    if r[0] == 'ok':
        if r[1] == 'null':
            return ('null', None)
        return ('sel', sg.split_inspect(r[1]))
    if r[0] == 'err':
        return ('err', r[1].split('\n')[0][:100])
    return ('other', str(r)[:100])


def emitted(ctx, srcs):
    """selector of the single rule each source compiles to -> ('sel', text) | ('err', msg) | ('other', why)"""
    out = []
    for r in ctx.batch([{'src': s} for s in srcs]):
        st = r.get('status')
        if st == 'ok':
            try:
                nodes = css.parse(css.strip_header(r.get('out', '')))
            except css.ParseProblem as e:
                out.append(('other', 'unreadable output: %s' % e))
                continue
            rules = [nd for nd in nodes if nd['t'] == 'rule']
            if len(nodes) == 1 and len(rules) == 1:
                out.append(('sel', rules[0]['raw_prelude'].strip()))
            else:
                out.append(('other', 'not exactly one rule: %r' % r.get('out', '')[:100]))
        elif st == 'err':
            out.append(('err', r.get('err', '').split('\n')[0][:100]))
        else:
            out.append(('other', st))
    return out


# ------------------------------------------------------------------ case generation

def no_pe(lst, g):
    return tuple(tuple(p if isinstance(p, str) else (tuple(sm for sm in p if sm[0] != 'pe') or (g.cls(),)) for p in cx) for cx in lst)


def gen_unify(rng, g):
    c = _gen_unify(rng, g)
    # a pseudo-element changes the subject of a selector: `.e` is no superselector of `.e::after` (by definition), so the law
    # is not stated for operands with pseudo-elements
    return c if '::' not in c['a'] + c['b'] and ':before' not in c['a'] + c['b'] else None


def _gen_unify(rng, g):
    a = no_pe(g.list(2), g)
    r = rng.random()
    m = rng.choice(a)
    how = 'random'
    if r < 0.12:
        # both operands carry a selector pseudo-class of the same name whose arguments are related (one list extends or
        # specialises the other): the unification must keep the constraint of both
        name = rng.choice(g.selpseudos)
        l1 = [g.complex(1, maxlen=2) for _ in range(rng.choice([1, 1, 2]))]
        l2 = list(l1)
        if rng.random() < 0.5:
            l2.append(g.complex(1, maxlen=2))
        else:
            k = rng.randrange(len(l2))
            sp = sg.add_simple(rng, l2[k], g)
            if sp:
                l2[k] = sp[0]
        if rng.random() < 0.5:
            l1, l2 = l2, l1
        base = tuple(sm for sm in g.compound(1) if sm[0] != 'pe')
        extra = (g.cls(),) if rng.random() < 0.5 else ()
        ca = base + (('pcsel:' + name, ':%s(%s)' % (name, sg.render_list(tuple(l1)))),)
        cb = extra + (('pcsel:' + name, ':%s(%s)' % (name, sg.render_list(tuple(l2)))),)
        pre = (g.compound(1), rng.choice([' ', '>'])) if rng.random() < 0.3 else ()
        return {'op': 'unify', 'a': sg.render_list((pre + (ca,),)), 'b': sg.render_list(((cb,),)), 'how': 'related-pseudo-arguments'}
    if r < 0.3:
        b = no_pe(g.list(2), g)
    elif r < 0.55:
        sp = sg.specialise(rng, m, g)
        b, how = ((sp[0],), 'specialised') if sp else (g.list(1), 'random')
    elif r < 0.7:
        ge = sg.generalise(rng, m)
        b, how = ((ge[0],), 'generalised') if ge else (g.list(1), 'random')
    else:
        # same shape, other simple selectors: the compounds of m each replaced by a small type-less compound
        parts = []
        for p in m:
            if isinstance(p, str):
                parts.append(p if rng.random() < 0.7 else g.comb())
            else:
                parts.append(tuple(g.extra_simple(allow_id=False, allow_selpseudo=False) for _ in range(rng.choice([1, 1, 2]))))
        b, how = (tuple(parts),), 'same-shape'
        if rng.random() < 0.3:
            b = b + (g.complex(),)
    if rng.random() < 0.5:
        a, b = b, a
    return {'op': 'unify', 'a': sg.render_list(a), 'b': sg.render_list(b), 'how': how}


def _pcsel_texts(lst):
    return [t for cx in lst for c in sg.compounds(cx) for k, t in c if k.startswith('pcsel')]


def gen_extend(rng, g):
    for _ in range(20):
        s = g.list(3)
        if len(set(sg.canon(sg.render_complex(cx)) for cx in s)) != len(s):
            continue
        cx = rng.choice(s)
        comp = rng.choice(sg.compounds(cx))
        cand = [sm for sm in comp if sm[0] not in ('pe',) and not sm[0].startswith('pcsel')]
        if not cand:
            continue
        k = rng.choice([1, 1, 1, 2])
        xs = rng.sample(cand, min(k, len(cand)))
        xs.sort(key=lambda sm: 0 if sm[0] in ('type', 'univ') else 1)
        inner = _pcsel_texts(s)
        if any(sm[1] in t for sm in xs for t in inner):
            continue
        x = sg.render_compound(tuple(xs))
        if rng.random() < 0.15:
            x = x + ', ' + rng.choice(FRESH_SIMPLE)
        y = g.list(2)
        return {'op': 'extend', 's': sg.render_list(s), 'x': x, 'y': sg.render_list(y)}
    return None


def gen_replace(rng, g):
    s = g.list(3)
    x = rng.choice(FRESH_SIMPLE)
    if rng.random() < 0.25:
        x = x + ', ' + rng.choice(FRESH_SIMPLE)
    return {'op': 'replace', 's': sg.render_list(s), 'x': x, 'y': sg.render_list(g.list(2))}


def gen_nest(rng, g):
    a = g.list(2)
    r = rng.random()
    form = 'plain'
    if r < 0.65:
        b = sg.render_list(g.list(2))
    elif r < 0.78:
        form = 'leading-combinator'
        b = ', '.join('%s %s' % (rng.choice(['>', '+', '~']), sg.render_complex(g.complex(maxlen=2))) for _ in range(rng.choice([1, 1, 2])))
    else:
        form = 'parent-reference'
        c = sg.render_complex(g.complex(maxlen=2))
        b = rng.choice(['&%s' % rng.choice(['.k', ':hover', '[k]']), '& %s' % c, '& > %s' % c, '%s &' % c, '%s + &' % c,
                        '&, %s' % c, '& &'])
    # a pseudo-element can only end a selector: keep it out of the parent
    a = no_pe(a, g)
    return {'op': 'nest', 'a': sg.render_list(a), 'b': b, 'form': form}


def gen_append(rng, g):
    suffix, kind = rng.choice(SUFFIXES)
    for _ in range(20):
        a = g.list(2)
        if kind == 'ident':
            # an identifier suffix continues the last simple selector as written: end every complex selector in a compound
            # of type / id / class selectors only (in the order every Sass implementation prints them)
            def tail():
                t = ('type', rng.choice(g.types))
                c1, c2 = ('class', '.' + g.classes[0]), ('class', '.' + rng.choice(g.classes[1:]))
                return rng.choice([(t,), (c1,), (t, c1), (c1, c2), (('id', '#' + rng.choice(g.ids)),), (t, c2)])
            a = tuple(cx[:-1] + (tail(),) for cx in a)
        ok = True
        for cx in a:
            last = sg.compounds(cx)[-1]
            if any(sm[0] == 'pe' for sm in last) or last[0][0] == 'univ':
                ok = False
        if ok:
            return {'op': 'append', 'a': sg.render_list(a), 'b': suffix, 'suffix': kind}
    return None


def expr_of(c):
    op = c['op']
    if op == 'unify':
        return 'selector.unify(%s, %s)' % (q(c['a']), q(c['b']))
    if op in ('extend', 'replace'):
        return 'selector.%s(%s, %s, %s)' % (op, q(c['s']), q(c['x']), q(c['y']))
    return 'selector.%s(%s, %s)' % (op, q(c['a']), q(c['b']))


def rule_of(c):
    if c['op'] == 'nest':
        return '%s { %s { x: y } }' % (c['a'], c['b'])
    if c['op'] == 'append':
        return '%s { &%s { x: y } }' % (c['a'], c['b'])
    return None


def feats(*texts):
    f = set()
    for t in texts:
        if ' > ' in t or t.startswith('> '):
            f.add('child')
        if ' + ' in t or t.startswith('+ '):
            f.add('next')
        if ' ~ ' in t or t.startswith('~ '):
            f.add('sibling')
        for n in sg.SELPSEUDOS:
            if ':%s(' % n in t:
                f.add(':' + n)
        if '::' in t or ':before' in t:
            f.add('pseudo-element')
        if '*' in t.replace('*=', ''):
            f.add('universal')
        if ', ' in t:
            f.add('list')
    return ','.join(sorted(f)) or 'plain'


def selector_pseudos(text):
    """[(name, full text)] of the top-level :not()/:is()/... pseudo-classes in a selector text."""
    out, i = [], 0
    while True:
        m = PSEUDO_RE.search(text, i)
        if not m:
            return out
        depth, j = 1, m.end()
        while j < len(text) and depth:
            depth += {'(': 1, ')': -1}.get(text[j], 0)
            j += 1
        out.append((m.group(1), text[m.start():j]))
        i = j


def narrow_unify(ctx, c):
    """Is the failure explained by one pair of same-named selector pseudo-classes alone?  -> name or None"""
    pa, pb = selector_pseudos(c['a']), selector_pseudos(c['b'])
    pairs = sorted(set((na, ta, tb) for na, ta in pa for nb, tb in pb if na == nb and ta != tb))[:12]
    if not pairs:
        return None
    vals = [read_value(r) for r in ev.evaluate_many(ctx, ['selector.unify(%s, %s)' % (q(ta), q(tb)) for _, ta, tb in pairs], chunk=12)]
    calls, owner = [], []
    for (name, ta, tb), v in zip(pairs, vals):
        if v[0] == 'sel':
            for r in css.split_top(v[1]):
                for operand in (ta, tb):
                    calls.append('selector.is-superselector(%s, %s)' % (q(operand), q(r)))
                    owner.append((name, ta, tb, v[1]))
    res = ev.evaluate_many(ctx, calls, chunk=24) if calls else []
    bad = sorted(set(o for o, x in zip(owner, res) if x[0] == 'ok' and x[1] == 'false'))
    return bad[0] if bad else None


def check_cases(ctx, cases):
    vals = [read_value(r) for r in ev.evaluate_many(ctx, [expr_of(c) for c in cases], chunk=20)]
    ctx.ran(len(cases))
    rule_idx = [i for i, c in enumerate(cases) if rule_of(c)]
    em = dict(zip(rule_idx, emitted(ctx, [rule_of(cases[i]) for i in rule_idx])))
    ctx.ran(len(rule_idx))
    sub = []          # (case index, which operand, r text)
    for i, (c, v) in enumerate(zip(cases, vals)):
        op = c['op']
        ctx.seen('operations', op)
        if v[0] == 'other':
            ctx.undecided('unreadable', v[1])
            continue
        if op == 'unify':
            ctx.seen('unify-outcomes', '%s:%s' % (c.get('how'), v[0]))
            if v[0] == 'err':
                ctx.stat('unify-error')
                ctx.seen('error-messages', 'unify: ' + v[1])
            elif v[0] == 'sel':
                rs = css.split_top(v[1])
                ctx.nontrivial(('unify', c['a'], c['b']))
                ctx.stat('unify-result-members', len(rs))
                for r in rs:
                    for which, operand in (('first', c['a']), ('second', c['b'])):
                        if ' > ' in operand and (' + ' in r or ' ~ ' in r):
                            # `p > x` is not recognised as a superselector of `p > s ~ x` by the reference
                            # implementation either: the sub-oracle is incomplete there, nothing can be concluded
                            ctx.stat('unify-member-not-judged:child-combinator-vs-sibling-chain')
                            continue
                        sub.append((i, which, operand, r))
            else:
                ctx.stat('unify-null')
        elif op in ('extend', 'replace'):
            if v[0] != 'sel':
                ctx.stat('%s-%s' % (op, v[0]))
                if v[0] == 'err':
                    ctx.seen('error-messages', op + ': ' + v[1])
                else:
                    ctx.violation('%s-returned-null' % op, c, {'result': None})
                continue
            cs, cr = canon_list(c['s']), canon_list(v[1])
            if cs is None or cr is None:
                ctx.undecided('canonical-form', '%s / %s' % (c['s'], v[1]))
                continue
            if op == 'replace':
                ctx.nontrivial(('replace', c['s'], c['x'], c['y']))
                if cr != cs:
                    ctx.violation('replace-without-match-changed-the-selector', c, {'result': v[1], 'expected': c['s'], 'features': feats(c['s'])})
            else:
                if len(cr) > len(cs):
                    ctx.nontrivial(('extend', c['s'], c['x'], c['y']))
                    ctx.stat('extend-added')
                else:
                    ctx.stat('extend-added-nothing')
                it = iter(cr)
                missing = [k for k, m in enumerate(cs) if not any(m == r for r in it)]
                if missing:
                    lost_anywhere = [k for k in missing if cs[k] not in cr]
                    what = 'original-dropped' if lost_anywhere else 'originals-reordered'
                    ctx.violation('extend-%s' % what, c, {'result': v[1], 'missing-members-of-s': missing, 'features': feats(c['s'], c['x'], c['y'])})
        else:
            e = em.get(i)
            if e is None or e[0] == 'other':
                ctx.undecided('emitted-unreadable', e and e[1])
                continue
            if v[0] == 'err' and e[0] == 'err':
                ctx.stat('%s-both-error' % op)
                ctx.seen('error-messages', '%s both: %s' % (op, v[1]))
                continue
            label = c.get('form') or c.get('suffix')
            ctx.seen('%s-forms' % op, label)
            if v[0] != 'sel' or e[0] != 'sel':
                ctx.stat('%s-one-side-only' % op)
                ctx.violation('%s-%s-but-rule-%s|%s' % (op, v[0], e[0], label), c, {'function': v, 'rule': e})
                continue
            ctx.nontrivial((op, c['a'], c['b']))
            cf, ce = canon_list(v[1]), canon_list(e[1])
            if cf is None or ce is None:
                ctx.undecided('canonical-form', '%s / %s' % (v[1], e[1]))
            elif cf != ce:
                ctx.violation('%s-differs-from-nested-rule|%s' % (op, label), c, {'function': v[1], 'rule': e[1], 'features': feats(c['a'], c['b'])})
    if sub:
        res = ev.evaluate_many(ctx, ['selector.is-superselector(%s, %s)' % (q(s), q(r)) for _, _, s, r in sub], chunk=40)
        ctx.ran(len(sub))
        for (i, which, s, r), x in zip(sub, res):
            c = cases[i]
            if x[0] == 'ok' and x[1] == 'true':
                ctx.stat('unify-member-is-subselector')
            elif x[0] == 'ok' and x[1] == 'false':
                detail = {'unify': vals[i][1], 'member': r, 'not-a-subselector-of': s}
                hit = narrow_unify(ctx, c)
                if hit:
                    detail['minimal'] = {'a': hit[1], 'b': hit[2], 'unify': hit[3]}
                    ctx.violation('unify-result-not-a-subselector|same-pseudo-class-in-both-operands:%s' % hit[0], c, detail)
                else:
                    detail['features'] = feats(c['a'], c['b'])
                    ctx.violation('unify-result-not-a-subselector|of-%s-operand|%s' % (which, c.get('how', '?')), c, detail)
            elif x[0] == 'err':
                ctx.stat('sub-oracle-error')
                ctx.seen('error-messages', 'is-superselector: ' + x[1].split('\n')[0][:100])
            else:
                ctx.undecided('unreadable', str(x)[:100])


def check_case(ctx, case):
    check_cases(ctx, [case])


GENS = [gen_unify, gen_unify, gen_extend, gen_extend, gen_replace, gen_nest, gen_nest, gen_append]


def worker(ctx):
    rng = ctx.rng
    gs = [sg.Gen(rng), sg.Gen(rng, p_type=0.3, types=['a', 'b']), sg.Gen(rng, p_selpseudo=0.0, p_type=0.35),
          sg.Gen(rng, p_selpseudo=0.35, p_pe=0.12)]
    first = True
    while not ctx.expired():
        cases = []
        while len(cases) < 60:
            c = rng.choice(GENS)(rng, rng.choice(gs))
            if c:
                cases.append(c)
        check_cases(ctx, cases)
        if first:
            ctx.sample(cases[0]); ctx.sample(cases[1])
            first = False
