"""C18 - functions, mixins and content blocks bind arguments correctly (reference-model monitor).

Four families of generated programs, each with its own small model written from the property text:

  bind     one declaration (0..4 parameters, defaults that refer to earlier parameters or a global, optional rest
           parameter) and one call (positional, named, list splat, map splat) for a @function, a @mixin or a
           `@content(...)` / `@include m using (...)` pair.  The reference binder predicts the value of every parameter,
           the rest list and meta.keywords(), or "must be an error".
  return   a function body of @if/@each/@for around several @return statements, with `!global` tick statements between
           them: the value is the first @return reached and nothing after it runs.
  scope    callee bodies (and parameter defaults) read a variable that the definition site and the call site bind
           differently: the definition site's binding must be seen.
  content  programs of nested mixins, @include with blocks, `using`, pass-through @content, meta.content-exists(), all
           binding the same variable name at every level: a lexically scoped model predicts every printed value.

The programs do not depend on how plain assignments inside flow control are scoped (C16's subject): locals are
parameters and loop variables, globals are only written with !global.
"""
import re

from .lib import css

PROP = 'C18'
LEVEL = 'exploration'
BUDGET = {'quick': 28, 'thorough': 300}
FLOOR = {'quick': 3000, 'thorough': 30000}
RULE = ('four generated families: (bind) declarations with 0..4 parameters whose names mix - and _, defaults that are '
        'constants, earlier parameters (+100) or a global, an optional rest parameter, called with explicit positional and '
        'named arguments, a list splat (comma/space list, single value, empty) and a map splat, as @function, @mixin and '
        '@content/using, directly or through a wrapper that forwards `$args...`; valid calls and calls with too many positionals, unknown names, a parameter passed by position and '
        'by name, a missing required parameter, a name given twice.  (return) function bodies of @if/@each/@for nests with '
        'several @return and !global tick statements, called with 3 arguments each.  (scope) 30 templates in which the '
        'definition site (global or enclosing rule) and the call site (mixin/function parameter, @each/@for variable, '
        'using-parameter) bind the same name differently, for function bodies, mixin bodies and parameter defaults.  '
        '(content) programs of up to 3 mixins with nested @include blocks, using, pass-through @content, repeated @content, '
        '@content in @each, meta.content-exists(), and a function closure, all binding $v.  Distinct by source text; every '
        'case is non-trivial.  Oracle: reference binder / interpreter / lexical-scope model; an expected error only asserts '
        'that compilation fails.')
LEVEL_TEXT = ('Reference-model monitor over generated programs: every printed parameter, rest list, keyword map, return '
              'value, tick trace and scoped variable is predicted by an independent model.')
LEVEL_NOTE = ('Trusted: the binder and the lexical-scope interpreter in this file; integer values print as their decimal '
              'digits; the rest list and the keyword map are read back tolerantly (any separator, any order of keywords).')
TECHNIQUE = 'runtime monitoring: generated callables, calls and content blocks judged by a reference binder and a lexical-scope model'

HEADER = '@use "sass:meta";@use "sass:list";@use "sass:map";'


def canon(name):
    return name.replace('_', '-')


# =================================================================== family: bind
PARAM_NAMES = ['a', 'b-x', 'c_y', 'd', 'e-f_g']
UNKNOWN_NAMES = ['q', 'zz', 'u-v', 'w']


class BindError(Exception):
    pass


def flip(name, rng):
    """Another spelling of the same name (- and _ are equivalent)."""
    return ''.join((rng.choice('-_') if ch in '-_' else ch) for ch in name)


def bind_model(case):
    """-> ('ok', {canonical param: int}, [rest ints], {kw: int}) | ('err', tag)"""
    params, rest = case['params'], case['rest']
    call = case['call']
    pos = list(call['pos'])
    if call['lsplat'] is not None:
        pos += call['lsplat']['items']
    named = []
    for n, v in call['named']:
        named.append((canon(n), v, 'explicit'))
    if call['msplat'] is not None:
        for n, v, _q in call['msplat']['pairs']:
            named.append((canon(n), v, 'map-splat'))
    seen = {}
    for n, v, how in named:
        if n in seen:
            return ('err', 'name-given-twice')
        seen[n] = (v, how)
    if len(pos) > len(params) and not rest:
        return ('err', 'too-many-positional')
    vals = {}
    tags = []
    for i, p in enumerate(params):
        c = canon(p['decl'])
        if i < len(pos):
            if c in seen:
                tags.append('both-by-position-and-name:named-via-' + seen[c][1])
                continue
            vals[c] = pos[i]
        elif c in seen:
            vals[c] = seen.pop(c)[0]
        elif p['def'] is not None:
            d = p['def']
            if d['t'] == 'const':
                vals[c] = d['v']
            elif d['t'] == 'global':
                vals[c] = case['global']
            else:
                src = canon(params[d['i']]['decl'])
                if src not in vals:
                    tags.append('unbound')      # only after an earlier error
                    continue
                vals[c] = vals[src] + d['add']
        else:
            tags.append('missing-required')
    if tags:
        return ('err', sorted(tags)[0])
    if not rest and seen:
        return ('err', 'unknown-named:named-via-' + sorted(h for _, h in seen.values())[0])
    return ('ok', vals, pos[len(params):], {k: v for k, (v, _) in seen.items()})


def decl_src(case, rng_spell=None):
    parts = []
    for p in case['params']:
        s = '$' + p['decl']
        d = p['def']
        if d is not None:
            if d['t'] == 'const':
                s += ': %d' % d['v']
            elif d['t'] == 'global':
                s += ': $g%s' % case['_k']
            else:
                s += ': $%s + %d' % (d['spell'], d['add'])
        parts.append(s)
    if case['rest']:
        parts.append('$rest...')
    return ', '.join(parts)


def call_src(case, pre):
    k = case['_k']
    call = case['call']
    parts = [str(v) for v in call['pos']]
    parts += ['$%s: %d' % (n, v) for n, v in call['named']]
    ls = call['lsplat']
    if ls is not None:
        items = ls['items']
        if ls['shape'] == 'single':
            lit = str(items[0])
        elif not items:
            lit = '()'
        elif len(items) == 1:
            lit = '(%d,)' % items[0]
        else:
            lit = '(' + (', ' if ls['sep'] == 'comma' else ' ').join(str(x) for x in items) + ')'
        if ls['via'] == 'var':
            pre.append('$l%s: %s;' % (k, lit))
            parts.append('$l%s...' % k)
        else:
            parts.append(lit + '...')
    ms = call['msplat']
    if ms is not None:
        lit = '(' + ', '.join('%s: %d' % (('"%s"' % n) if q else n, v) for n, v, q in ms['pairs']) + ')'
        if ms['via'] == 'var':
            pre.append('$m%s: %s;' % (k, lit))
            parts.append('$m%s...' % k)
        else:
            parts.append(lit + '...')
    return ', '.join(parts)


def bind_build(case, k):
    case = dict(case, _k=k)
    pre = ['$g%s: %d;' % (k, case['global'])]
    decl = decl_src(case)
    call = call_src(case, pre)
    kind = case['kind']
    fields = [('v-%d' % i, '$' + p['use']) for i, p in enumerate(case['params'])]
    if case['rest']:
        fields += [('v-rest', 'meta.inspect($rest)'), ('v-kw', 'meta.inspect(meta.keywords($rest))')]
    fwd = case.get('forward')       # the call goes through a wrapper that passes its argument list on with `$args...`
    if kind == 'function':
        body = '|'.join('#{%s}' % e for _, e in fields) if fields else 'none'
        src = '@function f%s(%s) {\n  @return "%s";\n}\n' % (k, decl, body)
        if fwd:
            src += '@function w%s($args...) {\n  @return f%s($args...);\n}\n' % (k, k)
        src += '.c%s {\n  p: %s%s(%s);\n}\n' % (k, 'w' if fwd else 'f', k, call)
    else:
        decls = ''.join('    %s: %s;\n' % f for f in fields) or '    v-none: 1;\n'
        if kind == 'mixin':
            src = '@mixin m%s(%s) {\n%s}\n' % (k, decl, decls)
            if fwd:
                src += '@mixin w%s($args...) {\n  @include m%s($args...);\n}\n' % (k, k)
            src += '.c%s {\n  @include %s%s(%s);\n}\n' % (k, 'w' if fwd else 'm', k, call)
        elif fwd:
            src = '@mixin m%s($args...) {\n  @content($args...);\n}\n.c%s {\n  @include m%s(%s) using (%s) {\n%s  }\n}\n' % (k, k, k, call, decl, decls)
        else:
            src = '@mixin m%s {\n  @content(%s);\n}\n.c%s {\n  @include m%s using (%s) {\n%s  }\n}\n' % (k, call, k, k, decl, decls)
    m = bind_model(case)
    if m[0] == 'err':
        exp = ('err', m[1])
    else:
        _, vals, rest, kw = m
        fm = [('int', vals[canon(p['decl'])]) for p in case['params']]
        if case['rest']:
            fm += [('rest', rest), ('kw', kw)]
        if kind == 'function':
            exp = ('ok', [('p', ('fields', fm))])
        else:
            exp = ('ok', [(f[0], mt) for f, mt in zip(fields, fm)] or [('v-none', ('int', 1))])
    return {'src': ''.join(x + '\n' for x in pre) + src, 'exp': exp}


def bind_features(case):
    call = case['call']
    f = []
    if call['pos']:
        f.append('positional')
    if call['named']:
        f.append('named')
    if call['lsplat'] is not None:
        f.append('list-splat')
    if call['msplat'] is not None:
        f.append('map-splat')
    return f


def gen_bind(rng):
    n = rng.choice([0, 1, 1, 2, 2, 3, 3, 4])
    names = rng.sample(PARAM_NAMES, n)
    rest = rng.random() < 0.4
    kind = rng.choice(['function', 'mixin', 'content'])
    if kind == 'content' and n == 0 and not rest:
        rest = True
    params = []
    for i, nm in enumerate(names):
        d = None
        if rng.random() < 0.45:
            x = rng.random()
            if x < 0.35:
                d = {'t': 'const', 'v': 40 + i}
            elif x < 0.6 or i == 0:
                d = {'t': 'global'}
            else:
                j = rng.randrange(i)
                d = {'t': 'param', 'i': j, 'add': 100, 'spell': flip(names[j], rng)}
        params.append({'decl': flip(nm, rng), 'use': flip(nm, rng), 'def': d})
    want = rng.choice(['ok'] * 6 + ['too-many', 'unknown', 'both', 'missing', 'twice'])
    unknown = rng.sample(UNKNOWN_NAMES, 3)
    if rest and want == 'ok' and rng.random() < 0.08:
        unknown[0] = 'rest'         # an extra keyword that is spelled like the rest parameter is still an extra keyword
    # how many parameters are filled by position
    npos = rng.randint(0, n)
    extra_pos = 0
    if (rest or want == 'too-many') and npos == n or want == 'too-many':
        npos = n
        extra_pos = rng.randint(0, 2) if want != 'too-many' else rng.randint(1, 2)
    posvals = [i + 1 for i in range(npos + extra_pos)]
    # split the positional sequence into explicit arguments and a list splat
    lsplat = None
    if rng.random() < 0.4:
        cut = rng.randint(0, len(posvals))
        items = [20 + v for v in posvals[cut:]]
        posvals = posvals[:cut]
        shape = 'list'
        if len(items) == 1 and rng.random() < 0.4:
            shape = 'single'
        lsplat = {'items': items, 'sep': rng.choice(['comma', 'space']), 'via': rng.choice(['var', 'inline']), 'shape': shape}
    named, mpairs = [], []
    use_map = rng.random() < 0.4

    def give(name, value, declared=True):
        # map-splat keys are always written with hyphens (whether a key `c_y` names the parameter $c-y is not something
        # the statement settles); names that end up in meta.keywords() are never respelled
        if use_map and rng.random() < 0.6:
            mpairs.append([canon(name), value, rng.random() < 0.3])
        else:
            named.append([flip(name, rng) if declared else name, value])
    skipped_required = False
    for i in range(npos, n):
        p = params[i]
        if p['def'] is not None and rng.random() < 0.5:
            continue
        if p['def'] is None and want == 'missing' and not skipped_required:
            skipped_required = True
            continue
        give(names[i], 60 + i)
    if want == 'both' and npos > 0:
        give(names[rng.randrange(npos)], 70)
    if want == 'twice' and named:
        named.append([flip(named[0][0], rng), 80])
    if want == 'unknown' or (rest and rng.random() < 0.5):
        for u in unknown[:rng.randint(1, 2)]:
            give(u, 90 + len(named) + len(mpairs), declared=False)
    rng.shuffle(named)
    msplat = None
    if use_map and (mpairs or rng.random() < 0.3):
        msplat = {'pairs': mpairs, 'via': rng.choice(['var', 'inline'])}
        if not mpairs:
            msplat = None       # an empty map literal `()` is an empty list: not a subject
    else:
        named += [[x[0], x[1]] for x in mpairs]
    return {'fam': 'bind', 'kind': kind, 'params': params, 'rest': rest, 'global': 50, 'forward': rng.random() < 0.25,
            'call': {'pos': posvals, 'named': named, 'lsplat': lsplat, 'msplat': msplat}}


# =================================================================== family: return
class Returned(Exception):
    def __init__(self, v, path):
        self.v, self.path = v, path


class TooLong(Exception):
    pass


def ret_expr(e, env):
    if e['t'] == 'const':
        return e['v']
    return env[e['name']] * e['mul'] + e['add']


def ret_expr_src(e):
    if e['t'] == 'const':
        return str(e['v'])
    return '$%s * %d + %d' % (e['name'], e['mul'], e['add'])


def ret_cond(c, env):
    v = env[c['name']]
    return {'==': v == c['c'], '>': v > c['c'], '<': v < c['c'], '!=': v != c['c']}[c['op']]


def ret_run(stmts, env, st, path):
    for s in stmts:
        k = s['k']
        if k == 'tick':
            st['ticks'].append(s['d'])
            if len(st['ticks']) > 12:
                raise TooLong()
        elif k == 'ret':
            raise Returned(ret_expr(s['e'], env), path)
        elif k == 'if':
            if ret_cond(s['cond'], env):
                ret_run(s['then'], env, st, path + ['if'])
            elif s['else'] is not None:
                ret_run(s['else'], env, st, path + ['else'])
        elif k == 'each':
            for x in s['items']:
                e = dict(env)
                e['x%d' % s['id']] = x
                ret_run(s['body'], e, st, path + ['each'])
        elif k == 'for':
            a, b = s['a'], s['b']
            step = -1 if a > b else 1
            hi = b + step if s['incl'] else b
            for i in range(a, hi, step):
                e = dict(env)
                e['i%d' % s['id']] = i
                ret_run(s['body'], e, st, path + ['for'])


def ret_model(case, n):
    st = {'ticks': []}
    try:
        ret_run(case['body'], {'n': n}, st, [])
    except Returned as r:
        return r.v, st['ticks'], r.path
    raise AssertionError('no return')


def ret_render(stmts, k, ind):
    out = []
    sp = '  ' * ind
    for s in stmts:
        kd = s['k']
        if kd == 'tick':
            out.append('%s$t%s: $t%s * 10 + %d !global;' % (sp, k, k, s['d']))
        elif kd == 'ret':
            out.append('%s@return %s;' % (sp, ret_expr_src(s['e'])))
        elif kd == 'if':
            out.append('%s@if $%s %s %d {' % (sp, s['cond']['name'], s['cond']['op'], s['cond']['c']))
            out += ret_render(s['then'], k, ind + 1)
            if s['else'] is not None:
                out.append(sp + '} @else {')
                out += ret_render(s['else'], k, ind + 1)
            out.append(sp + '}')
        elif kd == 'each':
            out.append('%s@each $x%d in %s {' % (sp, s['id'], (', ' if s['sep'] == 'comma' else ' ').join(str(x) for x in s['items']) or '()'))
            out += ret_render(s['body'], k, ind + 1)
            out.append(sp + '}')
        elif kd == 'for':
            out.append('%s@for $i%d from %d %s %d {' % (sp, s['id'], s['a'], 'through' if s['incl'] else 'to', s['b']))
            out += ret_render(s['body'], k, ind + 1)
            out.append(sp + '}')
    return out


def ret_build(case, k):
    body = '\n'.join(ret_render(case['body'], k, 1))
    src = '$t%s: 0;\n@function f%s($n) {\n%s\n}\n.c%s {\n' % (k, k, body, k)
    exp = []
    for j, n in enumerate(case['args']):
        src += '  $t%s: 0 !global;\n  $r: f%s(%d);\n  r%d: $r;\n  t%d: $t%s;\n' % (k, k, n, j, j, k)
        v, ticks, path = ret_model(case, n)
        exp.append(('r%d' % j, ('int', v)))
        exp.append(('t%d' % j, ('int', int(''.join(str(d) for d in ticks) or '0'))))
    src += '}\n'
    return {'src': src, 'exp': ('ok', exp)}


class RetGen:
    def __init__(self, rng):
        self.rng = rng
        self.uid = 0
        self.retv = 100

    def nid(self):
        self.uid += 1
        return self.uid

    def ret(self, scope):
        r = self.rng
        self.retv += 1
        if scope and r.random() < 0.5:
            return {'k': 'ret', 'e': {'t': 'var', 'name': r.choice(scope), 'mul': r.choice([1, 10]), 'add': self.retv * 1000}}
        return {'k': 'ret', 'e': {'t': 'const', 'v': self.retv}}

    def tick(self):
        return {'k': 'tick', 'd': self.rng.randint(1, 9)}

    def cond(self, scope):
        r = self.rng
        return {'name': r.choice(scope), 'op': r.choice(['==', '==', '>', '<', '!=']), 'c': r.randint(0, 4)}

    def block(self, depth, scope):
        r = self.rng
        out = []
        for _ in range(r.choice([1, 2, 2, 3])):
            x = r.random()
            if depth >= 3:
                x = x * 0.4
            if x < 0.25:
                out.append(self.tick())
            elif x < 0.40 and depth > 0:
                out.append(self.ret(scope))
                if r.random() < 0.6:
                    out.append(self.tick())        # dead code after a return
            elif x < 0.65:
                out.append({'k': 'if', 'cond': self.cond(scope), 'then': self.block(depth + 1, scope) + ([self.ret(scope)] if r.random() < 0.6 else []),
                            'else': (self.block(depth + 1, scope) + ([self.ret(scope)] if r.random() < 0.4 else [])) if r.random() < 0.4 else None})
            elif x < 0.85:
                i = self.nid()
                items = [r.randint(0, 4) for _ in range(r.randint(0, 4))]
                out.append({'k': 'each', 'id': i, 'items': items if len(items) != 1 else items * 2, 'sep': r.choice(['comma', 'space']),
                            'body': self.block(depth + 1, scope + ['x%d' % i])})
            else:
                i = self.nid()
                a = r.randint(0, 3)
                out.append({'k': 'for', 'id': i, 'a': a, 'b': a + r.randint(-3, 3), 'incl': r.random() < 0.5,
                            'body': self.block(depth + 1, scope + ['i%d' % i])})
        return out

    def case(self):
        body = self.block(0, ['n'])
        body.append(self.ret(['n']))
        if self.rng.random() < 0.5:
            body.append(self.tick())
        return {'fam': 'return', 'body': body, 'args': self.rng.sample(range(0, 5), 3)}


def gen_return(rng):
    for _ in range(50):
        c = RetGen(rng).case()
        if not c['body'] or all(s['k'] in ('tick', 'ret') for s in c['body']):
            continue
        try:
            for n in c['args']:
                ret_model(c, n)
        except TooLong:
            continue
        return c
    raise RuntimeError('return generator')


# =================================================================== family: scope
CALLEES = ['function-body', 'mixin-body', 'function-default', 'mixin-default']
CALL_SITES = ['mixin-param', 'function-param', 'each-var', 'for-var', 'using-param']
DEF_SITES = ['global', 'rule']


def scope_build(case, k):
    """The callee reads $v; the definition site binds it to D, the call site to L."""
    D, L = case['def_value'], case['call_value']
    callee, site, defsite = case['callee'], case['call_site'], case['def_site']
    if callee == 'function-body':
        cdef = '@function f%s() { @return $v; }' % k
        use = 'p: f%s();' % k
        fuse = 'f%s()' % k
    elif callee == 'function-default':
        cdef = '@function f%s($x: $v) { @return $x; }' % k
        use = 'p: f%s();' % k
        fuse = 'f%s()' % k
    elif callee == 'mixin-body':
        cdef = '@mixin e%s() { p: $v; }' % k
        use = '@include e%s;' % k
        fuse = None
    else:
        cdef = '@mixin e%s($x: $v) { p: $x; }' % k
        use = '@include e%s;' % k
        fuse = None
    if site == 'mixin-param':
        cs_def = '@mixin w%s($v) { %s }' % (k, use)
        cs_use = '@include w%s(%d);' % (k, L)
    elif site == 'function-param':
        cs_def = '@function h%s($v) { @return %s; }' % (k, fuse)
        cs_use = 'p: h%s(%d);' % (k, L)
    elif site == 'each-var':
        cs_def = ''
        cs_use = '@each $v in %d, %d { %s }' % (L, L + 1, use)
    elif site == 'for-var':
        cs_def = ''
        cs_use = '@for $v from %d through %d { %s }' % (L, L + 1, use)
    else:
        cs_def = '@mixin w%s { @content(%d); }' % (k, L)
        cs_use = '@include w%s using ($v) { %s }' % (k, use)
    n = 2 if site in ('each-var', 'for-var') else 1
    if defsite == 'global':
        src = '%s\n%s\n.c%s {\n  %s\n}\n' % (cdef, cs_def, k, cs_use)
        pre = '$v: %d;\n' % D
        return {'src': src, 'exp': ('ok', [('p', ('int', D))] * n), 'global_v': D, 'pre': pre}
    src = '.c%s {\n  $v: %d;\n  %s\n  %s\n  %s\n}\n' % (k, D, cdef, cs_def, cs_use)
    return {'src': src, 'exp': ('ok', [('p', ('int', D))] * n), 'global_v': None, 'pre': ''}


def scope_cases():
    out = []
    for c in CALLEES:
        for s in CALL_SITES:
            if s == 'function-param' and not c.startswith('function'):
                continue
            for d in DEF_SITES:
                out.append((c, s, d))
    return out


def gen_scope(rng):
    c, s, d = rng.choice(scope_cases())
    dv = rng.randint(1, 9)
    return {'fam': 'scope', 'callee': c, 'call_site': s, 'def_site': d, 'def_value': dv, 'call_value': dv + rng.randint(1, 9) * 10}


# =================================================================== family: content
#   program: {'global': G, 'mixins': [{'param': bool, 'arity': 0|1, 'body': items}], 'main': items}
#   items:   {'k':'print','id','var':'v'|'u'} {'k':'printf','id'} {'k':'exists','id'} {'k':'content','arg': None|int|'v'}
#            {'k':'include','m': j, 'arg': None|int|'v', 'block': None | {'using': None|'v'|'u', 'body': items}}
#            {'k':'each','vals':[..],'body': items}
class ContentError(Exception):
    pass


def content_arg(a, env):
    return env['v'] if a == 'v' else a


def content_run(prog, items, env, out):
    for it in items:
        k = it['k']
        if k == 'print':
            out.append(('d%d' % it['id'], env[it['var']], 'print-' + it['var'], env['where']))
        elif k == 'printf':
            out.append(('d%d' % it['id'], prog['global'], 'function-closure', env['where']))
        elif k == 'exists':
            out.append(('x%d' % it['id'], 'true' if env['content'] is not None else 'false', 'content-exists', env['where']))
        elif k == 'content':
            c = env['content']
            if c is None:
                continue
            block, cenv = c
            e = dict(cenv)
            if block['using'] is not None:
                e[block['using']] = content_arg(it['arg'], env)
                e['where'] = 'block-using-' + block['using']
            else:
                e['where'] = 'block'
            content_run(prog, block['body'], e, out)
        elif k == 'include':
            m = prog['mixins'][it['m']]
            e = {'v': content_arg(it['arg'], env) if m['param'] else prog['global'], 'u': None,
                 'content': (it['block'], env) if it['block'] is not None else None, 'where': 'mixin-body'}
            content_run(prog, m['body'], e, out)
            if len(out) > 60:
                raise TooLong()
        elif k == 'each':
            for x in it['vals']:
                e = dict(env)
                e['v'] = x
                e['where'] = 'each-in-' + env['where']
                content_run(prog, it['body'], e, out)


def content_model(case):
    out = []
    content_run(case, case['main'], {'v': case['global'], 'u': None, 'content': None, 'where': 'rule'}, out)
    return out


def content_render(prog, items, k, ind):
    sp = '  ' * ind
    out = []
    for it in items:
        kd = it['k']
        if kd == 'print':
            out.append('%sd%d: $%s;' % (sp, it['id'], it['var']))
        elif kd == 'printf':
            out.append('%sd%d: gv%s();' % (sp, it['id'], k))
        elif kd == 'exists':
            out.append('%sx%d: meta.content-exists();' % (sp, it['id']))
        elif kd == 'content':
            a = it['arg']
            out.append('%s@content%s;' % (sp, '' if a is None else '(%s)' % ('$v' if a == 'v' else a)))
        elif kd == 'include':
            a = it['arg']
            head = '%s@include m%s-%d%s' % (sp, k, it['m'], '' if a is None else '(%s)' % ('$v' if a == 'v' else a))
            b = it['block']
            if b is None:
                out.append(head + ';')
            else:
                out.append(head + (' using ($%s)' % b['using'] if b['using'] else '') + ' {')
                out += content_render(prog, b['body'], k, ind + 1)
                out.append(sp + '}')
        elif kd == 'each':
            out.append('%s@each $v in %s {' % (sp, ', '.join(str(x) for x in it['vals'])))
            out += content_render(prog, it['body'], k, ind + 1)
            out.append(sp + '}')
    return out


def content_build(case, k):
    src = '@function gv%s() { @return $v; }\n' % k
    for j, m in enumerate(case['mixins']):
        src += '@mixin m%s-%d%s {\n%s\n}\n' % (k, j, '($v)' if m['param'] else '', '\n'.join(content_render(case, m['body'], k, 1)))
    src += '.c%s {\n%s\n}\n' % (k, '\n'.join(content_render(case, case['main'], k, 1)))
    exp = [(n, ('text', str(v)), cls + '@' + where) for n, v, cls, where in content_model(case)]
    return {'src': src, 'exp': ('ok', exp), 'pre': '$v: %d;\n' % case['global'], 'global_v': case['global']}


class ContentGen:
    def __init__(self, rng):
        self.rng = rng
        self.uid = 0
        self.val = 10

    def nid(self):
        self.uid += 1
        return self.uid

    def nval(self):
        self.val += 1
        return self.val

    def items(self, depth, owner, u_visible, in_block):
        """owner: index of the lexically enclosing mixin or None (the style rule)."""
        r = self.rng
        out = []
        n = r.choice([1, 2, 2, 3]) if depth < 3 else 1
        for _ in range(n):
            x = r.random()
            if x < 0.30 or depth >= 3:
                out.append({'k': 'print', 'id': self.nid(), 'var': 'u' if u_visible and r.random() < 0.4 else 'v'})
            elif x < 0.36:
                out.append({'k': 'printf', 'id': self.nid()})
            elif x < 0.44 and owner is not None and not in_block:
                out.append({'k': 'exists', 'id': self.nid()})
            elif x < 0.62 and owner is not None:
                ar = self.mixins[owner]['arity']
                out.append({'k': 'content', 'arg': None if ar == 0 else r.choice([self.nval(), 'v'])})
            elif x < 0.70 and depth < 2 and not in_block:
                # a loop that binds $v: only outside blocks and as the last statement of its body, so that nothing depends
                # on the loop variable being local (C16's subject)
                out.append({'k': 'each', 'vals': [self.nval(), self.nval()], 'body': self.items(depth + 1, owner, u_visible, in_block)})
                break
            else:
                lo = 0 if owner is None else owner + 1
                if lo >= len(self.mixins):
                    out.append({'k': 'print', 'id': self.nid(), 'var': 'v'})
                    continue
                j = r.randrange(lo, len(self.mixins))
                m = self.mixins[j]
                block = None
                if r.random() < 0.7:
                    using = None if m['arity'] == 0 else r.choice(['v', 'u'])
                    block = {'using': using, 'body': self.items(depth + 1, owner, u_visible or using == 'u', True)}
                out.append({'k': 'include', 'm': j, 'arg': (r.choice([self.nval(), 'v']) if m['param'] else None), 'block': block})
        return out

    def case(self):
        r = self.rng
        n = r.randint(1, 3)
        self.mixins = [{'param': r.random() < 0.7, 'arity': r.choice([0, 1]), 'body': None} for _ in range(n)]
        for j in reversed(range(n)):
            body = self.items(1, j, False, False)
            if not any(it['k'] == 'content' for it in body) and r.random() < 0.8:
                ar = self.mixins[j]['arity']
                hi = len(body) - 1 if body and body[-1]['k'] == 'each' else len(body)      # never after a loop that binds $v
                body.insert(r.randint(0, hi), {'k': 'content', 'arg': None if ar == 0 else r.choice([self.nval(), 'v'])})
            self.mixins[j]['body'] = body
        main = self.items(0, None, False, False)
        if not any(it['k'] == 'include' for it in main):
            m = self.mixins[0]
            main.insert(0, {'k': 'include', 'm': 0, 'arg': self.nval() if m['param'] else None,
                         'block': {'using': None if m['arity'] == 0 else 'v', 'body': [{'k': 'print', 'id': self.nid(), 'var': 'v'}]}})
        return {'fam': 'content', 'global': r.randint(1, 9), 'mixins': self.mixins, 'main': main}


def gen_content(rng):
    for _ in range(50):
        c = ContentGen(rng).case()
        try:
            out = content_model(c)
        except TooLong:
            continue
        if len(out) > 60:
            continue
        return c
    raise RuntimeError('content generator')


# =================================================================== common: build, match, judge
BUILD = {'bind': bind_build, 'return': ret_build, 'scope': scope_build, 'content': content_build}
GLOBAL_V_FAMILIES = ('scope', 'content')      # these bind the global name $v: one such case per stylesheet


def build_case(case, k):
    return BUILD[case['fam']](case, k)


def source_of(b):
    return HEADER + b.get('pre', '') + b['src']


def parse_rest(t):
    t = t.strip()
    while t and t[0] in '([' and t[-1] in ')]':
        t = t[1:-1].strip()
    return [x for x in re.split(r'[,\s]+', t) if x]


def parse_kw(t):
    t = t.strip()
    if not (t.startswith('(') and t.endswith(')')):
        return None
    inner = t[1:-1].strip()
    d = {}
    if not inner:
        return d
    for part in inner.split(','):
        if ':' not in part:
            return None
        a, b = part.split(':', 1)
        d[a.strip().strip('"\'')] = b.strip()
    return d


def match(m, text):
    """-> None if the printed text satisfies the matcher, else a short class of the disagreement."""
    kind = m[0]
    if kind == 'text':
        return None if text == m[1] else 'other-value'
    if kind == 'int':
        return None if text == str(m[1]) else 'other-value'
    if kind == 'rest':
        got = parse_rest(text)
        want = [str(x) for x in m[1]]
        if got == want:
            return None
        return 'rest-list-differs(expected-%s)' % ('empty' if not want else 'non-empty')
    if kind == 'kw':
        got = parse_kw(text)
        want = {k: str(v) for k, v in m[1].items()}
        if got == want:
            return None
        return 'keywords-differ(expected-%s)' % ('empty' if not want else 'non-empty')
    if kind == 'fields':
        if not (len(text) >= 2 and text[0] == '"' and text[-1] == '"'):
            return 'not-the-returned-string'
        parts = text[1:-1].split('|')
        if not m[1]:
            return None if parts == ['none'] else 'other-value'
        if len(parts) != len(m[1]):
            return 'not-the-returned-string'
        for fm, t in zip(m[1], parts):
            r = match(fm, t)
            if r is not None:
                return ('parameter-' if fm[0] == 'int' else '') + r
        return None
    raise AssertionError(kind)


def rules_of(out):
    try:
        nodes = css.parse(css.strip_header(out))
    except css.ParseProblem:
        return None
    d = {}
    for p, n, v in css.declarations(nodes):
        if len(p) != 1:
            return None
        d.setdefault(p[0], []).append((n, v))
    return d


def sig_prefix(case):
    f = case['fam']
    if f == 'bind':
        names = [canon(n) for n, _ in case['call']['named']] + [canon(x[0]) for x in (case['call']['msplat'] or {'pairs': []})['pairs']]
        return 'bind|%s%s' % (case['kind'], '|keyword-named-like-the-rest-parameter' if case['rest'] and 'rest' in names else '')
    if f == 'scope':
        return 'scope|callee=%s|call-site=%s|defined-in=%s' % (case['callee'], case['call_site'], case['def_site'])
    return f


def compare(case, b, k, rules):
    if rules is None:
        return ('undecided', 'output-does-not-scan')
    got = rules.get('.c%s' % k, [])
    exp = b['exp'][1]
    names_w = [e[0] for e in exp]
    names_g = [g[0] for g in got]
    pre = sig_prefix(case)
    if names_w != names_g:
        i = 0
        while i < len(names_w) and i < len(names_g) and names_w[i] == names_g[i]:
            i += 1
        if case['fam'] == 'content':
            if i < len(exp):
                cls = 'missing-or-misplaced|expected=%s' % exp[i][2]
            else:
                cls = 'extra-declarations-at-end'
        else:
            cls = 'declarations-differ'
        return ('violation', '%s|%s' % (pre, cls),
                {'first_difference_at': i, 'expected': [(e[0], e[1][1]) for e in exp][max(0, i - 2):i + 4], 'observed': got[max(0, i - 2):i + 4]})
    for e, (_, gv) in zip(exp, got):
        r = match(e[1], gv)
        if r is not None:
            if case['fam'] == 'scope':
                r = 'saw-call-site-binding' if gv == str(case['call_value']) or gv == str(case['call_value'] + 1) else r
            elif case['fam'] == 'content':
                r = 'wrong-binding|expected=%s' % e[2]
            elif case['fam'] == 'return':
                if e[0].startswith('t'):
                    wd = '' if e[1][1] == 0 else str(e[1][1])
                    gd = '' if gv == '0' else gv
                    if gd.startswith(wd) and len(gd) > len(wd):
                        r = 'ran-statements-after-the-return'
                    elif wd.startswith(gd):
                        r = 'stopped-before-the-return'
                    else:
                        r = 'tick-trace-differs'
                else:
                    r = 'returned-other-value|first-return-under=%s' % ('+'.join(sorted(set(ret_model(case, case['args'][int(e[0][1:])])[2]))) or 'top')
            return ('violation', '%s|%s' % (pre, r), {'declaration': e[0], 'expected': e[1], 'observed': gv})
    return None


def judge_result(ctx, case, b, k, r, rules=None):
    st = r.get('status')
    pre = sig_prefix(case)
    if st not in ('ok', 'err'):
        if st == 'panic':
            return ('violation', '%s|panic' % pre, {'panic': str(r.get('err', r))[:300]})
        return ('undecided', 'driver-' + str(st))
    if b['exp'][0] == 'err':
        if st == 'ok':
            return ('violation', '%s|missing-error|%s%s' % (pre, b['exp'][1].split(':')[0], '|rest-parameter-declared' if case.get('rest') else ''),
                    {'output': r.get('out', '')[:300]})
        return None
    if st == 'err':
        return ('violation', '%s|unexpected-error%s' % (pre, '|rest-parameter-declared' if case.get('rest') else ''),
                {'error': r.get('err', '')[:400]})
    return compare(case, b, k, rules if rules is not None else rules_of(r.get('out', '')))


def judge_single(ctx, case):
    b = build_case(case, 'k')
    r = ctx.compile(src=source_of(b), style='expanded', precision=10)
    return b, judge_result(ctx, case, b, 'k', r)


def record(ctx, case, b):
    ctx.ran()
    ctx.nontrivial(b['src'] + b.get('pre', ''))
    f = case['fam']
    ctx.seen('family', f)
    ctx.seen('expected-outcome', f + ':' + ('error:' + b['exp'][1].split(':')[0] if b['exp'][0] == 'err' else 'css'))
    if f == 'bind':
        ctx.seen('bind-kind', case['kind'] + ('/through-forwarding-wrapper' if case.get('forward') else ''))
        ctx.seen('bind-call-shape', '+'.join(bind_features(case)) or 'no-arguments')
        ctx.seen('bind-declaration', '%d-params%s%s' % (len(case['params']), '+rest' if case['rest'] else '',
                                                         '+defaults' if any(p['def'] for p in case['params']) else ''))
        for p in case['params']:
            if p['def'] is not None:
                ctx.seen('bind-default-kind', p['def']['t'])
        if b['exp'][0] == 'ok':
            m = bind_model(case)
            ctx.seen('bind-rest', 'none' if not case['rest'] else ('positional=%d,keywords=%d' % (min(len(m[2]), 2), min(len(m[3]), 2))))
            if any(p['decl'] != p['use'] or '_' in p['decl'] for p in case['params']):
                ctx.stat('bind_cases_with_dash_underscore_variants')
    elif f == 'return':
        for n in case['args']:
            v, ticks, path = ret_model(case, n)
            ctx.seen('return-under', '>'.join(path) or 'top')
        ctx.stat('return_calls', len(case['args']))
    elif f == 'scope':
        ctx.seen('scope-template', '%s/%s/%s' % (case['callee'], case['call_site'], case['def_site']))
    else:
        for e in b['exp'][1]:
            ctx.seen('content-observation', e[2])
            if e[2].startswith('content-exists'):
                ctx.seen('content-exists-value', e[1][1])

        def shapes(items, in_block):
            for it in items:
                if it['k'] == 'include':
                    blk = it['block']
                    ctx.seen('include-shape', 'without-block' if blk is None else ('with-block-using-$' + blk['using'] if blk['using'] else 'with-block'))
                    if blk is not None:
                        shapes(blk['body'], True)
                elif it['k'] == 'content':
                    ctx.seen('content-statement', ('inside-a-block(pass-through)' if in_block else 'in-mixin-body') +
                             ('/with-argument' if it['arg'] is not None else ''))
                elif it['k'] == 'each':
                    shapes(it['body'], in_block)
        shapes(case['main'], False)
        for m in case['mixins']:
            shapes(m['body'], False)
        ctx.stat('content_declarations', len(b['exp'][1]))


def settle(ctx, case, b, v):
    if v is None:
        return
    if v[0] == 'undecided':
        ctx.undecided(v[1])
        return
    ctx.violation(v[1], case, dict(v[2], source=source_of(b)))


def check_bundle(ctx, cases):
    """Expected-ok cases share stylesheets (at most one case that binds the global $v per stylesheet)."""
    sheets, errs = [], []
    for c in cases:
        b0 = build_case(c, 'k')
        if b0['exp'][0] == 'err':
            record(ctx, c, b0)
            errs.append((c, b0))
            continue
        for sh in sheets:
            if len(sh) < 10 and not (c['fam'] in GLOBAL_V_FAMILIES and any(x[0]['fam'] in GLOBAL_V_FAMILIES for x in sh)):
                sh.append([c])
                break
        else:
            sheets.append([[c]])
    jobs = []
    for sh in sheets:
        src = HEADER
        for i, ent in enumerate(sh):
            b = build_case(ent[0], str(i))
            record(ctx, ent[0], b)
            ent += [b, str(i)]
        # prelude of the case that binds $v first, then everything else
        src += ''.join(ent[1].get('pre', '') for ent in sh) + ''.join(ent[1]['src'] for ent in sh)
        jobs.append({'src': src, 'style': 'expanded', 'precision': 10})
    jobs += [{'src': source_of(b), 'style': 'expanded', 'precision': 10} for _, b in errs]
    res = ctx.batch(jobs)
    for sh, r in zip(sheets, res):
        rules = rules_of(r.get('out', '')) if r.get('status') == 'ok' else None
        for c, b, k in sh:
            v = judge_result(ctx, c, b, k, r, rules) if r.get('status') == 'ok' else ('violation', '', {})
            if v is not None and v[0] == 'violation':
                b, v = judge_single(ctx, c)          # confirm on its own before anything is reported
            settle(ctx, c, b, v)
    for (c, b), r in zip(errs, res[len(sheets):]):
        settle(ctx, c, b, judge_result(ctx, c, b, 'k', r))


def check_case(ctx, case):
    b, v = judge_single(ctx, case)
    record(ctx, case, b)
    settle(ctx, case, b, v)


GENS = [gen_bind] * 6 + [gen_return] * 2 + [gen_scope] + [gen_content] * 3


def worker(ctx):
    rng = ctx.rng
    first = True
    # the scope templates are a small finite set: every one of them is run once by the worker it falls to
    tmpl = [t for i, t in enumerate(scope_cases()) if i % ctx.nshards == ctx.shard]
    todo = [{'fam': 'scope', 'callee': c, 'call_site': s, 'def_site': d, 'def_value': 3, 'call_value': 40} for c, s, d in tmpl]
    while not ctx.expired():
        cases = todo[:6] + [rng.choice(GENS)(rng) for _ in range(24)]
        todo = todo[6:]
        check_bundle(ctx, cases)
        if first:
            first = False
            for c in cases:
                if c['fam'] != 'scope':
                    ctx.sample({'family': c['fam'], 'source': source_of(build_case(c, 'k'))}, limit=4)
