#!/bin/bash
# tools/run_all.sh <quick|thorough> [seed] [Cnn ...] : run the registered checks one after the other, print their verdict lines.
cd /verif || exit 2
TIER=$1; SEED=${2:-1}; shift; shift
PROPS=${*:-$(cat tools/registered.txt)}
for P in $PROPS; do
  S=$(date +%s)
  VERIF_SEED=$SEED ./check $P $TIER 2>&1 | grep -E "^(VIOLATION|HELD|VIOLATED|INCONCLUSIVE)|reason:" | cut -c1-220
  echo "   [$P $TIER seed=$SEED took $(( $(date +%s) - S ))s]"
done
