#!/usr/bin/python3
"""tools/seed_prompt.py Cnn [k] : create a scratch worktree /tmp/seed-Cnn-k of /repo HEAD and print the prompt for a
sub-agent that is to write a property-breaking change there (it gets the property text only, nothing from /verif)."""
import json, subprocess, sys
pid = sys.argv[1]
k = sys.argv[2] if len(sys.argv) > 2 else '1'
p = [json.loads(l) for l in open('/verif/properties.jsonl') if json.loads(l)['id'] == pid][0]
wt = '/tmp/seed-%s-%s' % (pid, k)
subprocess.run(['git', '-C', '/repo', 'worktree', 'add', '-q', '--detach', wt, 'HEAD'], check=True)
print(f"""You are testing how good a verification suite is at catching regressions in kaj/rsass, a Sass/SCSS compiler written in Rust. You have your own scratch git worktree of the repository at {wt} (work ONLY there and in {wt}-out/; never touch /repo or /verif and do not read anything under /verif — your change must be independent of what the suite can already detect). The sandbox has no network; `cargo build --offline` / `cargo nextest run --offline` work in the worktree (use its own default target directory).

The property under attack:

  {p['id']} — {p['title']}
  {p['statement']}
  Quantified over: {p['quantifier']['text']}
  Code it is anchored in: {', '.join(p['anchors'].get('files', []))}

Your task: write ONE small, realistic change to the rsass source (the kind of slip or well-meant "cleanup"/"optimisation" a maintainer could really commit) that BREAKS this property, while (a) the workspace still compiles without new warnings-as-errors and (b) the existing test suite still passes completely:
    cd {wt} && cargo nextest run --workspace --no-fail-fast --offline --test-threads 6 2>&1 | tail -5      (6796 tests; takes several minutes; all must pass)
The change must need something specific to manifest — an unusual input, a particular multi-step sequence or combination of features, a boundary value, two cooperating sites that each look fine alone — not something ordinary use would expose at once (if the existing tests fail, the change is too blunt: refine it). Do not add dead code, cfg flags, environment checks, magic constants that single out one input, or anything that looks planted; it must read like ordinary code. Do not touch tests, Cargo files or anything outside rsass/src and rsass-cli/src.

Deliver in {wt}-out/ (create it):
  * patch.diff   — `git -C {wt} diff` of your change (source only);
  * a demonstration that fails with the change and passes without it: either demo.scss (+ any extra files) together with demo.sh, a shell script that takes the path of an rsass CLI binary as $1 (build it with `cargo build --offline -p rsass-cli`, binary at target/debug/rsass), runs it and exits 0 when the property holds on this input and 1 when it is violated; or a Rust test file demo.rs with instructions; you must have run the demonstration both ways yourself (with and without the change: use `git stash` in the worktree) and seen fail/pass;
  * meta.json — {{"property": "{p['id']}", "summary": "<what the change does>", "needs_to_manifest": "<the specific input/sequence needed>", "why_tests_pass": "<why the 6796 tests do not notice>", "ran": ["<commands you ran and their results>"]}}.
Leave the change applied in the worktree when you finish. In your final message give a 5-line summary (what you changed, what manifests it, test-suite result, demo results).""")
