#!/usr/bin/python3
"""tools/seed_finish.py <Cnn-k> --caught C10[,C12] [--missed C02] [--note "..."] : after tools/confirm_seed.sh has confirmed a seeded
change, record in /verif/seeded/<id>/meta.json what was confirmed and which checks caught it, and remove the scratch worktree
with its build output."""
import argparse, json, os, re, shutil, subprocess
ap = argparse.ArgumentParser()
ap.add_argument('id'); ap.add_argument('--caught', default=''); ap.add_argument('--missed', default=''); ap.add_argument('--note', default='')
ap.add_argument('--keep-worktree', action='store_true')
a = ap.parse_args()
d = '/verif/seeded/%s' % a.id
log = open('/tmp/confirm-%s.log' % a.id).read() if os.path.exists('/tmp/confirm-%s.log' % a.id) else ''
mp = os.path.join(d, 'meta.json')
try:
    meta = json.load(open(mp))
except Exception:
    meta = {'property': a.id.split('-')[0]}
suite = re.search(r'Summary.*', log)
meta['confirmed_by_coordinator'] = {
    'suite_with_change': suite.group(0).strip() if suite else 'not run',
    'demo_with_change': 'fails (exit 1)' if 'demo with change: exit 1' in log else 'see log',
    'demo_without_change': 'passes (exit 0)' if 'demo without change: exit 0' in log else 'see log',
    'commands': ['tools/confirm_seed.sh %s' % a.id] + ['tools/try_patch.sh seeded/%s/patch.diff %s' % (a.id, p) for p in (a.caught + ',' + a.missed).split(',') if p],
}
meta['caught_by'] = [p for p in a.caught.split(',') if p]
meta['missed_by'] = [p for p in a.missed.split(',') if p]
if a.note:
    meta['note'] = a.note
json.dump(meta, open(mp, 'w'), indent=1)
# keep the record small: no binaries, no test logs
for root, _, files in os.walk(d):
    for f in files:
        fp = os.path.join(root, f)
        if os.path.getsize(fp) > 300_000 or f.startswith('nextest'):
            os.unlink(fp)
if not a.keep_worktree:
    wt = '/tmp/seed-%s' % a.id
    subprocess.run(['git', '-C', '/repo', 'worktree', 'remove', '--force', wt])
    shutil.rmtree(wt + '-out', ignore_errors=True)
    for f in ('/tmp/seed-prompt-%s.txt' % a.id, ):
        if os.path.exists(f):
            os.unlink(f)
print(json.dumps(meta['confirmed_by_coordinator']), meta['caught_by'], meta['missed_by'])
