#!/usr/bin/python3
"""Regenerates MANIFEST.json from the monitors that exist (run from /verif)."""
import importlib, json, os, sys
sys.path.insert(0, os.path.dirname(os.path.dirname(os.path.abspath(__file__))))
props = [json.loads(l) for l in open('properties.jsonl')]
checks, na = [], []
NA = json.load(open('tools/not_applicable.json')) if os.path.exists('tools/not_applicable.json') else {}
REG = set(open('tools/registered.txt').read().split())
for p in props:
    pid = p['id']
    if pid not in REG:
        na.append({'property_id': pid, 'reason': NA.get(pid, 'not claimed yet: its monitor has not been shown silent on the unchanged tree over several seeds and firing on seeded breaks (see DESIGN.md section 6)')})
        continue
    try:
        m = importlib.import_module('monitors.%s' % pid.lower())
    except ModuleNotFoundError:
        na.append({'property_id': pid, 'reason': NA.get(pid, 'no monitor registered: not built (or not yet shown silent on the unchanged tree and firing on a break)')})
        continue
    if getattr(m, 'UNREGISTERED', None):
        na.append({'property_id': pid, 'reason': m.UNREGISTERED})
        continue
    checks.append({
        'property_id': pid,
        'quick_cmd': './check %s quick' % pid,
        'thorough_cmd': './check %s thorough' % pid,
        'evidence_file': 'evidence/%s.json' % pid,
        'replay_cmd_template': './check %s --replay {path}' % pid,
        'engine': 'rsass-runtime-monitor',
        'level_claimed': {'category': m.LEVEL, 'text': m.LEVEL_TEXT, 'design_ref': 'DESIGN.md section 3, %s' % pid},
        'level_note': m.LEVEL_NOTE,
        'technique': m.TECHNIQUE,
    })
hooks_commits = [l.strip() for l in open('tools/hook_commits.txt') if l.strip()]
man = {
    'version': 1,
    'setup_cmd': './setup',
    'hooks': {
        'guard': 'cargo feature verif_hooks of the rsass crate (off by default)',
        'enable': 'the driver crate depends on rsass with features=["verif_hooks"]; ./check builds it with cargo build --release --offline from the working tree',
        'baseline_off_cmd': 'cd /repo && (cargo nextest run --workspace --no-fail-fast --offline --test-threads 8 || cargo test --workspace --no-fail-fast --offline)',
        'source_commits': hooks_commits,
        'add_only': True,
    },
    'engines': [{
        'name': 'rsass-runtime-monitor', 'path': 'monitors/',
        'serves_properties': [c['property_id'] for c in checks],
        'kind_free_text': 'runtime monitoring: a Rust job server (harness/) executes the real rsass library built from the working tree with the verif_hooks feature, checked arithmetic and debug assertions; Python monitors generate workloads and run oracles over the observed outputs, events and statuses; sanitizer lanes (Miri, ThreadSanitizer) on harness/src/conc.rs',
    }],
    'checks': checks,
    'not_applicable': na,
    'notes': 'Every check is a runtime monitor over executions of the real code (driver built from /repo\'s working tree on every invocation; cargo is skipped only when no source file changed); verdicts are three-valued (violated / held on what was observed / inconclusive, the last exits 0 and is flagged in the evidence). known_findings.json lists genuine defects of the pinned tree by narrow signature (findings) and the repaired ones (fixed, which suppress nothing); the witness of every listed finding that the generated workload does not hit is replayed on every run. seeded/ holds 46 property-breaking changes written by independent sub-agents, all caught (DESIGN.md section 9). Quick tier: 20-50 s per check on an idle 16-core machine; thorough: 5-15 min (C05/C06 longer: Miri and ThreadSanitizer lanes).',
}
json.dump(man, open('MANIFEST.json', 'w'), indent=1)
print('checks', len(checks), 'not_applicable', len(na))
