#!/bin/bash
# tools/confirm_queue.sh : run tools/confirm_seed.sh for every id listed in /tmp/confirm-queue.txt (appended to by hand), one at a time.
touch /tmp/confirm-queue.txt /tmp/confirm-done.txt
while true; do
  ID=$(grep -vxFf /tmp/confirm-done.txt /tmp/confirm-queue.txt | head -1)
  if [ -z "$ID" ]; then sleep 30; continue; fi
  T=${T:-5} /verif/tools/confirm_seed.sh "$ID" > /tmp/confirm-$ID.log 2>&1
  echo "$ID" >> /tmp/confirm-done.txt
done
