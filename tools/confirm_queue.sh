#!/bin/bash
# tools/confirm_queue.sh : run tools/confirm_seed.sh for every id listed in /tmp/confirm-queue.txt (appended to by hand), one at a time.
touch /tmp/confirm-queue.txt /tmp/confirm-done.txt
while true; do
  LINE=$(grep -vxFf /tmp/confirm-done.txt /tmp/confirm-queue.txt | head -1)
  if [ -z "$LINE" ]; then sleep 30; continue; fi
  ID=${LINE%% *}
  T=${T:-5} /verif/tools/confirm_seed.sh $LINE > /tmp/confirm-$ID.log 2>&1
  echo "$LINE" >> /tmp/confirm-done.txt
done
