#!/bin/bash
# tools/confirm_queue.sh <name> : run tools/confirm_seed.sh for every line "<id> [wt]" of /tmp/confirm-queue-<name>.txt (appended to by hand),
# one at a time; finished lines go to /tmp/confirm-done-<name>.txt.  Several queues with different names can run side by side.
Q=/tmp/confirm-queue-$1.txt; D=/tmp/confirm-done-$1.txt
touch $Q $D
while true; do
  LINE=$(grep -vxFf $D $Q | head -1)
  if [ -z "$LINE" ]; then sleep 30; continue; fi
  ID=${LINE%% *}
  T=${T:-5} /verif/tools/confirm_seed.sh $LINE > /tmp/confirm-$ID.log 2>&1
  echo "$LINE" >> $D
done
